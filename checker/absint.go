package main

// E6 — abstract interpretation of SSA regions over small finite domains.
//
// The interpreter never executes repository code: values are abstract
// (enumeration constants, booleans, a two-point counter abstraction, Top), the
// inputs are abstract symbols supplied by the rule, every branch whose
// condition is not decided by abstract values forks both ways, and anything
// outside the supported instruction set evaluates to Top.

import (
	"fmt"
	"go/constant"
	"go/token"
	"go/types"
	"sort"
	"strings"

	"golang.org/x/tools/go/ssa"
)

const (
	aTop = iota
	aInt
	aBool
	aStr
	aCnt // counter relative to the number of completed iterations: Eq => equal, !Eq => strictly less; Delta = increments in the current iteration
	aNil
	aNonNil
)

// AVal is an abstract value.
type AVal struct {
	Kind  int
	Int   int64
	B     bool
	Str   string
	Eq    bool
	Delta int
}

var top = AVal{Kind: aTop}

func (a AVal) String() string {
	switch a.Kind {
	case aInt:
		return fmt.Sprintf("%d", a.Int)
	case aBool:
		return fmt.Sprintf("%v", a.B)
	case aStr:
		return fmt.Sprintf("%q", a.Str)
	case aCnt:
		if a.Eq {
			return fmt.Sprintf("cnt=iters+%d", a.Delta)
		}
		return fmt.Sprintf("cnt<iters+%d", a.Delta)
	case aNil:
		return "nil"
	case aNonNil:
		return "nonnil"
	}
	return "⊤"
}

// Interp is one abstract interpretation run configuration.
type Interp struct {
	Fn *ssa.Function
	// Hook lets the rule supply the abstract value of an instruction (an
	// input load, a call that is an abstract input, a comparison of the
	// counter). ok=false means "use the default evaluation".
	Hook func(in ssa.Instruction, env map[ssa.Value]AVal) (AVal, bool)
	// IntTypes: named integer types whose constants are tracked (others are Top).
	IntTypes map[string]bool
	// TrackStrings: track string constants.
	TrackStrings bool
	MaxPaths     int
	paths        int
	Steps        int
	Overflow     bool
	reps         map[memKey]ssa.Value
}

// Outcome of following one path.
type Outcome struct {
	Stop  *ssa.BasicBlock // the stop block reached (nil if a Return was reached)
	From  *ssa.BasicBlock // predecessor through which Stop was entered
	Ret   *ssa.Return
	Env   map[ssa.Value]AVal
	Panic bool
	Trace []int
}

func (ip *Interp) constVal(c *ssa.Const) AVal {
	if c.IsNil() {
		return AVal{Kind: aNil}
	}
	if c.Value == nil {
		// zero value of a struct etc.
		if b, ok := c.Type().Underlying().(*types.Basic); ok {
			switch {
			case b.Info()&types.IsBoolean != 0:
				return AVal{Kind: aBool, B: false}
			case b.Info()&types.IsString != 0 && ip.TrackStrings:
				return AVal{Kind: aStr, Str: ""}
			}
		}
		return top
	}
	switch c.Value.Kind() {
	case constant.Bool:
		return AVal{Kind: aBool, B: constant.BoolVal(c.Value)}
	case constant.Int:
		if ip.IntTypes[namedOf(c.Type())] {
			if n, ok := constant.Int64Val(c.Value); ok {
				return AVal{Kind: aInt, Int: n}
			}
		}
		if n, ok := constant.Int64Val(c.Value); ok && ip.IntTypes["*"] {
			return AVal{Kind: aInt, Int: n}
		}
		return top
	case constant.String:
		if ip.TrackStrings {
			return AVal{Kind: aStr, Str: constant.StringVal(c.Value)}
		}
	}
	return top
}

func (ip *Interp) val(v ssa.Value, env map[ssa.Value]AVal) AVal {
	if c, ok := v.(*ssa.Const); ok {
		return ip.constVal(c)
	}
	if a, ok := env[v]; ok {
		return a
	}
	return top
}

func cmpInt(op token.Token, a, b int64) (bool, bool) {
	switch op {
	case token.EQL:
		return a == b, true
	case token.NEQ:
		return a != b, true
	case token.LSS:
		return a < b, true
	case token.LEQ:
		return a <= b, true
	case token.GTR:
		return a > b, true
	case token.GEQ:
		return a >= b, true
	}
	return false, false
}

// memRep returns the canonical representative of the memory cell
// (alloc, field): the first FieldAddr of that field on that Alloc.
func (ip *Interp) memRep(fa *ssa.FieldAddr) ssa.Value {
	al, ok := fa.X.(*ssa.Alloc)
	if !ok {
		return nil
	}
	if ip.reps == nil {
		ip.reps = map[memKey]ssa.Value{}
	}
	k := memKey{al, fa.Field}
	if r, ok := ip.reps[k]; ok {
		return r
	}
	var rep ssa.Value
	for _, b := range ip.Fn.Blocks {
		for _, in := range b.Instrs {
			if x, ok := in.(*ssa.FieldAddr); ok && x.X == al && x.Field == fa.Field && rep == nil {
				rep = x
			}
		}
	}
	ip.reps[k] = rep
	return rep
}

// FieldOf returns the abstract content of field `field` of a local struct Alloc.
func (ip *Interp) FieldOf(al *ssa.Alloc, field int, env map[ssa.Value]AVal) AVal {
	if ip.reps == nil {
		ip.reps = map[memKey]ssa.Value{}
	}
	for _, r := range *al.Referrers() {
		if fa, ok := r.(*ssa.FieldAddr); ok && fa.Field == field {
			if rep := ip.memRep(fa); rep != nil {
				if a, ok := env[rep]; ok {
					return a
				}
			}
		}
	}
	return top
}

type memKey struct {
	al    *ssa.Alloc
	field int
}

func (ip *Interp) eval(in ssa.Instruction, env map[ssa.Value]AVal) {
	if st, ok := in.(*ssa.Store); ok {
		if fa, ok := st.Addr.(*ssa.FieldAddr); ok {
			if rep := ip.memRep(fa); rep != nil {
				env[rep] = ip.val(st.Val, env)
			}
		}
		return
	}
	v, isVal := in.(ssa.Value)
	if !isVal {
		return
	}
	if ip.Hook != nil {
		if a, ok := ip.Hook(in, env); ok {
			env[v] = a
			return
		}
	}
	switch x := in.(type) {
	case *ssa.BinOp:
		a, b := ip.val(x.X, env), ip.val(x.Y, env)
		switch {
		case a.Kind == aInt && b.Kind == aInt:
			if r, ok := cmpInt(x.Op, a.Int, b.Int); ok {
				env[v] = AVal{Kind: aBool, B: r}
				return
			}
		case a.Kind == aBool && b.Kind == aBool && (x.Op == token.EQL || x.Op == token.NEQ):
			env[v] = AVal{Kind: aBool, B: (a.B == b.B) == (x.Op == token.EQL)}
			return
		case a.Kind == aStr && b.Kind == aStr && (x.Op == token.EQL || x.Op == token.NEQ):
			env[v] = AVal{Kind: aBool, B: (a.Str == b.Str) == (x.Op == token.EQL)}
			return
		case (a.Kind == aNil || a.Kind == aNonNil) && (b.Kind == aNil || b.Kind == aNonNil) && (x.Op == token.EQL || x.Op == token.NEQ):
			if a.Kind == aNil && b.Kind == aNil {
				env[v] = AVal{Kind: aBool, B: x.Op == token.EQL}
				return
			}
			if a.Kind != b.Kind {
				env[v] = AVal{Kind: aBool, B: x.Op == token.NEQ}
				return
			}
		case a.Kind == aCnt && x.Op == token.ADD:
			if k, ok := x.Y.(*ssa.Const); ok && k.Value != nil && k.Value.ExactString() == "1" {
				env[v] = AVal{Kind: aCnt, Eq: a.Eq, Delta: a.Delta + 1}
				return
			}
		}
		env[v] = top
	case *ssa.UnOp:
		if x.Op == token.MUL {
			if fa, ok := x.X.(*ssa.FieldAddr); ok {
				if rep := ip.memRep(fa); rep != nil {
					if a, ok := env[rep]; ok {
						env[v] = a
						return
					}
				}
			}
			env[v] = top
			return
		}
		a := ip.val(x.X, env)
		if x.Op == token.NOT && a.Kind == aBool {
			env[v] = AVal{Kind: aBool, B: !a.B}
			return
		}
		env[v] = top
	case *ssa.FieldAddr:
		// addresses carry no abstract value; keep memory cells (keyed by their representative) intact
		if rep := ip.memRep(x); rep == ssa.Value(x) {
			if _, ok := env[rep]; ok {
				return
			}
		}
		env[v] = top
	case *ssa.Phi:
		// handled on block entry
	case *ssa.ChangeType:
		env[v] = ip.val(x.X, env)
	case *ssa.Convert:
		env[v] = ip.val(x.X, env)
	case *ssa.MakeInterface:
		env[v] = AVal{Kind: aNonNil}
	case *ssa.Alloc, *ssa.MakeMap, *ssa.MakeSlice, *ssa.MakeClosure:
		env[v] = AVal{Kind: aNonNil}
	default:
		env[v] = top
	}
}

func envKey(b *ssa.BasicBlock, env map[ssa.Value]AVal, tracked []ssa.Value) string {
	var sb strings.Builder
	fmt.Fprintf(&sb, "b%d", b.Index)
	for _, t := range tracked {
		fmt.Fprintf(&sb, "|%s", env[t])
	}
	return sb.String()
}

// Run follows every abstract path from block `start` (entered from `from`,
// which selects phi edges; may be nil) until a stop block is entered or a
// Return/Panic is reached. tracked lists the values whose abstract state
// distinguishes revisits of a block on the same path (inner loops that do not
// change them are cut after one round).
func (ip *Interp) Run(start, from *ssa.BasicBlock, env map[ssa.Value]AVal, stops map[*ssa.BasicBlock]bool, tracked []ssa.Value) []Outcome {
	if ip.MaxPaths == 0 {
		ip.MaxPaths = 50000
	}
	var outs []Outcome
	var rec func(b, from *ssa.BasicBlock, env map[ssa.Value]AVal, onPath map[string]bool, trace []int, first bool)
	rec = func(b, from *ssa.BasicBlock, env map[ssa.Value]AVal, onPath map[string]bool, trace []int, first bool) {
		if ip.paths > ip.MaxPaths {
			ip.Overflow = true
			return
		}
		if !first && stops[b] {
			ip.paths++
			outs = append(outs, Outcome{Stop: b, From: from, Env: env, Trace: trace})
			return
		}
		// phis
		if from != nil {
			pi := -1
			for i, p := range b.Preds {
				if p == from {
					pi = i
				}
			}
			newVals := map[ssa.Value]AVal{}
			for _, in := range b.Instrs {
				p, ok := in.(*ssa.Phi)
				if !ok {
					break
				}
				if ip.Hook != nil {
					if a, ok := ip.Hook(p, env); ok {
						newVals[p] = a
						continue
					}
				}
				if pi >= 0 && pi < len(p.Edges) {
					newVals[p] = ip.val(p.Edges[pi], env)
				} else {
					newVals[p] = top
				}
			}
			for k, v := range newVals {
				env[k] = v
			}
		}
		k := envKey(b, env, tracked)
		if onPath[k] {
			return // same abstract state revisited on this path: nothing new
		}
		onPath[k] = true
		defer delete(onPath, k)
		trace = append(trace, b.Index)
		for _, in := range b.Instrs {
			ip.Steps++
			switch x := in.(type) {
			case *ssa.Phi:
				continue
			case *ssa.Return:
				ip.paths++
				outs = append(outs, Outcome{Ret: x, Env: env, Trace: append([]int(nil), trace...)})
				return
			case *ssa.Panic:
				ip.paths++
				outs = append(outs, Outcome{Panic: true, Env: env, Trace: append([]int(nil), trace...)})
				return
			case *ssa.If:
				c := ip.val(x.Cond, env)
				for j, s := range b.Succs {
					if c.Kind == aBool && c.B != (j == 0) {
						continue
					}
					e2 := env
					if c.Kind != aBool {
						e2 = copyEnv(env)
					}
					rec(s, b, e2, onPath, append([]int(nil), trace...), false)
				}
				return
			case *ssa.Jump:
				rec(b.Succs[0], b, env, onPath, trace, false)
				return
			default:
				ip.eval(in, env)
			}
		}
	}
	rec(start, from, copyEnv(env), map[string]bool{}, nil, true)
	return outs
}

func copyEnv(e map[ssa.Value]AVal) map[ssa.Value]AVal {
	n := make(map[ssa.Value]AVal, len(e))
	for k, v := range e {
		n[k] = v
	}
	return n
}

// headerPhis returns the phis of a block.
func headerPhis(b *ssa.BasicBlock) []*ssa.Phi {
	var out []*ssa.Phi
	for _, in := range b.Instrs {
		if p, ok := in.(*ssa.Phi); ok {
			out = append(out, p)
		} else {
			break
		}
	}
	return out
}

func stateKey(vals []AVal, ghosts []bool) string {
	var sb strings.Builder
	for _, v := range vals {
		sb.WriteString(v.String())
		sb.WriteString("|")
	}
	for _, g := range ghosts {
		if g {
			sb.WriteString("1")
		} else {
			sb.WriteString("0")
		}
	}
	return sb.String()
}

func sortedAVals(m map[string]bool) []string {
	var r []string
	for k := range m {
		r = append(r, k)
	}
	sort.Strings(r)
	return r
}
