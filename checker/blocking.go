package main

import (
	"fmt"
	"go/token"
	"strings"

	"golang.org/x/tools/go/ssa"
)

// The process runner waits for nothing but the process (C17; seed C17-7).
//
// "A call returns within a bounded delay after its context is cancelled or expires" rests on os/exec: CommandContext kills
// the process, WaitDelay bounds the wait for the pipes os/exec itself copies. Both bounds cover only what os/exec knows
// about. The seeded change handed the plugin the read end of a pipe the runner made itself and wrote the request into the
// other end, synchronously, between Start and Wait: a request larger than the pipe buffer, a plugin that does not read it and
// a descendant that keeps the read end open, and the write never returns — no context and no WaitDelay reaches it.
//
// Rule (effect denylist over the runner's call tree): the function that creates the command (exec.CommandContext) and the
// functions of its package it statically calls perform no operation that can block without bound and that os/exec does not
// bound: no pipe of their own (os.Pipe), no Read/Write on a file or on a reader/writer interface, no io.Copy/ReadAll/
// WriteString family, no Sleep, no WaitGroup.Wait, no bare channel receive, no select without a case on the context's Done
// channel. Buffers in memory (bytes.Buffer, bytes.Reader, strings.Builder) are not on the list; the request reaches the
// process through cmd.Stdin and os/exec's own copier, which WaitDelay bounds.
func init() {
	alsoRun["C17"] = append(alsoRun["C17"], c17NoUnboundedBlocking)
}

var c17BlockingCallees = []string{
	"os.Pipe", "(*os.File).Write", "(*os.File).WriteString", "(*os.File).WriteAt", "(*os.File).Read", "(*os.File).ReadAt", "(*os.File).ReadFrom", "(*os.File).WriteTo",
	"io.Copy", "io.CopyN", "io.CopyBuffer", "io.ReadAll", "io.ReadFull", "io.ReadAtLeast", "io.WriteString",
	"time.Sleep", "(*sync.WaitGroup).Wait", "(*sync.Cond).Wait",
	"(*bufio.Writer).Flush", "(*bufio.Writer).Write", "(*bufio.Reader).Read", "(*bufio.Reader).ReadString", "(*bufio.Reader).ReadBytes", "(*bufio.Scanner).Scan",
	"(*os/exec.Cmd).StdinPipe", "(*os/exec.Cmd).StdoutPipe", "(*os/exec.Cmd).StderrPipe",
	"net.Dial", "(*net/http.Client).Do",
}

func c17NoUnboundedBlocking(c *Ctx) {
	w := c.W
	rule := "the process runner waits for nothing but the process: the function that creates the command and the functions of its package it calls make no pipe of their own, perform no Read/Write on files or reader/writer interfaces, no io.Copy/ReadAll family call, no Sleep or WaitGroup wait, no bare channel receive and no select without the context's Done channel"
	var roots []*ssa.Function
	for _, fn := range w.Funcs {
		if !w.IsProductFn(fn) || fn.Blocks == nil {
			continue
		}
		for _, ci := range allCalls(fn) {
			if n := calleeName(ci); n == "os/exec.CommandContext" || n == "os/exec.Command" {
				roots = append(roots, fn)
				break
			}
		}
	}
	// a constructor that only creates and configures the command: the functions that call it run it
	for i := 0; i < len(roots); i++ {
		r := roots[i]
		if token.IsExported(r.Name()) && r.Signature.Recv() == nil {
			continue
		}
		for _, fn := range w.Funcs {
			if !w.IsProductFn(fn) || fn.Blocks == nil || fn == r {
				continue
			}
			for _, ci := range allCalls(fn) {
				if staticCallee(ci) == r {
					dup := false
					for _, x := range roots {
						if x == fn {
							dup = true
						}
					}
					if !dup && len(roots) < 8 && fn.Pkg == r.Pkg {
						roots = append(roots, fn)
					}
					break
				}
			}
		}
	}
	if len(roots) == 0 {
		c.Unk("runner/no-unbounded-blocking", "anchor: the function that creates the plugin process", "-", "no call of exec.CommandContext in the product packages")
		return
	}
	total := 0
	for _, root := range roots {
		seen := map[*ssa.Function]bool{}
		var bad []string
		calls := 0
		var visit func(fn *ssa.Function, depth int)
		visit = func(fn *ssa.Function, depth int) {
			if seen[fn] || depth > 4 {
				return
			}
			seen[fn] = true
			c.SeenFn(fn.String())
			for _, b := range fn.Blocks {
				for _, in := range b.Instrs {
					switch x := in.(type) {
					case ssa.CallInstruction:
						calls++
						c.Evals++
						n := calleeName(x)
						for _, d := range c17BlockingCallees {
							if n == d {
								bad = append(bad, n+" at "+w.InstrPos(in))
							}
						}
						if strings.HasPrefix(n, "invoke:io.") && (strings.HasSuffix(n, ".Write") || strings.HasSuffix(n, ".Read") || strings.HasSuffix(n, ".ReadFrom") || strings.HasSuffix(n, ".WriteTo")) {
							bad = append(bad, n+" at "+w.InstrPos(in))
						}
						if g := staticCallee(x); g != nil && g.Blocks != nil && w.IsProductFn(g) && g.Pkg == root.Pkg {
							visit(g, depth+1)
						}
						if mc, ok := x.Common().Value.(*ssa.MakeClosure); ok {
							if g, ok := mc.Fn.(*ssa.Function); ok {
								visit(g, depth+1)
							}
						}
					case *ssa.UnOp:
						if x.Op == token.ARROW {
							bad = append(bad, "channel receive at "+w.InstrPos(in))
						}
					case *ssa.Select:
						if x.Blocking {
							okDone := false
							for _, st := range x.States {
								if call, ok := st.Chan.(*ssa.Call); ok && calleeName(call) == "invoke:context.Context.Done" {
									okDone = true
								}
							}
							if !okDone {
								bad = append(bad, "select without the context's Done channel at "+w.InstrPos(in))
							}
						}
					case *ssa.Go:
						_ = x
					}
				}
			}
			for _, af := range fn.AnonFuncs {
				visit(af, depth+1)
			}
		}
		visit(root, 0)
		key := "runner/no-unbounded-blocking/" + fnName(root)
		total += calls
		detail := ""
		if len(bad) > 0 {
			detail = "an operation os/exec does not bound stands in the runner: " + strings.Join(bad, "; ") + " — a peer that does not cooperate keeps the call from returning after the context expired"
		}
		c.Check(len(bad) == 0, key, rule, w.FnPos(root), detail)
	}
	if total < 5 {
		c.Unk("runner/no-unbounded-blocking#count", "vacuity guard: the runner's call tree is examined", "-", fmt.Sprintf("only %d calls examined", total))
	}
}
