package main

import (
	"go/constant"
	"go/token"
	"go/types"
	"strings"

	"golang.org/x/tools/go/ssa"
)

// A small bound prover for index expressions: 0 <= idx < len(x) at an instruction, from
//   - lower bounds by construction (constants, sums with non-negative constants, phis of such values — the induction
//     variable of a counting loop, whichever way the loop is written — len/cap, index producers answering >= -1),
//   - comparison facts that every path to the instruction passes (the gate engine's must-pass labels), which hold for the
//     immutable SSA values they mention,
//   - producer contracts of the standard library's index finders (a non-negative answer is a valid index of the searched value).
// It is value based, so it does not depend on how the loop or the search is spelled.

const (
	negInf = -1 << 40
	posInf = 1 << 40
)

// indexProducer: the call answers -1 or a valid index of its first argument.
func indexProducer(v ssa.Value) (*ssa.Call, bool) {
	call, ok := v.(*ssa.Call)
	if !ok || len(call.Call.Args) < 1 {
		return nil, false
	}
	switch calleeName(call) {
	case "slices.Index", "slices.IndexFunc", "ngo/internal/slices.IndexIsser",
		"strings.IndexByte", "strings.IndexRune", "strings.IndexAny", "strings.IndexFunc", "strings.LastIndexByte", "strings.LastIndexAny", "strings.LastIndexFunc",
		"bytes.IndexByte", "bytes.IndexRune", "bytes.IndexAny", "bytes.IndexFunc", "bytes.LastIndexByte", "bytes.LastIndexAny", "bytes.LastIndexFunc":
		return call, true
	case "strings.Index", "strings.LastIndex", "bytes.Index", "bytes.LastIndex":
		// an empty separator is found at 0 (or len) even in an empty value: only a non-empty constant separator gives a valid index
		if len(call.Call.Args) == 2 {
			if k, ok := call.Call.Args[1].(*ssa.Const); ok && k.Value != nil && k.Value.Kind() == constant.String && len(constant.StringVal(k.Value)) > 0 {
				return call, true
			}
		}
	}
	// instantiated generics are named with their type arguments
	n := calleeName(call)
	if strings.HasPrefix(n, "slices.Index[") || strings.HasPrefix(n, "slices.IndexFunc[") {
		return call, true
	}
	return nil, false
}

// lowerBound: a constant c with v >= c on every execution (negInf when none is known).
func lowerBound(v ssa.Value, visiting map[ssa.Value]bool, decr bool) int64 {
	switch x := v.(type) {
	case *ssa.Const:
		if x.Value != nil && x.Value.Kind() == constant.Int {
			if i, ok := constant.Int64Val(x.Value); ok {
				return i
			}
		}
		return negInf
	case *ssa.Phi:
		if visiting[x] {
			// a cycle through additions of non-negative constants never lowers the value
			if decr {
				return negInf
			}
			return posInf
		}
		visiting[x] = true
		defer delete(visiting, x)
		lb := int64(posInf)
		for _, e := range x.Edges {
			if b := lowerBound(e, visiting, decr); b < lb {
				lb = b
			}
		}
		return lb
	case *ssa.BinOp:
		k, isK := x.Y.(*ssa.Const)
		if !isK || k.Value == nil || k.Value.Kind() != constant.Int {
			return negInf
		}
		kv, _ := constant.Int64Val(k.Value)
		switch x.Op {
		case token.ADD:
			b := lowerBound(x.X, visiting, decr || kv < 0)
			if b <= negInf || b >= posInf {
				return b
			}
			return b + kv
		case token.SUB:
			b := lowerBound(x.X, visiting, decr || kv > 0)
			if b <= negInf || b >= posInf {
				return b
			}
			return b - kv
		}
		return negInf
	case *ssa.Call:
		if bi, ok := x.Call.Value.(*ssa.Builtin); ok && (bi.Name() == "len" || bi.Name() == "cap") {
			return 0
		}
		if _, ok := indexProducer(x); ok {
			return -1
		}
		switch calleeName(x) {
		case "strings.Index", "strings.LastIndex", "bytes.Index", "bytes.LastIndex", "strings.Count", "bytes.Count":
			return -1
		}
	case *ssa.Convert:
		if b, ok := x.X.Type().Underlying().(*types.Basic); ok && b.Info()&types.IsUnsigned != 0 {
			return 0
		}
		return lowerBound(x.X, visiting, decr)
	case *ssa.ChangeType:
		return lowerBound(x.X, visiting, decr)
	}
	return negInf
}

// guardsAtEnd: the comparison facts every path to the end of block b passes.
func guardsAtEnd(fi *FnInfo, b *ssa.BasicBlock) map[string]string {
	return fi.GuardsOf(blockTerm(b))
}

func nonNegAt(fi *FnInfo, g map[string]string, v ssa.Value) bool {
	lb := lowerBound(v, map[ssa.Value]bool{}, false)
	if lb >= 0 {
		return true
	}
	d := desc(v)
	if labelHas(g, "GE("+d+",const:0)") || labelHas(g, "GT("+d+",const:-1)") || labelHas(g, "GT("+d+",const:0)") || labelHas(g, "GE("+d+",const:1)") {
		return true
	}
	if lb >= -1 && labelHas(g, "NE("+d+",const:-1)") {
		return true
	}
	// a remembered index: every edge of the phi is non-negative where it is taken, or is the "none" marker excluded by a guard
	return false
}

// lenNames: how len(x) can be written in a label; for arrays the constant length.
func lenNames(x ssa.Value) (names []string, arrayLen int64) {
	arrayLen = -1
	t := x.Type().Underlying()
	if pt, ok := t.(*types.Pointer); ok {
		t = pt.Elem().Underlying()
	}
	if at, ok := t.(*types.Array); ok {
		arrayLen = at.Len()
	}
	xd := desc(x)
	names = append(names, "len("+xd+")")
	if strings.HasSuffix(xd, "[:]") {
		names = append(names, "len("+strings.TrimSuffix(xd, "[:]")+")")
	}
	return names, arrayLen
}

func sameIndexed(a, b ssa.Value) bool {
	if a == b {
		return true
	}
	return strings.TrimSuffix(desc(a), "[:]") == strings.TrimSuffix(desc(b), "[:]")
}

// ltLenAt: v < len(x), from the facts g (every path passes them) or a producer contract.
func ltLenAt(fi *FnInfo, g map[string]string, v, x ssa.Value, visiting map[ssa.Value]bool) bool {
	if visiting[v] {
		return true
	}
	d := desc(v)
	names, arrLen := lenNames(x)
	// equal-length values named by the facts
	for l := range g {
		if strings.HasPrefix(l, "EQ(len(") {
			_, args := splitTopArgs(l)
			if len(args) == 2 && strings.HasPrefix(args[1], "len(") {
				for _, n := range names {
					if args[0] == n {
						names = append(names, args[1])
					} else if args[1] == n {
						names = append(names, args[0])
					}
				}
			}
		}
	}
	for _, n := range names {
		if labelHas(g, "LT("+d+","+n+")") || labelHas(g, "GT("+n+","+d+")") {
			return true
		}
	}
	if arrLen >= 0 {
		for l := range g {
			if strings.HasPrefix(l, "LT("+d+",const:") {
				_, args := splitTopArgs(l)
				if len(args) == 2 {
					if m, ok := parseConstInt(args[1]); ok && m <= arrLen {
						return true
					}
				}
			}
		}
		if k, ok := v.(*ssa.Const); ok && k.Value != nil && k.Value.Kind() == constant.Int {
			if i, ok := constant.Int64Val(k.Value); ok && i < arrLen {
				return true
			}
		}
	}
	if call, ok := indexProducer(v); ok && sameIndexed(call.Call.Args[0], x) {
		return true
	}
	// an index handed back by a module helper (`exact, wildcard := doc.matchStatements(path)`): on every return of the helper the
	// value is a negative marker or below the length of the helper's own spelling of x (its parameters replaced by the arguments)
	if helperIndexBelowLen(fi, v, x, visiting) {
		return true
	}
	switch y := v.(type) {
	case *ssa.Phi:
		// a remembered index: where each value flows in it is below len(x) (negative markers are below any length)
		visiting[v] = true
		defer delete(visiting, v)
		for i, e := range y.Edges {
			if k, ok := e.(*ssa.Const); ok && k.Value != nil && k.Value.Kind() == constant.Int {
				if kv, ok := constant.Int64Val(k.Value); ok && kv < 0 {
					continue
				}
			}
			ge := guardsAtEnd(fi, y.Block().Preds[i])
			if ge == nil || !ltLenAt(fi, ge, e, x, visiting) {
				return false
			}
		}
		return true
	case *ssa.BinOp:
		// v = w - k (k >= 0) with w < len(x)
		if k, ok := y.Y.(*ssa.Const); ok && y.Op == token.SUB && k.Value != nil && k.Value.Kind() == constant.Int {
			if kv, ok := constant.Int64Val(k.Value); ok && kv >= 0 {
				if ltLenAt(fi, g, y.X, x, visiting) {
					return true
				}
				// len(x) - k with k >= 1
				if kv >= 1 {
					for _, n := range names {
						if desc(y.X) == n {
							return true
						}
					}
				}
			}
		}
	}
	return false
}

func helperIndexBelowLen(fi *FnInfo, v, x ssa.Value, visiting map[ssa.Value]bool) bool {
	var call *ssa.Call
	k := 0
	switch y := v.(type) {
	case *ssa.Extract:
		call, _ = y.Tuple.(*ssa.Call)
		k = y.Index
	case *ssa.Call:
		call = y
	}
	if call == nil || len(visiting) > 6 {
		return false
	}
	g := staticCallee(call)
	if g == nil || g.Blocks == nil || !fi.W.IsProductFn(g) || len(g.Params) != len(call.Call.Args) || g == fi.Fn {
		return false
	}
	xd := strings.TrimSuffix(desc(x), "[:]")
	// the helper's values that are x in the caller's frame
	var xs []ssa.Value
	names, args := paramNames(g), argDescs(call)
	seen := map[ssa.Value]bool{}
	for _, b := range g.Blocks {
		for _, in := range b.Instrs {
			var cand ssa.Value
			switch y := in.(type) {
			case *ssa.IndexAddr:
				cand = y.X
			case *ssa.Index:
				cand = y.X
			case *ssa.Call:
				if bi, ok := y.Call.Value.(*ssa.Builtin); ok && bi.Name() == "len" {
					cand = y.Call.Args[0]
				}
			}
			if cand == nil || seen[cand] {
				continue
			}
			seen[cand] = true
			if strings.TrimSuffix(substParams(desc(cand), names, args), "[:]") == xd {
				xs = append(xs, cand)
			}
		}
	}
	if len(xs) == 0 {
		return false
	}
	gi := fi.W.Info(g)
	visiting[v] = true
	defer delete(visiting, v)
	n := 0
	for _, b := range g.Blocks {
		r, ok := blockTerm(b).(*ssa.Return)
		if !ok || k >= len(r.Results) {
			continue
		}
		n++
		rv := r.Results[k]
		if c, ok := rv.(*ssa.Const); ok && c.Value != nil && c.Value.Kind() == constant.Int {
			if cv, ok := constant.Int64Val(c.Value); ok && cv < 0 {
				continue
			}
		}
		ge := guardsAtEnd(gi, b)
		if ge == nil {
			ge = map[string]string{}
		}
		okRet := false
		for _, xg := range xs {
			if ltLenAt(gi, ge, rv, xg, visiting) {
				okRet = true
			}
		}
		if !okRet {
			return false
		}
	}
	return n > 0
}

func parseConstInt(s string) (int64, bool) {
	if !strings.HasPrefix(s, "const:") {
		return 0, false
	}
	var n int64
	neg := false
	t := strings.TrimPrefix(s, "const:")
	if strings.HasPrefix(t, "-") {
		neg = true
		t = t[1:]
	}
	if t == "" {
		return 0, false
	}
	for _, ch := range t {
		if ch < '0' || ch > '9' {
			return 0, false
		}
		n = n*10 + int64(ch-'0')
	}
	if neg {
		n = -n
	}
	return n, true
}

// yieldIndexInRange: the instruction sits in the body of `for i, v := range slices.All(S)` / `slices.Backward(S)` (compiled into
// a yield function), idx is that i — a valid index of S by the iterators' contract — and x is S itself or a variable of the
// enclosing function that is assigned once, only read by the loop body, and known to have S's length where the loop starts.
func yieldIndexInRange(fi *FnInfo, x, idx ssa.Value) bool {
	y := fi.Fn
	if y.Synthetic != "range-over-func yield" || len(y.Params) == 0 || idx != ssa.Value(y.Params[0]) || y.Parent() == nil {
		return false
	}
	parent := y.Parent()
	var mc *ssa.MakeClosure
	var S ssa.Value
	var at ssa.Instruction
	for _, ci := range allCalls(parent) {
		for _, a := range ci.Common().Args {
			if m, ok := a.(*ssa.MakeClosure); ok && m.Fn == ssa.Value(y) {
				it, ok := ci.Common().Value.(*ssa.Call)
				if !ok || len(it.Call.Args) != 1 {
					return false
				}
				switch calleeName(it) {
				case "slices.All", "slices.Backward":
				default:
					return false
				}
				mc, S, at = m, it.Call.Args[0], ci
			}
		}
	}
	if mc == nil {
		return false
	}
	// x as the enclosing function sees it
	var xp ssa.Value
	if ld, ok := x.(*ssa.UnOp); ok && ld.Op == token.MUL {
		if fv, ok := ld.X.(*ssa.FreeVar); ok {
			for k, f := range y.FreeVars {
				if f == fv && k < len(mc.Bindings) {
					if al, ok := mc.Bindings[k].(*ssa.Alloc); ok {
						xp = singleStore(al)
					}
				}
			}
		}
	}
	if xp == nil {
		return false
	}
	if sameIndexed(S, xp) {
		return true
	}
	g := fi.W.Info(parent).GuardsOf(at)
	a, b := "len("+desc(S)+")", "len("+desc(xp)+")"
	return labelHas(g, "EQ("+a+","+b+")") || labelHas(g, "EQ("+b+","+a+")")
}

// idxInRange: 0 <= idx < len(x) at instruction in.
func idxInRange(fi *FnInfo, in ssa.Instruction, x, idx ssa.Value) bool {
	if yieldIndexInRange(fi, x, idx) {
		return true
	}
	g := fi.GuardsOf(in)
	if g == nil {
		return false
	}
	return nonNegAt(fi, g, idx) && ltLenAt(fi, g, idx, x, map[ssa.Value]bool{})
}

// earlierAccessProves: an access of the same SSA value x that dominates `at` and cannot have succeeded unless
// len(x) >= need — `x[j]` with a constant j >= need-1, `x[l:]`/`x[:h]`/`x[l:h]` with a constant bound >= need. Had the
// earlier access been out of range it would have panicked there (and is an obligation of its own), so at `at` the length
// is known: `first := chain[0]; for _, c := range chain[1:]` needs no second guard. x is one SSA value (a slice or string
// header is immutable as a value), so the length cannot have changed in between.
func earlierAccessProves(x ssa.Value, need int64, at ssa.Instruction) bool {
	if need <= 0 {
		return true
	}
	refs := x.Referrers()
	if refs == nil {
		return false
	}
	dominates := func(a ssa.Instruction) bool {
		if a == at || a.Block() == nil || at.Block() == nil {
			return false
		}
		if a.Block() == at.Block() {
			for _, in := range a.Block().Instrs {
				if in == a {
					return true
				}
				if in == at {
					return false
				}
			}
			return false
		}
		return a.Block().Dominates(at.Block())
	}
	constOf := func(v ssa.Value) (int64, bool) {
		if v == nil {
			return 0, false
		}
		return parseConstInt(desc(v))
	}
	for _, r := range *refs {
		switch a := r.(type) {
		case *ssa.IndexAddr:
			if j, ok := constOf(a.Index); ok && a.X == x && j+1 >= need && dominates(a) {
				return true
			}
		case *ssa.Index:
			if j, ok := constOf(a.Index); ok && a.X == x && j+1 >= need && dominates(a) {
				return true
			}
		case *ssa.Slice:
			if a.X != x {
				continue
			}
			if l, ok := constOf(a.Low); ok && l >= need && dominates(a) {
				return true
			}
			if h, ok := constOf(a.High); ok && h >= need && dominates(a) {
				return true
			}
		}
	}
	return false
}
