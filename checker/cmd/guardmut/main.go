// guardmut lists the guards of the product packages of a repository: every `if` / tagless `switch` case whose body leaves
// the normal flow (return, continue, break, goto, panic). Tooling for tools/guard_mutants.py (mutation coverage of the rule
// sets: which guards can be disabled without any check noticing); no registered check uses it.
package main

import (
	"encoding/json"
	"flag"
	"go/ast"
	"go/parser"
	"go/token"
	"os"
	"path/filepath"
	"strings"
)

type guard struct {
	File  string `json:"file"`
	Line  int    `json:"line"`
	Func  string `json:"func"`
	Start int    `json:"start"`
	End   int    `json:"end"`
	Cond  string `json:"cond"`
	Kind  string `json:"kind"`
}

var stay = new(bool)

func leaves(body []ast.Stmt) bool {
	found := false
	for _, s := range body {
		ast.Inspect(s, func(n ast.Node) bool {
			switch x := n.(type) {
			case *ast.FuncLit:
				return false
			case *ast.ReturnStmt, *ast.BranchStmt:
				found = true
			case *ast.CallExpr:
				if id, ok := x.Fun.(*ast.Ident); ok && id.Name == "panic" {
					found = true
				}
			}
			return true
		})
	}
	return found
}

func main() {
	dir := flag.String("dir", "/repo", "repository")
	flag.BoolVar(stay, "stay", false, "also list tests whose body stays in the normal flow")
	flag.Parse()
	var out []guard
	filepath.Walk(*dir, func(path string, info os.FileInfo, err error) error {
		if err != nil {
			return nil
		}
		rel, _ := filepath.Rel(*dir, path)
		if info.IsDir() {
			if strings.HasPrefix(info.Name(), ".") && rel != "." || info.Name() == "testdata" || strings.HasPrefix(rel, "internal/mock") || strings.HasPrefix(rel, "example") {
				return filepath.SkipDir
			}
			return nil
		}
		if !strings.HasSuffix(path, ".go") || strings.HasSuffix(path, "_test.go") {
			return nil
		}
		src, err := os.ReadFile(path)
		if err != nil {
			return nil
		}
		fset := token.NewFileSet()
		f, err := parser.ParseFile(fset, path, src, 0)
		if err != nil {
			return nil
		}
		for _, d := range f.Decls {
			fd, ok := d.(*ast.FuncDecl)
			if !ok || fd.Body == nil {
				continue
			}
			name := fd.Name.Name
			if fd.Recv != nil && len(fd.Recv.List) > 0 {
				t := fd.Recv.List[0].Type
				if st, ok := t.(*ast.StarExpr); ok {
					t = st.X
				}
				if id, ok := t.(*ast.Ident); ok {
					name = id.Name + "." + name
				}
			}
			ast.Inspect(fd.Body, func(n ast.Node) bool {
				add := func(c ast.Expr, kind string) {
					s, e := fset.Position(c.Pos()).Offset, fset.Position(c.End()).Offset
					out = append(out, guard{File: rel, Line: fset.Position(c.Pos()).Line, Func: name, Start: s, End: e, Cond: string(src[s:e]), Kind: kind})
				}
				switch x := n.(type) {
				case *ast.IfStmt:
					if leaves(x.Body.List) {
						add(x.Cond, "if")
					} else if eb, ok := x.Else.(*ast.BlockStmt); ok && leaves(eb.List) {
						add(x.Cond, "if-else-leaves")
					} else if *stay {
						// a test whose body stays in the flow (selects, assigns, records): `-stay` lists these too
						add(x.Cond, "if-stay")
					}
				case *ast.SwitchStmt:
					if x.Tag == nil {
						for _, cc := range x.Body.List {
							cl := cc.(*ast.CaseClause)
							if len(cl.List) == 1 && leaves(cl.Body) {
								add(cl.List[0], "case")
							} else if len(cl.List) == 1 && *stay {
								add(cl.List[0], "case-stay")
							}
						}
					}
				}
				return true
			})
		}
		return nil
	})
	json.NewEncoder(os.Stdout).Encode(out)
}
