// Command refactor applies mechanical, behaviour-preserving rewrites to a scratch copy of
// notation-go. It is used only to test the checker for false alarms (tools/benign_global.sh):
// a verdict must not depend on names of locals, parameters and unexported functions, nor on
// the order of declarations in a file.
//
//	refactor -dir <scratch worktree> -mode locals|funcs|reorder
package main

import (
	"bytes"
	"flag"
	"fmt"
	"go/ast"
	"go/token"
	"go/types"
	"os"
	"sort"
	"strings"

	"golang.org/x/tools/go/packages"
)

type edit struct {
	off, end int
	text     string
}

func main() {
	dir := flag.String("dir", "", "scratch tree")
	mode := flag.String("mode", "locals", "locals|funcs|types|globals|reorder|swapeq|lencmp|logparams|idxloop|negif")
	flag.Parse()
	cfg := &packages.Config{Mode: packages.LoadSyntax, Dir: *dir, Tests: false}
	pkgs, err := packages.Load(cfg, "./...")
	if err != nil {
		fmt.Fprintln(os.Stderr, err)
		os.Exit(2)
	}
	if packages.PrintErrors(pkgs) > 0 {
		os.Exit(2)
	}
	// interface method names of the module (methods with these names are never renamed)
	ifaceMethods := map[string]bool{}
	for _, p := range pkgs {
		sc := p.Types.Scope()
		for _, n := range sc.Names() {
			if tn, ok := sc.Lookup(n).(*types.TypeName); ok {
				if it, ok := tn.Type().Underlying().(*types.Interface); ok {
					for i := 0; i < it.NumMethods(); i++ {
						ifaceMethods[it.Method(i).Name()] = true
					}
				}
			}
		}
	}
	nfiles, nedits := 0, 0
	for _, p := range pkgs {
		if strings.Contains(p.PkgPath, "/internal/mock") || strings.Contains(p.PkgPath, "/testdata") {
			continue
		}
		implicit := map[types.Object]bool{}
		for _, o := range p.TypesInfo.Implicits {
			implicit[o] = true
		}
		for i, f := range p.Syntax {
			name := p.CompiledGoFiles[i]
			src, err := os.ReadFile(name)
			if err != nil {
				panic(err)
			}
			tf := p.Fset.File(f.Pos())
			var edits []edit
			switch *mode {
			case "locals", "funcs", "types", "globals":
				ast.Inspect(f, func(n ast.Node) bool {
					id, ok := n.(*ast.Ident)
					if !ok || id.Name == "_" {
						return true
					}
					obj := p.TypesInfo.Defs[id]
					if obj == nil {
						obj = p.TypesInfo.Uses[id]
					}
					if obj == nil || obj.Pkg() != p.Types || implicit[obj] {
						return true
					}
					suffix := ""
					switch o := obj.(type) {
					case *types.Var:
						if *mode == "locals" && !o.IsField() && o.Parent() != nil && o.Parent() != p.Types.Scope() && !o.Embedded() {
							suffix = "Q"
						}
						if *mode == "globals" && !o.IsField() && !o.Exported() && o.Parent() == p.Types.Scope() {
							suffix = "Gl"
						}
					case *types.TypeName:
						if *mode == "types" && !o.Exported() && o.Parent() == p.Types.Scope() {
							suffix = "Ty"
						}
					case *types.Const:
						if *mode == "globals" && !o.Exported() && o.Parent() == p.Types.Scope() {
							suffix = "Gl"
						}
					case *types.Func:
						if *mode == "funcs" && !o.Exported() && o.Name() != "init" && o.Name() != "main" {
							sig := o.Type().(*types.Signature)
							if sig.Recv() != nil && ifaceMethods[o.Name()] {
								return true
							}
							suffix = "Zz"
						}
					}
					if suffix != "" {
						off := tf.Offset(id.Pos())
						edits = append(edits, edit{off, off + len(id.Name), id.Name + suffix})
					}
					return true
				})
			case "swapeq":
				// a == b -> b == a (a != b likewise) when neither side is a constant, nil, or contains a call
				ast.Inspect(f, func(n ast.Node) bool {
					be, ok := n.(*ast.BinaryExpr)
					if !ok || (be.Op != token.EQL && be.Op != token.NEQ) {
						return true
					}
					simple := func(e ast.Expr) bool {
						if tv, ok := p.TypesInfo.Types[e]; ok && (tv.Value != nil || tv.IsNil()) {
							return false
						}
						okE := true
						ast.Inspect(e, func(m ast.Node) bool {
							switch m.(type) {
							case *ast.CallExpr, *ast.FuncLit, *ast.UnaryExpr, *ast.BinaryExpr:
								okE = false
							}
							return okE
						})
						return okE
					}
					if !simple(be.X) || !simple(be.Y) {
						return true
					}
					xo, xe := tf.Offset(be.X.Pos()), tf.Offset(be.X.End())
					yo, ye := tf.Offset(be.Y.Pos()), tf.Offset(be.Y.End())
					edits = append(edits, edit{xo, xe, string(src[yo:ye])}, edit{yo, ye, string(src[xo:xe])})
					return false
				})
			case "lencmp":
				// len(x) == 0 <-> len(x) < 1 ; len(x) != 0 -> len(x) > 0 ; len(x) > 0 -> len(x) != 0 ; len(x) < 1 -> len(x) == 0
				ast.Inspect(f, func(n ast.Node) bool {
					be, ok := n.(*ast.BinaryExpr)
					if !ok {
						return true
					}
					call, ok := be.X.(*ast.CallExpr)
					if !ok {
						return true
					}
					if id, ok := call.Fun.(*ast.Ident); !ok || id.Name != "len" {
						return true
					}
					lit, ok := be.Y.(*ast.BasicLit)
					if !ok {
						return true
					}
					var op, val string
					switch {
					case be.Op == token.EQL && lit.Value == "0":
						op, val = "<", "1"
					case be.Op == token.NEQ && lit.Value == "0":
						op, val = ">", "0"
					case be.Op == token.GTR && lit.Value == "0":
						op, val = "!=", "0"
					case be.Op == token.LSS && lit.Value == "1":
						op, val = "==", "0"
					default:
						return true
					}
					edits = append(edits, edit{tf.Offset(be.OpPos), tf.Offset(be.OpPos) + len(be.Op.String()), op}, edit{tf.Offset(lit.Pos()), tf.Offset(lit.End()), val})
					return true
				})
			case "logparams":
				// every function formats its parameters once (as a debug log would): `_ = fmt.Sprint(p1, p2, ...)`
				hasFmt := false
				for _, im := range f.Imports {
					if im.Path.Value == `"fmt"` && (im.Name == nil || im.Name.Name == "fmt") {
						hasFmt = true
					}
				}
				nIns := 0
				for _, d := range f.Decls {
					fd, ok := d.(*ast.FuncDecl)
					if !ok || fd.Body == nil {
						continue
					}
					var names []string
					collect := func(fl *ast.FieldList) {
						if fl == nil {
							return
						}
						for _, fld := range fl.List {
							for _, n := range fld.Names {
								if n.Name != "_" {
									names = append(names, n.Name)
								}
							}
						}
					}
					collect(fd.Recv)
					collect(fd.Type.Params)
					if len(names) == 0 {
						continue
					}
					off := tf.Offset(fd.Body.Lbrace) + 1
					edits = append(edits, edit{off, off, "\n\t_ = fmt.Sprint(" + strings.Join(names, ", ") + ")"})
					nIns++
				}
				if nIns > 0 && !hasFmt {
					off := tf.Offset(f.Name.End())
					edits = append(edits, edit{off, off, "\n\nimport \"fmt\"\n"})
				}
			case "idxloop":
				// for k, v := range xs {  ->  for k := 0; k < len(xs); k++ { v := xs[k]   (slices named by an identifier or selector)
				cnt := 0
				ast.Inspect(f, func(n ast.Node) bool {
					rs, ok := n.(*ast.RangeStmt)
					if !ok || rs.Tok != token.DEFINE {
						return true
					}
					tv, ok := p.TypesInfo.Types[rs.X]
					if !ok {
						return true
					}
					if _, isSlice := tv.Type.Underlying().(*types.Slice); !isSlice {
						return true
					}
					switch rs.X.(type) {
					case *ast.Ident, *ast.SelectorExpr:
					default:
						return true
					}
					// the value variable must not be redefined at the top level of the body (it would no longer shadow)
					if id, ok := rs.Value.(*ast.Ident); ok {
						for _, st := range rs.Body.List {
							if as, ok := st.(*ast.AssignStmt); ok && as.Tok == token.DEFINE {
								for _, l := range as.Lhs {
									if li, ok := l.(*ast.Ident); ok && li.Name == id.Name {
										return true
									}
								}
							}
						}
					}
					xsrc := string(src[tf.Offset(rs.X.Pos()):tf.Offset(rs.X.End())])
					key := ""
					if id, ok := rs.Key.(*ast.Ident); ok && id.Name != "_" {
						key = id.Name
					}
					if key == "" {
						cnt++
						key = fmt.Sprintf("idx%dQ", cnt)
					}
					hdr := "for " + key + " := 0; " + key + " < len(" + xsrc + "); " + key + "++ {"
					if id, ok := rs.Value.(*ast.Ident); ok && id.Name != "_" {
						hdr += "\n" + id.Name + " := " + xsrc + "[" + key + "]"
					}
					edits = append(edits, edit{tf.Offset(rs.For), tf.Offset(rs.Body.Lbrace) + 1, hdr})
					return true
				})
			case "negif":
				// if c { A } else { B }  ->  if !(c) { B } else { A }
				ast.Inspect(f, func(n ast.Node) bool {
					is, ok := n.(*ast.IfStmt)
					if !ok || is.Init != nil || is.Else == nil {
						return true
					}
					eb, ok := is.Else.(*ast.BlockStmt)
					if !ok {
						return true
					}
					co, ce := tf.Offset(is.Cond.Pos()), tf.Offset(is.Cond.End())
					bo, be := tf.Offset(is.Body.Lbrace), tf.Offset(is.Body.Rbrace)+1
					eo, ee := tf.Offset(eb.Lbrace), tf.Offset(eb.Rbrace)+1
					edits = append(edits, edit{co, ce, "!(" + string(src[co:ce]) + ")"}, edit{bo, be, string(src[eo:ee])}, edit{eo, ee, string(src[bo:be])})
					return false
				})
			case "reorder":
				var funcs []edit
				for _, d := range f.Decls {
					fd, ok := d.(*ast.FuncDecl)
					if !ok {
						continue
					}
					start := fd.Pos()
					if fd.Doc != nil {
						start = fd.Doc.Pos()
					}
					funcs = append(funcs, edit{tf.Offset(start), tf.Offset(fd.End()), ""})
				}
				if len(funcs) < 2 {
					continue
				}
				var tail bytes.Buffer
				for k := len(funcs) - 1; k >= 0; k-- {
					tail.WriteString("\n")
					tail.Write(src[funcs[k].off:funcs[k].end])
					tail.WriteString("\n")
				}
				for _, fe := range funcs {
					edits = append(edits, edit{fe.off, fe.end, ""})
				}
				edits = append(edits, edit{len(src), len(src), tail.String()})
			}
			if len(edits) == 0 {
				continue
			}
			// a type-switch guard `switch x := v.(type)` defines no object: its uses are implicit objects (skipped above)
			sort.Slice(edits, func(a, b int) bool { return edits[a].off < edits[b].off })
			var out bytes.Buffer
			last := 0
			for _, e := range edits {
				if e.off < last {
					continue
				}
				out.Write(src[last:e.off])
				out.WriteString(e.text)
				last = e.end
			}
			out.Write(src[last:])
			if err := os.WriteFile(name, out.Bytes(), 0644); err != nil {
				panic(err)
			}
			nfiles++
			nedits += len(edits)
		}
	}
	_ = token.NoPos
	fmt.Printf("refactor %s: %d files, %d edits\n", *mode, nfiles, nedits)
}
