package main

import (
	"fmt"
	"go/types"

	"golang.org/x/tools/go/ssa"
)

// A recorded failure is never erased (C02, and under C03 keys for the authenticity result; seed C03-7).
//
// Every rule about levels (C02) and about the trust-store check (C03) decides what is *recorded* in a validation result
// and what the level does with a recorded error. All of them are beside the point if a later statement overwrites the
// result: the seeded clean-up "one result per type, updated in place" (`*r = *result`) replaced the Authenticity result of
// the trust-store check by the plugin's verdict — a signature whose chain is in no listed store then passes authenticity
// whenever the plugin is content and the level does not stop at once (audit, or authenticity overridden to log).
//
// Rule (who-may-write, per store instruction of the product packages): a validation result that the function did not
// create itself (its address is not an allocation of this function: it came in as a parameter, out of the outcome's list,
// out of a call) is written only in ways that cannot remove a failure:
//   - a store into its Error field stores a value that is provably non-nil there (an error constructor, or behind the
//     `!= nil` edge of a test of that value);
//   - it is never overwritten as a whole (`*r = …`);
//   - an element of a list of results is never replaced, and the outcome's list of results is only ever extended
//     (`X.VerificationResults = append(X.VerificationResults, …)` of the same X) unless the outcome is this function's own.
//
// The converse (a fresh object's fields are written freely) is what construction looks like; what is then recorded about
// it is decided by the rules of C02.
func init() {
	alsoRun["C02"] = append(alsoRun["C02"], failureNeverErased)
	alsoRun["C03"] = append(alsoRun["C03"], failureNeverErased)
}

// ownAlloc: the object v points to (or lies in) was created by fn itself: an allocation of fn, or the result of a module
// constructor every Return of which hands back an allocation of its own.
func ownAlloc(w *World, v ssa.Value, fn *ssa.Function) bool {
	for i := 0; i < 6; i++ {
		switch x := v.(type) {
		case *ssa.Alloc:
			return x.Parent() == fn
		case *ssa.Call, *ssa.Extract:
			call, idx := callOf(v), 0
			if ex, isEx := v.(*ssa.Extract); isEx {
				idx = ex.Index
			}
			if call == nil {
				return false
			}
			g := staticCallee(call)
			if g == nil || g.Blocks == nil || !w.IsProductFn(g) {
				return false
			}
			nret := 0
			for _, gb := range g.Blocks {
				r, isRet := blockTerm(gb).(*ssa.Return)
				if !isRet {
					continue
				}
				nret++
				if idx >= len(r.Results) {
					return false
				}
				if al, isAl := r.Results[idx].(*ssa.Alloc); !isAl || al.Parent() != g {
					if isNilConst(r.Results[idx]) {
						continue
					}
					return false
				}
			}
			return nret > 0
		case *ssa.UnOp:
			o := loadOrigin(x)
			if o == ssa.Value(x) {
				return false
			}
			v = o
		case *ssa.FieldAddr:
			v = x.X
		case *ssa.ChangeType:
			v = x.X
		default:
			return false
		}
	}
	return false
}

func failureNeverErased(c *Ctx) {
	w := c.W
	rule := "a recorded failure is never erased: a validation result the function did not create is written only by a store of a provably non-nil error into its Error field, never overwritten as a whole, never replaced in the list, and the outcome's list of results is only ever extended"
	n := 0
	for _, fn := range w.Funcs {
		if !w.IsProductFn(fn) || fn.Blocks == nil {
			continue
		}
		fi := w.Info(fn)
		writes, firstBad, firstSite := 0, "", ""
		for _, b := range fn.Blocks {
			for _, in := range b.Instrs {
				st, ok := in.(*ssa.Store)
				if !ok {
					continue
				}
				kind, bad := "", ""
				switch a := st.Addr.(type) {
				case *ssa.FieldAddr:
					f := fieldName(a.X.Type(), a.Field)
					switch {
					case f == "Error" && namedOf(a.X.Type()) == "ngo.ValidationResult":
						kind = "error-field"
						if !ownAlloc(w, a.X, fn) && !fi.nonNil(st.Val, b) && !nonNilAtCallSites(w, fn, st.Val) {
							bad = "the Error of a validation result this function did not create is overwritten by " + desc(st.Val) + ", which may be nil: a failure recorded earlier is erased"
						}
					case f == "VerificationResults" && namedOf(a.X.Type()) == "ngo.VerificationOutcome":
						kind = "result-list"
						if !ownAlloc(w, a.X, fn) {
							okApp := false
							if call, isCall := st.Val.(*ssa.Call); isCall {
								if bi, isB := call.Call.Value.(*ssa.Builtin); isB && bi.Name() == "append" && len(call.Call.Args) > 0 {
									if ld, isLd := call.Call.Args[0].(*ssa.UnOp); isLd {
										if fa2, isFa := ld.X.(*ssa.FieldAddr); isFa && fa2.Field == a.Field && (fa2.X == a.X || desc(fa2.X) == desc(a.X)) {
											okApp = true
										}
									}
								}
							}
							if !okApp {
								bad = "the list of results of an outcome this function did not create is set to " + desc(st.Val) + " (not an append to that same list): results recorded earlier can be dropped"
							}
						}
					}
				case *ssa.IndexAddr:
					if namedOf(st.Val.Type()) == "ngo.ValidationResult" {
						if _, isPtr := st.Val.Type().(*types.Pointer); isPtr {
							kind = "list-element"
							if !ownAlloc(w, a.X, fn) {
								if _, fresh := a.X.(*ssa.MakeSlice); !fresh {
									bad = "an element of a list of validation results is replaced: the result recorded there is dropped"
								}
							}
						}
					}
				default:
					if pt, isPtr := st.Addr.Type().(*types.Pointer); isPtr && namedOf(pt.Elem()) == "ngo.ValidationResult" {
						if _, valIsPtr := st.Val.Type().(*types.Pointer); !valIsPtr {
							kind = "whole-result"
							if !ownAlloc(w, st.Addr, fn) {
								bad = "a validation result this function did not create is overwritten as a whole by " + desc(st.Val) + ": an error recorded in it is erased"
							}
						}
					}
				}
				if kind == "" {
					continue
				}
				n++
				writes++
				c.Evals++
				if firstSite == "" {
					firstSite = w.InstrPos(st)
				}
				if bad != "" && firstBad == "" {
					firstBad, firstSite = kind+": "+bad, w.InstrPos(st)
				}
			}
		}
		if writes > 0 {
			c.SeenFn(fn.String())
			c.Check(firstBad == "", "results/failure-never-erased/"+fnName(fn), rule, firstSite, firstBad)
		}
	}
	if n < 5 {
		c.Unk("results/failure-never-erased#count", "vacuity guard: the verifier writes validation results", "-", fmt.Sprintf("%d writes of validation results found", n))
	}
}

// nonNilAtCallSites: v is a parameter of fn, the list of fn's call sites is closed, and every one of them passes a value that
// is provably non-nil there (a helper `func fail(r *ValidationResult, err error) { r.Error = err }` called with errors only).
func nonNilAtCallSites(w *World, fn *ssa.Function, v ssa.Value) bool {
	p, ok := v.(*ssa.Parameter)
	if !ok || p.Parent() != fn {
		return false
	}
	i := c07ParamIndex(fn, p)
	sites, closed := c07CallSites(w, fn)
	if i < 0 || !closed || len(sites) == 0 {
		return false
	}
	for _, site := range sites {
		if i >= len(site.Call.Args) || !w.Info(site.Parent()).nonNil(site.Call.Args[i], site.Block()) {
			return false
		}
	}
	return true
}
