package main

import (
	"fmt"
	"regexp"

	"golang.org/x/tools/go/ssa"
)

// The requested expiry is applied whenever it is requested (C07; the clause DESIGN §8.9 had left open).
//
// payload/expiry decides the *value* that is stored into the request's expiry field and that the sum is stored only under
// the test `ExpiryDuration != 0`. It says nothing about the converse: `if opts.ExpiryDuration != 0 && <something else>`
// satisfies it, and a caller who asked for an expiry then gets a signature that never expires — which the library
// afterwards verifies and reports as signed "as requested".
//
// Rule (cut set, per request object X of the signer package whose expiry field F is written):
//
//	every path from the entry of the function to a hand-over of X (X passed to a call, returned, or stored away) passes
//	  (a) a store into X.F, or
//	  (b) the edge on which the requested duration is known to be zero (`EQ(D,0)`, D being the ExpiryDuration of the
//	      signing options: c07RequestedDuration);
//	and every origin of a stored value that is the zero value arrives only under (b).
//
// (a) is decided block-wise: a store that is executed before the hand-over on every path discharges at once (c07Before);
// otherwise the edges into the blocks of the stores are cut. The second part uses the origins walk of payload/expiry
// (phi edges, locals computed ahead of the request, module helpers), whose facts are those that hold whenever that origin
// is the value that arrives.
func init() {
	alsoRun["C07"] = append(alsoRun["C07"], c07ExpiryWhenever)
}

var reEqZero = regexp.MustCompile(`^EQ\((.*),const:0\)$`)

// c07ExpiryEvents lists, for the request object X (an SSA value of fn: the allocation, or a parameter bound to it), the
// instructions of fn that write its expiry field — stores, and calls of module helpers that are handed X and write the
// field on every path on which the duration is not zero (a "setter", decided by the same rule with its Returns as the
// hand-over) — and the hand-overs of X: X passed to anything else that is not a module function which merely reads it,
// returned, or stored away. bad is non-empty when something could not be decided.
func c07ExpiryEvents(w *World, fn *ssa.Function, X ssa.Value, field string, depth int) (writes, sinks []ssa.Instruction, bad string) {
	isX := func(v ssa.Value) bool { return v == X || loadOrigin(v) == X }
	for _, b := range fn.Blocks {
		for _, in := range b.Instrs {
			switch x := in.(type) {
			case ssa.CallInstruction:
				idx := -1
				for i, a := range x.Common().Args {
					if isX(a) {
						idx = i
						break
					}
				}
				if idx < 0 {
					continue
				}
				var g *ssa.Function
				if call, ok := in.(*ssa.Call); ok {
					g = staticCallee(call)
				}
				if g == nil || g.Blocks == nil || !w.IsProductFn(g) || depth >= 2 || g.Signature.Recv() != nil && idx == 0 && len(g.Params) == 0 {
					sinks = append(sinks, in)
					continue
				}
				if idx >= len(g.Params) {
					sinks = append(sinks, in)
					continue
				}
				gw, gs, gbad := c07ExpiryEvents(w, g, g.Params[idx], field, depth+1)
				switch {
				case gbad != "":
					bad = gbad
				case len(gs) > 0:
					sinks = append(sinks, in) // the helper hands the request on
				case len(gw) > 0:
					// a setter: it must write on every path to its Returns on which the duration is not zero
					var rets []ssa.Instruction
					for _, gb := range g.Blocks {
						if r, ok := blockTerm(gb).(*ssa.Return); ok {
							rets = append(rets, r)
						}
					}
					if why := c07ExpiryPaths(w, g, field, gw, rets); why != "" {
						bad = "in the helper " + fnName(g) + ": " + why
					} else {
						writes = append(writes, in)
					}
				}
			case *ssa.Return:
				for _, r := range x.Results {
					if isX(r) {
						sinks = append(sinks, in)
						break
					}
				}
			case *ssa.Store:
				if fa, ok := x.Addr.(*ssa.FieldAddr); ok && isX(fa.X) && fieldName(fa.X.Type(), fa.Field) == field {
					writes = append(writes, in)
					continue
				}
				if isX(x.Val) {
					if al, isAl := x.Addr.(*ssa.Alloc); isAl && onlyDirectStore(al) == x.Val {
						continue // the local that holds the request
					}
					sinks = append(sinks, in)
				}
			}
		}
	}
	return
}

// c07ZeroEdges: the edges of fn on which the requested duration is known to be zero.
func c07ZeroEdges(w *World, fn *ssa.Function) map[edgeKey]bool {
	cut := map[edgeKey]bool{}
	for _, b := range fn.Blocks {
		iff, ok := blockTerm(b).(*ssa.If)
		if !ok {
			continue
		}
		for j := 0; j < 2; j++ {
			m := reEqZero.FindStringSubmatch(condLabel(iff.Cond, j == 0))
			if m == nil {
				continue
			}
			if ok, _ := c07RequestedDuration(w, fn, m[1], true, 0); ok {
				cut[edgeKey{b.Index, j}] = true
			}
		}
	}
	return cut
}

// c07ExpiryPaths: "" when every path from fn's entry to one of the targets passes one of the writes or a zero-duration
// edge, and every zero value written arrives only under the zero-duration fact; otherwise what is wrong.
func c07ExpiryPaths(w *World, fn *ssa.Function, field string, writes, targets []ssa.Instruction) string {
	fi := w.Info(fn)
	cut := c07ZeroEdges(w, fn)
	for _, wr := range writes {
		st, ok := wr.(*ssa.Store)
		if !ok {
			continue
		}
		origins, complete := c07Origins(w, &c07Frame{Fn: fn}, st.Val, fi.GuardsOf(st))
		if !complete {
			return "value stored at " + w.InstrPos(st) + " too deep to follow"
		}
		for _, o := range origins {
			kst, isK := o.V.(*ssa.Const)
			if !isK || !(kst.Value == nil || desc(kst) == "const:0") {
				continue
			}
			under := false
			for l := range o.Guards {
				if m := reEqZero.FindStringSubmatch(l); m != nil {
					if ok, _ := c07RequestedDuration(w, fn, m[1], true, 0); ok {
						under = true
					}
				}
			}
			if !under {
				return "the zero value can be stored at " + w.InstrPos(st) + " without the requested duration being zero (facts: " + summarizeLabels(o.Guards, 4) + ")"
			}
		}
	}
	for _, t := range targets {
		done := false
		cut2 := map[edgeKey]bool{}
		for e := range cut {
			cut2[e] = true
		}
		for _, wr := range writes {
			if c07Before(wr, t) {
				done = true
				break
			}
			if wr.Block() == t.Block() {
				continue // the hand-over stands before the write in the same block
			}
			cutInto(fi, wr.Block(), cut2)
		}
		if done {
			continue
		}
		if t.Block().Index == 0 || fi.reachHit(entryState(), cut2, map[int]bool{t.Block().Index: true}) {
			return "the request reaches " + w.InstrPos(t) + " on a path that neither writes its " + field + " nor passes the edge on which the requested duration is zero: an expiry that was asked for is dropped"
		}
	}
	return ""
}

func c07ExpiryWhenever(c *Ctx) {
	w := c.W
	rule := "the requested expiry is applied whenever it is requested: every path to the hand-over of the request passes a write of its expiry field or the edge on which ExpiryDuration is zero, and a zero value is stored only on that edge"
	n := 0
	for _, fn := range w.FuncsOfPkg("signer") {
		if fn.Blocks == nil {
			continue
		}
		// the request objects made in fn whose type has the field
		for _, b := range fn.Blocks {
			for _, in := range b.Instrs {
				al, ok := in.(*ssa.Alloc)
				if !ok {
					continue
				}
				field := ""
				switch namedOf(al.Type()) {
				case "core/signature.SignRequest":
					field = "Expiry"
				case "pfw/plugin.GenerateEnvelopeRequest":
					field = "ExpiryDurationInSeconds"
				}
				if field == "" {
					continue
				}
				n++
				c.Evals++
				c.SeenFn(fn.String())
				key := fmt.Sprintf("payload/expiry-whenever-requested/%s/%s", fnName(fn), field)
				site := w.InstrPos(al)
				writes, sinks, bad := c07ExpiryEvents(w, fn, al, field, 0)
				switch {
				case bad != "":
					c.Check(false, key, rule, site, bad)
				case len(sinks) == 0:
					c.Unk(key, rule, site, "anchor: the request object is not handed to anything in "+fnName(fn))
				default:
					why := c07ExpiryPaths(w, fn, field, writes, sinks)
					c.Check(why == "", key, rule, site, why)
				}
			}
		}
	}
	if n < 2 {
		c.Unk("payload/expiry-whenever-requested#count", "vacuity guard: both signers build a request that has an expiry field", "-", fmt.Sprintf("%d request objects found in package signer", n))
	}
}
