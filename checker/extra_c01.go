package main

import (
	"fmt"
	"go/token"
	"go/types"
	"regexp"
	"sort"
	"strings"

	"golang.org/x/tools/go/ssa"
)

// C01's variant of the E1 summariser.
//
// The engine (gate.go) decides an exit that hands back the result of a module call by composing the callee's
// summary: "the exit is a success iff that call succeeded". That loses the exit when the callee does not decide
// anything itself but merely *forwards* a verdict it was handed:
//
//	func newResult(o *Outcome, t Type, err error) *Result { return &Result{Type: t, Action: …, Error: err} }   // constructor
//	failed := func(err error) (*Outcome, error) { outcome.Error = err; return outcome, err }                 // single failure exit
//
// Every result of the integrity step built by such a constructor looks "maybe successful" to the engine, so the
// err == nil edges of ParseEnvelope / Envelope.Verify stop being must-pass facts of the success exits. The variant
// below is the engine's algorithm with one more rule in the classification of an exit (c01Eng.classify):
//
//	if the verdict of the exit is the verdict of a call of a *verdict forwarder* g through parameter i,
//	the exit is classified by argument i of that call, evaluated at the call site.
//
// Soundness. g is a verdict forwarder for (mode, i) when on *every* return of g the operand that carries the verdict
// under that mode is (mErr) the SSA parameter i itself, or (mObj) a fresh object allocated in g whose only error
// field is written exactly once, with parameter i, by a store that dominates the return, and that is not handed to
// anybody else before it is returned (or, recursively, the result of a forwarder applied to parameter i). SSA
// parameters are immutable and g is the static callee (no dynamic dispatch, no recover block), so for every
// terminating execution "the call of g succeeded under mode" is the same proposition as "argument i == nil". The
// rule therefore substitutes equals for equals; it adds no success exit and removes one only where argument i is
// provably non-nil at the call (the engine's own nonNil: constructor of a non-nil value, or dominated by a test).
//
// The one-directional half of the rule (refutedByArg) covers callees that decide more than they forward.
//
// Only classify, and the functions that reach it (Summarize, summarizeFrom, composeCond, summarizeCall,
// successWitness, tailBlockedByCell), are re-stated here; reachability, masks, phi tracking, labels are the engine's.
// Two deliberate differences from the engine's text: summarizeFrom attaches the facts of a forwarded call to an exit
// only if every success-capable state of that exit forwards that same call (stricter), and successWitness does not
// count an exit that summarizeFrom would not count either (tailBlockedByCell: the callee reports the error cell of an
// object that already carries a failure on this path — the engine's own argument, applied in both places). The proper
// place of the rule is (*FnInfo).classify in gate.go; it lives here because the engine files are not this rule set's
// to change.

type c01Eng struct {
	w    *World
	memo map[sumKey]*Summary
	busy map[sumKey]bool
	fwd  map[sumKey]int // forwarded parameter index; -1: none; -2: being computed
	// hash→digest tables (functions), see algTable
	tables     map[*ssa.Function]*c01AlgTable
	tablesBusy map[*ssa.Function]bool
	// calls of tuple-returning module helpers, per function (see "a pipeline helper that hands back several results")
	resCalls map[*ssa.Function][]*c01ResCall
}

var c01Engines = map[*World]*c01Eng{}

func c01Engine(w *World) *c01Eng {
	if e, ok := c01Engines[w]; ok {
		return e
	}
	e := &c01Eng{w: w, memo: map[sumKey]*Summary{}, busy: map[sumKey]bool{}, fwd: map[sumKey]int{},
		tables: map[*ssa.Function]*c01AlgTable{}, tablesBusy: map[*ssa.Function]bool{}}
	c01Engines[w] = e
	return e
}

// ---- verdict forwarders -------------------------------------------------------

// forwards returns the index of the parameter of g whose nil-ness is the verdict of g under mode on every
// return, or -1.
func (e *c01Eng) forwards(g *ssa.Function, mode Mode) int {
	if g == nil || g.Blocks == nil || !e.w.IsProductFn(g) || g.Recover != nil {
		return -1
	}
	if mode.Kind != mErr && mode.Kind != mObj {
		return -1
	}
	k := sumKey{g, mode}
	if i, ok := e.fwd[k]; ok {
		if i == -2 {
			return -1 // recursion: not a forwarder
		}
		return i
	}
	e.fwd[k] = -2
	idx, n := -1, 0
	for _, b := range g.Blocks {
		r, ok := blockTerm(b).(*ssa.Return)
		if !ok {
			continue
		}
		i := e.forwardedBy(g, r, modeOperand(r, mode), mode)
		if i < 0 || (n > 0 && i != idx) {
			idx = -1
			n = -1
			break
		}
		idx = i
		n++
	}
	if n <= 0 {
		idx = -1
	}
	e.fwd[k] = idx
	return idx
}

func paramIndex(g *ssa.Function, v ssa.Value) int {
	p, ok := v.(*ssa.Parameter)
	if !ok || !isErrorType(p.Type()) {
		return -1
	}
	for i, q := range g.Params {
		if q == p {
			return i
		}
	}
	return -1
}

// forwardedBy: the verdict operand v of return r of g is decided by parameter i of g.
func (e *c01Eng) forwardedBy(g *ssa.Function, r *ssa.Return, v ssa.Value, mode Mode) int {
	if v == nil {
		return -1
	}
	// the result of another forwarder applied to one of g's parameters
	if c := callOf(v); c != nil {
		cm := Mode{Kind: mErr}
		if mode.Kind == mObj {
			cm = Mode{Kind: mObj}
			if x, ok := v.(*ssa.Extract); ok {
				cm.K = x.Index
			}
		} else if !isErrorType(v.Type()) {
			return -1
		}
		if j := e.forwardedParam(c, cm); j >= 0 {
			return paramIndex(g, c.Call.Args[j])
		}
		return -1
	}
	switch mode.Kind {
	case mErr:
		return paramIndex(g, v)
	case mObj:
		a, ok := v.(*ssa.Alloc)
		if !ok {
			return -1
		}
		ef := errFieldOf(a.Type())
		if ef < 0 || a.Referrers() == nil || blockReaches(a.Block(), a.Block()) {
			return -1 // (an allocation inside a loop: the store seen might belong to an earlier object)
		}
		var st *ssa.Store
		for _, ref := range *a.Referrers() {
			switch x := ref.(type) {
			case *ssa.Return, *ssa.DebugRef:
			case *ssa.FieldAddr:
				if x.Referrers() == nil {
					continue
				}
				for _, u := range *x.Referrers() {
					switch y := u.(type) {
					case *ssa.Store:
						if y.Addr != ssa.Value(x) {
							return -1 // the address of a field is stored somewhere
						}
						if x.Field == ef {
							if st != nil {
								return -1
							}
							st = y
						}
					case *ssa.UnOp, *ssa.DebugRef:
					default:
						return -1 // field address escapes
					}
				}
			default:
				return -1 // the object is handed to somebody before it is returned
			}
		}
		if st == nil || !st.Block().Dominates(r.Block()) {
			return -1
		}
		return paramIndex(g, st.Val)
	}
	return -1
}

// forwardedParam: the call's verdict under mode is the nil-ness of its argument i (-1: not a forwarder call).
func (e *c01Eng) forwardedParam(c *ssa.Call, mode Mode) int {
	if c == nil || c.Call.IsInvoke() {
		return -1
	}
	g := staticCallee(c)
	if g == nil || len(c.Call.Args) != len(g.Params) {
		return -1
	}
	return e.forwards(g, mode)
}

// blockReaches: some path of at least one edge leads from block a to block b.
func blockReaches(a, b *ssa.BasicBlock) bool {
	seen := map[*ssa.BasicBlock]bool{}
	stack := append([]*ssa.BasicBlock{}, a.Succs...)
	for len(stack) > 0 {
		x := stack[len(stack)-1]
		stack = stack[:len(stack)-1]
		if x == b {
			return true
		}
		if seen[x] {
			continue
		}
		seen[x] = true
		stack = append(stack, x.Succs...)
	}
	return false
}

// classify is (*FnInfo).classify plus the forwarder rule.
func (e *c01Eng) classify(fi *FnInfo, r *ssa.Return, st state, mode Mode) (int, *ssa.Call, Mode, string) {
	if mode.Kind == c01mCell {
		// the answer is the error cell of the object handed in as parameter K: the return is a failure exit exactly when
		// the function is known to have left a non-nil value there (the engine's mask); anything else may pass
		if ci := c01ModeCell(fi, mode); ci >= 0 && !fi.volatile[ci] && st.m&(1<<uint(ci)) != 0 {
			return clFail, nil, Mode{}, ""
		}
		return clMaybe, nil, Mode{}, ""
	}
	cl, tail, tmode, lbl := fi.classify(r, st, mode)
	for depth := 0; cl == clMaybe && tail != nil && depth < 4; depth++ {
		i := e.forwardedParam(tail, tmode)
		if i < 0 {
			if e.refutedByArg(fi, tail, tmode, st) {
				return clFail, nil, Mode{}, ""
			}
			break
		}
		arg := tail.Call.Args[i]
		at := tail.Block()
		if isNilConst(arg) {
			return clSuccess, nil, Mode{}, ""
		}
		if fi.nonNil(arg, at) {
			return clFail, nil, Mode{}, ""
		}
		if p, ok := arg.(*ssa.Phi); ok {
			fi.trackPhis()
			// what the mask knows about the phi is what the call saw, unless the phi can be re-evaluated after the call
			if idx, tracked := fi.phiIdx[p]; tracked && !isBoolType(p.Type()) && !blockReaches(at, p.Block()) {
				switch (st.m >> uint(32+2*idx)) & 3 {
				case 1:
					return clSuccess, nil, Mode{}, ""
				case 2:
					return clFail, nil, Mode{}, ""
				}
			}
			return clMaybe, nil, Mode{}, ""
		}
		if c := callOf(arg); c != nil && isErrorType(arg.Type()) {
			tail, tmode = c, Mode{Kind: mErr} // the argument is the error of another call: that call decides
			continue
		}
		return clMaybe, nil, Mode{}, ""
	}
	return cl, tail, tmode, lbl
}

// refutedByArg: the call cannot have succeeded under mode, because every success-capable exit of the callee lies behind
// the edge `parameter i == nil` and argument i is provably non-nil at the call.
//
// This is the one-directional half of the forwarder rule, for callees that decide more than they forward — a constructor
// that writes the error field only `if err != nil`, an error wrapper `if err == nil { return nil }; return fmt.Errorf(…, err)`.
// Soundness: "g succeeded ⇒ parameter i == nil" is a must-pass fact of g's summary (the label names the SSA parameter
// itself: a reassigned or address-taken parameter is rendered differently); its contrapositive with "argument i != nil"
// gives "g failed". Nothing is concluded when the argument may be nil: the exit stays composed with g's summary.
func (e *c01Eng) refutedByArg(fi *FnInfo, c *ssa.Call, mode Mode, st state) bool {
	if c == nil || c.Call.IsInvoke() || (mode.Kind != mErr && mode.Kind != mObj) {
		return false
	}
	g := staticCallee(c)
	if g == nil || g.Blocks == nil || !e.w.IsProductFn(g) || len(c.Call.Args) != len(g.Params) {
		return false
	}
	s := e.Summarize(g, mode)
	if s == nil || !s.Complete || len(s.Exits) == 0 {
		return false
	}
	for i, p := range g.Params {
		if !isErrorType(p.Type()) || p.Name() == "" || p.Name() == "_" {
			continue
		}
		if _, ok := s.Checked["EQ(param:"+p.Name()+",nil)"]; !ok {
			continue
		}
		arg := c.Call.Args[i]
		if fi.nonNil(arg, c.Block()) {
			return true
		}
		if ph, ok := arg.(*ssa.Phi); ok {
			fi.trackPhis()
			if idx, tracked := fi.phiIdx[ph]; tracked && !isBoolType(ph.Type()) && !blockReaches(c.Block(), ph.Block()) && (st.m>>uint(32+2*idx))&3 == 2 {
				return true
			}
		}
	}
	return false
}

// ---- the engine's composition, routed through classify above -------------------------

func (e *c01Eng) Summarize(fn *ssa.Function, mode Mode) *Summary {
	k := sumKey{fn, mode}
	if s, ok := e.memo[k]; ok {
		return s
	}
	if e.busy[k] {
		return &Summary{Fn: fn, Mode: mode, Checked: map[string]string{}, Complete: false}
	}
	e.busy[k] = true
	defer delete(e.busy, k)
	s := e.summarizeFrom(e.w.Info(fn), mode, entryState(), nil)
	if s.Complete {
		e.memo[k] = s
	}
	return s
}

func (e *c01Eng) callFrame(c *ssa.Call) (g *ssa.Function, names, descs []string, ok bool) {
	g = staticCallee(c)
	if g == nil || g.Blocks == nil || !e.w.IsProductFn(g) {
		return nil, nil, nil, false
	}
	args := c.Call.Args
	if len(args) != len(g.Params) {
		return g, nil, nil, true
	}
	for i, p := range g.Params {
		names = append(names, p.Name())
		descs = append(descs, desc(args[i]))
	}
	return g, names, descs, true
}

func (e *c01Eng) summarizeCall(c *ssa.Call, mode Mode) *Summary {
	g, names, descs, ok := e.callFrame(c)
	if !ok {
		return nil
	}
	s := e.Summarize(g, mode)
	if s == nil || names == nil {
		return s
	}
	out := &Summary{Fn: s.Fn, Mode: s.Mode, Exits: s.Exits, Complete: s.Complete, States: s.States, Checked: map[string]string{}}
	for l, site := range s.Checked {
		out.Checked[substParams(l, names, descs)] = site
	}
	return out
}

func (e *c01Eng) composeCond(fi *FnInfo, cond ssa.Value, truth bool) *Summary {
	if c, m := condCall(cond, truth); c != nil {
		return e.summarizeCall(c, m)
	}
	return nil
}

// condCall: cond evaluating to truth says that call c succeeded under the returned mode (the cases of the engine's
// composeCond: `call() == nil`, `call().Error == nil`, a boolean call).
func condCall(cond ssa.Value, truth bool) (*ssa.Call, Mode) {
	switch x := cond.(type) {
	case *ssa.UnOp:
		if x.Op == token.NOT {
			return condCall(x.X, !truth)
		}
	case *ssa.BinOp:
		var o ssa.Value
		if isNilConst(x.Y) {
			o = x.X
		} else if isNilConst(x.X) {
			o = x.Y
		} else {
			return nil, Mode{}
		}
		isNil := (x.Op == token.EQL && truth) || (x.Op == token.NEQ && !truth)
		if !isNil || !isErrorType(o.Type()) {
			return nil, Mode{}
		}
		if c := callOf(o); c != nil {
			return c, Mode{Kind: mErr}
		}
		if u, ok := o.(*ssa.UnOp); ok && u.Op == token.MUL {
			if fa, ok := u.X.(*ssa.FieldAddr); ok {
				if c := callOf(fa.X); c != nil {
					k := 0
					if ex, ok := fa.X.(*ssa.Extract); ok {
						k = ex.Index
					}
					return c, Mode{Kind: mObj, K: k}
				}
			}
		}
	case *ssa.Call:
		if b, ok := x.Type().Underlying().(*types.Basic); ok && b.Kind() == types.Bool {
			return x, Mode{Kind: mBool, Want: truth}
		}
	}
	return nil, Mode{}
}

func (e *c01Eng) tailBlockedByCell(fi *FnInfo, tail *ssa.Call, tmode Mode, mask uint64) bool {
	g := staticCallee(tail)
	if g == nil || g.Blocks == nil || !e.w.IsProductFn(g) {
		return false
	}
	s := e.Summarize(g, tmode)
	if s == nil || !s.Complete || len(s.Exits) == 0 {
		return false
	}
	for _, ex := range s.Exits {
		if ex.InheritParam < 0 || ex.InheritParam >= len(tail.Call.Args) {
			return false
		}
		obj := unwrap(tail.Call.Args[ex.InheritParam])
		ci, ok := fi.cellOf[cellKey{obj, ex.InheritField}]
		if !ok || mask&(1<<uint(ci)) == 0 {
			return false
		}
	}
	return true
}

// summarizeFrom is (*FnInfo).summarizeFrom with classify / composeCond / summarizeCall of this variant.
func (e *c01Eng) summarizeFrom(fi *FnInfo, mode Mode, starts []state, baseCut map[edgeKey]bool) *Summary {
	w := e.w
	s := &Summary{Fn: fi.Fn, Mode: mode, Checked: map[string]string{}, Complete: true}
	if len(fi.Fn.Blocks) == 0 {
		return s
	}
	base := fi.reach(starts, baseCut)
	s.States = len(base)
	type exitKey struct {
		r *ssa.Return
		p int
	}
	exits := map[exitKey]*ExitSum{}
	var order []exitKey
	tails := map[exitKey]*ssa.Call{}
	tailModes := map[exitKey]Mode{}
	noTail := map[exitKey]bool{}
	opLabels := map[exitKey]string{}
	succStates := map[exitKey][]state{}
	for st := range base {
		r, ok := blockTerm(fi.Fn.Blocks[st.b]).(*ssa.Return)
		if !ok {
			continue
		}
		endMask := fi.through(fi.Fn.Blocks[st.b], st.m)
		cl, tail, tmode, oplbl := e.classify(fi, r, state{st.b, endMask, st.p}, mode)
		if cl == clFail {
			continue
		}
		if tail != nil && e.tailBlockedByCell(fi, tail, tmode, endMask) {
			continue
		}
		if failsOnEveryEdge(r, mode, baseCut) {
			continue
		}
		ek := exitKey{r, st.p}
		if _, ok := exits[ek]; !ok {
			ip, ifld := fi.inheritedCell(r, st.p, mode)
			exits[ek] = &ExitSum{Ret: r, Pred: st.p, Class: cl, Checked: map[string]string{}, InheritParam: ip, InheritField: ifld}
			order = append(order, ek)
		}
		if tail != nil {
			if t0, seen := tails[ek]; seen && t0 != tail {
				noTail[ek] = true
			}
			tails[ek] = tail
			tailModes[ek] = tmode
		} else {
			// (stricter than the engine) the exit is reached in several mask states: when one of them succeeds without
			// a deciding call, the facts of the call reached in another state are not facts of the exit
			noTail[ek] = true
		}
		if oplbl != "" {
			opLabels[ek] = oplbl
		}
		succStates[ek] = append(succStates[ek], st)
	}
	sort.Slice(order, func(i, j int) bool {
		a, b := order[i], order[j]
		if a.r.Block().Index != b.r.Block().Index {
			return a.r.Block().Index < b.r.Block().Index
		}
		return a.p < b.p
	})
	for _, b := range fi.Fn.Blocks {
		iff, ok := blockTerm(b).(*ssa.If)
		if !ok || len(b.Succs) != 2 {
			continue
		}
		reachable := false
		for st := range base {
			if st.b == b.Index {
				reachable = true
				break
			}
		}
		if !reachable {
			continue
		}
		for j := 0; j < 2; j++ {
			if baseCut[edgeKey{b.Index, j}] {
				continue
			}
			cut := map[edgeKey]bool{{b.Index, j}: true}
			for k := range baseCut {
				cut[k] = true
			}
			r := fi.reach(starts, cut)
			truth := j == 0
			var lbl string
			var comp *Summary
			computed := false
			for _, ek := range order {
				still := false
				for _, st := range succStates[ek] {
					if r[st] {
						still = true
						break
					}
				}
				if still {
					continue
				}
				if !computed {
					lbl = condLabel(iff.Cond, truth)
					comp = e.composeCond(fi, iff.Cond, truth)
					computed = true
				}
				site := w.InstrPos(iff)
				if site == "-" {
					site = w.FnPos(fi.Fn)
				}
				ex := exits[ek]
				ex.Checked[lbl] = site
				if tw, ok := labelTwin(lbl); ok {
					ex.Checked[tw] = site
				}
				if comp != nil {
					if !comp.Complete {
						s.Complete = false
					}
					for l, st := range comp.Checked {
						if _, ok := ex.Checked[l]; !ok {
							ex.Checked[l] = st
						}
					}
				}
			}
		}
	}
	for _, ek := range order {
		ex := exits[ek]
		if l := opLabels[ek]; l != "" {
			ex.Checked[l] = w.InstrPos(ek.r)
		}
		if t := tails[ek]; t != nil && !noTail[ek] {
			ex.Tail = calleeName(t)
			if ts := e.summarizeCall(t, tailModes[ek]); ts != nil {
				if !ts.Complete {
					s.Complete = false
				}
				for l, st := range ts.Checked {
					if _, ok := ex.Checked[l]; !ok {
						ex.Checked[l] = st
					}
				}
			}
			if tailModes[ek].Kind == mErr {
				ex.Checked["EQ("+descTailErr(t)+",nil)"] = w.InstrPos(t)
			}
		}
		e.refineByResults(fi, ex)
		s.Exits = append(s.Exits, ex)
	}
	first := true
	for _, ex := range s.Exits {
		if first {
			for l, st := range ex.Checked {
				s.Checked[l] = st
			}
			first = false
			continue
		}
		for l := range s.Checked {
			if _, ok := ex.Checked[l]; !ok {
				delete(s.Checked, l)
			}
		}
	}
	return s
}

// failsOnEveryEdge: the returning block hands back an error value v (not a phi of that block) and every edge into the
// block that is not cut is the `v != nil` edge of a test of that very value. The engine knows an error to be non-nil
// when the return is *dominated* by such a test; in
//
//	if err != nil || payload == nil { return outcome, err }
//
// the return is shared by two edges, and once the `payload == nil` edge is out of consideration (cut: it is the skip
// edge, or the edge on which the fact under analysis holds) only the `err != nil` edge leads to it. SSA values are
// immutable, so on every path that is considered the returned error is not nil: the exit is a failure exit.
func failsOnEveryEdge(r *ssa.Return, mode Mode, cut map[edgeKey]bool) bool {
	if mode.Kind != mErr {
		return false
	}
	v := modeOperand(r, mode)
	if v == nil {
		return false
	}
	b := r.Block()
	if p, ok := v.(*ssa.Phi); ok && p.Block() == b {
		return false
	}
	n := 0
	for _, p := range b.Preds {
		iff, isIf := blockTerm(p).(*ssa.If)
		for j, s := range p.Succs {
			if s != b || cut[edgeKey{p.Index, j}] {
				continue
			}
			if !isIf || len(p.Succs) != 2 || p.Succs[0] == p.Succs[1] || !condSaysNonNil(iff.Cond, j == 0, v) {
				return false
			}
			n++
		}
	}
	return n > 0
}

// condSaysNonNil: cond evaluating to truth says v != nil.
func condSaysNonNil(cond ssa.Value, truth bool, v ssa.Value) bool {
	switch x := cond.(type) {
	case *ssa.UnOp:
		if x.Op == token.NOT {
			return condSaysNonNil(x.X, !truth, v)
		}
	case *ssa.BinOp:
		if !(x.X == v && isNilConst(x.Y)) && !(x.Y == v && isNilConst(x.X)) {
			return false
		}
		return (x.Op == token.NEQ && truth) || (x.Op == token.EQL && !truth)
	}
	return false
}

// c01Wit: what successWitness does not count as a success exit.
type c01Wit struct {
	// DischargedTail: the exit forwards the verdict of this call, and the callee discharges the obligation under analysis
	DischargedTail func(tail *ssa.Call, tmode Mode) bool
	// DischargedOp: the exit returns a condition whose label (the fact that holds when it has the wanted value) is the fact required
	DischargedOp func(label string) bool
	// CellCalls: calls that report through the error cell (index into fi.cells) of an object they are handed, and whose
	// passing answer — the cell left nil — discharges the obligation under analysis (see "a step that reports through
	// the outcome it is handed")
	CellCalls map[*ssa.Call]int
}

// successWitness is (*FnInfo).successWitness with classify of this variant.
func (e *c01Eng) successWitness(fi *FnInfo, mode Mode, starts []state, cut map[edgeKey]bool, opt c01Wit) []string {
	type fstate struct {
		s state
		f uint32 // cells vouched for by a discharging call since they were last written (c01Wit.CellCalls)
	}
	type node struct {
		s      state
		f      uint32
		parent int
	}
	var nodes []node
	seen := map[fstate]bool{}
	for _, s := range starts {
		if !seen[fstate{s, 0}] {
			seen[fstate{s, 0}] = true
			nodes = append(nodes, node{s, 0, -1})
		}
	}
	for i := 0; i < len(nodes); i++ {
		s := nodes[i].s
		b := fi.Fn.Blocks[s.b]
		flags := nodes[i].f
		if len(opt.CellCalls) > 0 {
			flags = c01VouchedThrough(fi, b, flags, opt.CellCalls)
		}
		if r, ok := blockTerm(b).(*ssa.Return); ok {
			endMask := fi.through(b, s.m)
			cl, tail, tmode, oplbl := e.classify(fi, r, state{s.b, endMask, s.p}, mode)
			if cl != clFail && flags != 0 {
				if ci := c01VerdictCell(fi, r, s.p, mode); ci >= 0 && flags&(1<<uint(ci)) != 0 {
					cl = clFail // the verdict is a cell that a discharging call vouches for: nil only if that call passed
				}
			}
			if cl != clFail && tail != nil && e.tailBlockedByCell(fi, tail, tmode, endMask) {
				cl = clFail // as in summarizeFrom: the callee reports the error cell of an object that already carries a failure here
			}
			if cl != clFail && tail != nil && opt.DischargedTail != nil && opt.DischargedTail(tail, tmode) {
				cl = clFail
			}
			if cl != clFail && failsOnEveryEdge(r, mode, cut) {
				cl = clFail
			}
			if cl == clMaybe && tail == nil && oplbl != "" && opt.DischargedOp != nil && opt.DischargedOp(oplbl) {
				cl = clFail
			}
			if cl != clFail {
				var path []string
				for k := i; k >= 0; k = nodes[k].parent {
					bb := fi.Fn.Blocks[nodes[k].s.b]
					path = append(path, fmt.Sprintf("b%d %s", bb.Index, fi.blockPos(bb)))
				}
				for l, r := 0, len(path)-1; l < r; l, r = l+1, r-1 {
					path[l], path[r] = path[r], path[l]
				}
				return path
			}
		}
		outs := fi.transfer(b, s.m)
		for j, t := range b.Succs {
			if cut[edgeKey{s.b, j}] || outs[j] == infeasibleMask {
				continue
			}
			p := -1
			if fi.phiRet[t] {
				for pi, pb := range t.Preds {
					if pb == b {
						p = pi
						break
					}
				}
			}
			n := state{t.Index, outs[j], p}
			if !seen[fstate{n, flags}] {
				seen[fstate{n, flags}] = true
				nodes = append(nodes, node{n, flags, i})
			}
		}
	}
	return nil
}

// ---- frames ----------------------------------------------------------------------------

// c01Frame rewrites a description or label of a callee's frame into the entry point's frame: every parameter is
// replaced by the (already rewritten) argument of the call. Descriptions identify a local object by type and syntax
// only ("alloc:T<complit>"), so an object a helper allocates itself would read like the entry point's object of the
// same type; the rewriting therefore marks the allocations of each callee frame with a tag of that frame before it
// substitutes the parameters. A fact about a helper's own look-alike object thus never matches a fact required of
// the entry point's object, while an object that was handed down as an argument keeps the caller's description.
type c01Frame struct {
	names, descs []string
	tag          string // "" for the entry point
	// canon (entry point only): descriptions of the results of a pipeline helper restated as the objects they denote
	canon func(string) string
}

var c01FrameCount = 0

func c01CalleeFrame(names, descs []string) c01Frame {
	c01FrameCount++
	return c01Frame{names: names, descs: descs, tag: fmt.Sprintf("#%d", c01FrameCount)}
}

func (f c01Frame) sub(l string) string {
	if f.canon != nil {
		l = f.canon(l)
	}
	if f.tag != "" {
		l = strings.ReplaceAll(l, "alloc:", "alloc"+f.tag+":")
	}
	if f.names == nil {
		return l
	}
	return substParams(l, f.names, f.descs)
}

// ---- a disjunctive fact decided anywhere on the call tree -----------------------------

// gateHolds decides, for fn under mode with the edges of baseCut removed: every success-capable exit is reachable
// only through an edge on which `fact` holds, where a fact may be (a) the label of a branch edge of fn, rewritten
// into the entry point's frame (fr; the zero frame for the entry point itself), (b) the condition an exit returns
// as its (boolean) answer, or (c) the passing answer of a module callee — as a branch condition or as the verdict
// the exit forwards — for which the same holds recursively. It is the cut argument of the engine ("remove the edges
// on which the fact holds; no success exit may remain reachable") applied across helper boundaries, so it does
// not matter whether the comparison is written inline, kept in a boolean helper that has one exit per alternative,
// or returned as the value of a short-circuit expression.
//
// Soundness of (c): the edge `g(args) passed` is taken only when g returned its passing answer; if every passing
// exit of g lies behind a fact edge (with g's parameters replaced by the arguments, the fact is about the caller's
// values), then the fact held when the caller took that edge. nFact counts the fact edges found (vacuity).
//
// onFrame (optional) is told every frame that is entered before its edges are matched, so that the fact can take into
// account what that frame establishes itself (c01DecodedHere: the payload a helper decodes from the verified content).
func (e *c01Eng) gateHolds(fn *ssa.Function, mode Mode, fr c01Frame, baseCut map[edgeKey]bool, fact func(string) bool, depth int, nFact *int, onFrame func(*FnInfo, Mode, c01Frame, map[edgeKey]bool)) (bool, []string) {
	fi := e.w.Info(fn)
	sub := fr.sub
	if onFrame != nil {
		onFrame(fi, mode, fr, baseCut)
	}
	cut := map[edgeKey]bool{}
	for k := range baseCut {
		cut[k] = true
	}
	for k := range fi.edgesMatching(func(l string, _ *ssa.If, _ bool) bool { return fact(sub(l)) }) {
		cut[k] = true
		*nFact++
	}
	calleeHolds := func(c *ssa.Call, m Mode) bool {
		if depth >= 3 {
			return false
		}
		g, gn, gd, ok := e.callFrame(c)
		if !ok || gn == nil || g == fn {
			return false
		}
		for i := range gd {
			gd[i] = sub(gd[i])
		}
		n := 0
		holds, _ := e.gateHolds(g, m, c01CalleeFrame(gn, gd), nil, fact, depth+1, &n, onFrame)
		*nFact += n
		return holds && n > 0
	}
	for _, b := range fn.Blocks {
		iff, ok := blockTerm(b).(*ssa.If)
		if !ok || len(b.Succs) != 2 {
			continue
		}
		for j := 0; j < 2; j++ {
			if cut[edgeKey{b.Index, j}] {
				continue
			}
			if c, m := condCall(iff.Cond, j == 0); c != nil && calleeHolds(c, m) {
				cut[edgeKey{b.Index, j}] = true
			}
		}
	}
	wit := e.successWitness(fi, mode, entryState(), cut, c01Wit{
		DischargedTail: calleeHolds,
		DischargedOp: func(l string) bool {
			if fact(sub(l)) {
				*nFact++ // the fact is the very condition the exit returns
				return true
			}
			return false
		},
	})
	return wit == nil, wit
}

// ---- required user metadata, decided in the entry point's frame -----------------------

// c01Meta decides the metadata obligation of one entry point. Everything it compares is a description in the ENTRY
// POINT's frame: while it descends into module callees it rewrites their labels by replacing each parameter with the
// (already rewritten) argument of the call, exactly as the engine does for composed summaries. What a helper is handed
// therefore does not matter — the decoded payload, its target descriptor, the annotations map itself, the whole
// outcome (decoded again by the helper), the options struct instead of the map: the helper's loop is accepted when,
// seen from the entry point, it ranges over the caller's required-metadata map and looks every key up in the
// annotations of the payload that was decoded from the verified envelope content.
type c01Meta struct {
	c         *Ctx
	e         *c01Eng
	pre       string
	metaE     string // the caller's required metadata: <opts>.UserMetadata
	annE      string // the signed annotations: <decoded payload>.TargetArtifact.Annotations
	contentE  string // the verified payload bytes: <outcome>.EnvelopeContent.Payload.Content
	memo      map[string]bool
	verifiers []string
}

// c01Metadata: required user metadata. Recursive path obligation: on every non-skip success path of fn, either the
// required-metadata map is empty, or a metadata verifier M (a function whose loop over that map passes the per-entry
// gates against the signed payload's annotations) gave its passing answer, or a module callee satisfies the same
// obligation.
func c01Metadata(c *Ctx, fn *ssa.Function, payloadAlloc, outcomeDesc, pre string) {
	w := c.W
	rule := "path obligation (recursive through module calls): on every non-skip success path the required-metadata check over the signed payload's annotations returned its passing answer, bypassable only by len(UserMetadata) == 0"
	m := &c01Meta{c: c, e: c01Engine(w), pre: pre, memo: map[string]bool{},
		metaE:    paramWhere(fn, hasField("UserMetadata")) + ".UserMetadata",
		annE:     payloadAlloc + ".TargetArtifact.Annotations",
		contentE: outcomeDesc + ".EnvelopeContent.Payload.Content",
	}
	ok, wit, site := m.holds(fn, Mode{Kind: mErr}, c01Frame{canon: m.e.canon(fn)}, []string{m.annE}, true, 0)
	c.Evals++
	if ok {
		c.OK(pre+"/metadata-gate", rule, site)
	} else {
		c.Bad(pre+"/metadata-gate", rule, site, "a non-skip success exit is reachable although the metadata check failed or was not made on that path (e.g. its result is stored unconditionally and overwrites an earlier failure, or an early return bypasses it)", wit...)
	}
	if len(m.verifiers) == 0 {
		c.Bad(pre+"/metadata-loop", "per-entry gate: a loop over the required metadata with comma-ok lookup and value equality against the signed annotations", w.FnPos(fn), "no function on the call tree checks the required metadata entry by entry against the signed payload")
	}
}

// holds decides the obligation for fn under mode (mErr: err == nil is the passing answer; mBool: Want is), fr being
// the rewriting of fn's frame into the entry point's.
//
// Soundness of accepting a callee's passing answer: the edge `g(args) passed` (or an exit that forwards g's verdict)
// is taken only when g returned that answer; if holds(g) — every passing exit of g lies behind the empty-map test or
// a completed verifier loop, stated about the entry point's values through the rewriting — then the check was made
// whenever the caller proceeds on that edge. The passing answer may be an error (nil) or a boolean (either polarity:
// the polarity is the one under which holds(g) is established, and only edges of that polarity are cut).
func (m *c01Meta) holds(fn *ssa.Function, mode Mode, fr c01Frame, anns []string, nonSkip bool, depth int) (bool, []string, string) {
	w := m.c.W
	fi := w.Info(fn)
	m.c.SeenFn(fn.String())
	site := w.FnPos(fn)
	if depth > 4 {
		return false, nil, site
	}
	cut := map[edgeKey]bool{}
	if nonSkip {
		cut = skipEdges(fi)
	}
	empty := map[string]bool{"LE(len(" + m.metaE + "),const:0)": true, "EQ(len(" + m.metaE + "),const:0)": true, "LT(len(" + m.metaE + "),const:1)": true, "EQ(" + m.metaE + ",nil)": true}
	for e := range fi.edgesMatching(func(l string, _ *ssa.If, _ bool) bool { return empty[fr.sub(l)] }) {
		cut[e] = true
	}
	// what this function decodes itself from the verified content (on every passing path) is the signed payload too
	anns = m.annotations(fi, mode, fr, anns, cut)
	// the function itself may be a verifier
	if m.loop(fn, mode, fr, anns, false) {
		m.verifiers = append(m.verifiers, fnName(fn))
		m.loop(fn, mode, fr, anns, true)
		return true, nil, site
	}
	good := map[*ssa.Call]Mode{}
	cellCalls := map[*ssa.Call]int{}
	for _, ci := range allCalls(fn) {
		call, ok := ci.(*ssa.Call)
		if !ok {
			continue
		}
		g, gn, gd, ok := m.e.callFrame(call)
		if !ok || gn == nil {
			continue
		}
		// only callees that are handed the required metadata (the map, or an object it is a field of)
		handed := false
		for i := range gd {
			gd[i] = fr.sub(gd[i])
			if gd[i] == m.metaE || (len(m.metaE) > len(gd[i]) && m.metaE[:len(gd[i])+1] == gd[i]+".") {
				handed = true
			}
		}
		if !handed {
			continue
		}
		var modes []Mode
		if isErrorType(call.Type()) {
			modes = []Mode{{Kind: mErr}}
		} else if tup, isT := call.Type().(*types.Tuple); isT && tup.Len() > 0 && isErrorType(tup.At(tup.Len()-1).Type()) {
			modes = []Mode{{Kind: mErr}}
		} else if isBoolType(call.Type()) {
			modes = []Mode{{Kind: mBool, Want: true}, {Kind: mBool, Want: false}}
		}
		// … or reports through the error cell of an object it is handed (whatever else it returns)
		cellOfMode := map[Mode]int{}
		if !call.Call.IsInvoke() && g.Recover == nil {
			for j, a := range call.Call.Args {
				ef := errFieldOf(a.Type())
				if ef < 0 {
					continue
				}
				if ci, ok := fi.cellOf[cellKey{canonPtr(unwrap(a)), ef}]; ok && !fi.volatile[ci] && ci < 30 {
					cm := Mode{Kind: c01mCell, K: j}
					cellOfMode[cm] = ci
					modes = append(modes, cm)
				}
			}
		}
		for _, gm := range modes {
			k := fnName(g) + "|" + fmt.Sprint(gm.Kind) + gm.String() + "|" + fmt.Sprint(gd) + "|" + fmt.Sprint(anns)
			res, done := m.memo[k]
			if !done {
				m.memo[k] = false
				res, _, _ = m.holds(g, gm, c01CalleeFrame(gn, gd), anns, false, depth+1)
				m.memo[k] = res
			}
			if !res {
				continue
			}
			site = w.InstrPos(call)
			if gm.Kind == c01mCell {
				cellCalls[call] = cellOfMode[gm]
				break
			}
			good[call] = gm
			var lbl string
			if gm.Kind == mErr {
				lbl = "EQ(" + descTailErr(call) + ",nil)"
			} else if gm.Want {
				lbl = "T(" + desc(call) + ")"
			} else {
				lbl = "F(" + desc(call) + ")"
			}
			for e := range fi.edgesMatching(func(l string, iff *ssa.If, truth bool) bool {
				if l == lbl {
					return true
				}
				cc, cm := condCall(iff.Cond, truth)
				return cc == call && cm == gm
			}) {
				cut[e] = true
			}
			break
		}
	}
	wit := m.e.successWitness(fi, mode, entryState(), cut, c01Wit{
		DischargedTail: func(tail *ssa.Call, tm Mode) bool { gm, ok := good[tail]; return ok && gm == tm },
		CellCalls:      cellCalls,
	})
	return wit == nil, wit, site
}

// json.Unmarshal(src, *envelope.Payload) err == nil, in the entry frame (the target may be a callee's tagged allocation)
var c01ReUnmarshal = regexp.MustCompile(`^EQ\(call:encoding/json\.Unmarshal\((.+),(alloc(?:#\d+)?:ngo/internal/envelope\.Payload<[^>]*>)\)#err,nil\)$`)

// c01DecodedHere: the envelope.Payload objects (entry frame; a callee's own allocation carries the tag of its frame) that
// the function of fi decodes itself — json.Unmarshal with its error checked on every passing path that avoids the cut
// edges — from `content`, the payload bytes of the outcome that went through integrity verification. Such an object
// holds the signed payload just as the one the entry point decodes does: a comparison against its target artifact is a
// comparison against the signed target, whichever function of the call tree does the decoding. The allocation must be
// the only one of the function that is described that way (descriptions name an allocation by type and syntax).
func (e *c01Eng) c01DecodedHere(fi *FnInfo, mode Mode, fr c01Frame, cut map[edgeKey]bool, content string) []string {
	var out []string
	s := e.summarizeFrom(fi, mode, entryState(), cut)
	for _, l := range labelList(s.Checked) {
		mm := c01ReUnmarshal.FindStringSubmatch(fr.sub(l))
		if mm == nil || mm[1] != content {
			continue
		}
		if raw := c01ReUnmarshal.FindStringSubmatch(l); raw == nil || c01AllocsDescribed(fi.Fn, raw[2]) != 1 {
			continue
		}
		out = append(out, mm[2])
	}
	return out
}

// annotations extends the descriptions (entry frame) under which the signed annotations map may be named — the entry
// point's decoded payload, and what the callers on the way down decoded — by every envelope.Payload fn decodes itself
// (json.Unmarshal, error checked on every passing path that is not behind the empty-map test) from the verified payload content. (Whether the decoding
// precedes the lookups is immaterial: lookups in a payload that is not decoded yet fail.)
func (m *c01Meta) annotations(fi *FnInfo, mode Mode, fr c01Frame, known []string, cut map[edgeKey]bool) []string {
	out := append([]string{}, known...)
	// passing paths that are not behind the skip level or the empty-map test
	s := m.e.summarizeFrom(fi, mode, entryState(), cut)
	for _, l := range labelList(s.Checked) {
		if mm := c01ReUnmarshal.FindStringSubmatch(fr.sub(l)); mm != nil && mm[1] == m.contentE {
			out = append(out, mm[2]+".TargetArtifact.Annotations")
		}
	}
	return out
}

// loop: fn contains a range loop over the required metadata whose every completed iteration passes ok(ann[key]) and
// the value equality, and no passing exit is reachable from inside the body. report=false decides without recording.
func (m *c01Meta) loop(fn *ssa.Function, mode Mode, fr c01Frame, anns []string, report bool) bool {
	c := m.c
	w := c.W
	fi := w.Info(fn)
	c.SeenFn(fn.String())
	if !report {
		// a dry run records nothing: obligations added are dropped, and obligations that exist already (a repeated key is
		// overwritten in place by a worse status) get their content back
		saved := c.Obls
		vals := make([]Obligation, len(saved))
		for i, o := range saved {
			vals[i] = *o
		}
		savedKeys := map[string]*Obligation{}
		for k, v := range c.byKey {
			savedKeys[k] = v
		}
		res := m.loop(fn, mode, fr, anns, true)
		c.Obls = saved
		for i, o := range saved {
			*o = vals[i]
		}
		c.byKey = savedKeys
		return res
	}
	pre := m.pre
	rule := "per-entry gate: the loop ranges over the caller's required metadata; every completed iteration passes the comma-ok lookup in the signed annotations and the value equality; no success exit is reachable from inside the body"
	var loop *rangeLoop
	for _, rl := range rangeLoops(fn) {
		rl := rl
		if fr.sub(desc(rl.X)) == m.metaE {
			loop = &rl
		}
	}
	if loop == nil {
		c.Bad(pre+"/metadata-loop", rule, w.FnPos(fn), "no range loop over the required metadata map ("+m.metaE+") in "+fnName(fn))
		return false
	}
	raw, ok := fi.mustPassBetween([]int{loop.Body.Index}, map[int]bool{loop.Header.Index: true})
	c.Evals++
	if !ok {
		c.Unk(pre+"/metadata-loop", rule, w.InstrPos(loop.Next), "loop body never returns to the loop header: shape not recognised")
		return false
	}
	labels := map[string]string{}
	for l, s := range raw {
		labels[fr.sub(l)] = s
	}
	key := "rangekey(" + m.metaE + ")"
	val := "rangeval(" + m.metaE + ")"
	found := false
	for _, ann := range anns {
		lookup := ann + "[" + key + "]"
		_, okLookup := labels["T(ok("+lookup+"))"]
		_, okEq1 := labels["EQ("+lookup+","+val+")"]
		_, okEq2 := labels["EQ("+val+","+lookup+")"]
		if okLookup && (okEq1 || okEq2) {
			found = true
		}
	}
	if !found {
		lookup := anns[0] + "[" + key + "]"
		c.Bad(pre+"/metadata-loop", rule, w.InstrPos(loop.Next), "an iteration can complete without T(ok("+lookup+")) and EQ("+lookup+","+val+"); facts on every completed iteration: "+summarizeLabels(labels, 8))
		return false
	}
	// no passing exit from inside the body without going through the header
	cut := map[edgeKey]bool{}
	for _, p := range loop.Header.Preds {
		for j, s := range p.Succs {
			if s == loop.Header && loopBlocks(loop.Header)[p.Index] && p != loop.Header {
				cut[edgeKey{p.Index, j}] = true
			}
		}
	}
	if path := m.e.successWitness(fi, mode, []state{{loop.Body.Index, 0, -1}}, cut, c01Wit{}); path != nil {
		c.Bad(pre+"/metadata-loop", rule, w.InstrPos(loop.Next), "a success exit is reachable from inside the loop body (early success before all pairs are checked)", path...)
		return false
	}
	c.OK(pre+"/metadata-loop", rule, w.InstrPos(loop.Next))
	return true
}

// ---- the digest algorithm of the signature's hash -------------------------------------
//
// Clause: the blob is digested with the algorithm that the hash→digest table gives for the hash of the signature
// algorithm of the verified envelope, and a hash the table does not know fails closed. In the base tree the table is a
// package-level map[crypto.Hash]digest.Algorithm indexed in VerifyBlob with the comma-ok form. The clause does not
// depend on that representation: a *function* of the module can be the table (a switch or an if chain over the hash,
// a wrapper around the map lookup), its answer can be a boolean, an error or the zero value, and it can be handed the
// hash, the signature algorithm or an object that contains it. c01AlgTable recognises such a function by what it
// computes, not by where it stands:
//
//	g is a table keyed by X (an expression over g's parameters) when every return of g that can deliver the passing
//	answer (verdict result not the constant false / not a provably non-nil error / algorithm not the constant "")
//	delivers as its algorithm
//	  (i)   a constant c != "" on a path that must pass the edge X == n, (n, c) being a pair of the canonical table
//	        crypto.SHA256→"sha256", crypto.SHA384→"sha384", crypto.SHA512→"sha512"  (decided per phi edge when the
//	        function has a single exit fed by locals), or
//	  (ii)  M[X], M a package-level map[crypto.Hash]digest.Algorithm of the module, the verdict being the ok of that very
//	        lookup or the path passing ok(M[X]) / M[X] != ""  (no verdict is needed when the zero value is the answer), or
//	  (iii) the algorithm of a call of another such table h(…), the verdict being h's own verdict of that call (or the
//	        path passing it), keyed by h's key with h's parameters replaced by the arguments,
//	and all these returns agree on X.
//
// Soundness. X is built from SSA parameters (immutable) and calls on them, and it is only ever accepted when, with
// g's parameters replaced by the arguments of the call, it reads Hash(SignatureAlgorithm of the verified envelope) in
// the entry point's frame — so X is the hash the clause speaks of. By (i)–(iii) "g(args) gave its passing answer"
// implies "the algorithm it returned is table(X) and X is in the table": exactly what `alg, ok := M[X]; ok` says. The
// entry point must still pass that answer on every non-skip success exit (the obligation blob/algorithm-lookup, now
// stated on T(g(args)#ok) / g(args)#err == nil / g(args) != "") and hand that very result to the generator (blob/generator
// and the three comparisons are stated on the value g(args)#alg). A function with a passing return that is not covered
// (a default arm answering SHA256, a constant not paired with its hash, a lookup whose miss is not reported) is not a
// table and the obligations fail as before. For the map itself `M[H] != ""` is accepted next to ok(M[H]): a miss yields
// the zero value, so the inequality implies the hit (an entry mapped to "" is treated as a miss: stricter).

var c01HashDigest = map[string]string{"5": `"sha256"`, "6": `"sha384"`, "7": `"sha512"`} // crypto.SHA256/384/512 → digest.SHA256/384/512

const (
	c01AnsBool = iota
	c01AnsErr
	c01AnsZero
)

type c01AlgTable struct {
	g   *ssa.Function
	k   int    // result index of the digest algorithm
	j   int    // result index of the verdict; -1: the algorithm itself ("" is the miss)
	ans int    // kind of the verdict
	key string // what the table is keyed by, in g's frame
}

func isDigestAlgorithm(t types.Type) bool {
	return t != nil && strings.HasSuffix(t.String(), "opencontainers/go-digest.Algorithm")
}

// hashDigestMapLookup: v is M[idx] (either form) on a package-level hash→digest map of the module.
func (e *c01Eng) hashDigestMapLookup(v ssa.Value) *ssa.Lookup {
	if x, ok := v.(*ssa.Extract); ok && x.Index == 0 {
		v = x.Tuple
	}
	l, ok := v.(*ssa.Lookup)
	if !ok {
		return nil
	}
	u, ok := l.X.(*ssa.UnOp)
	if !ok || u.Op != token.MUL {
		return nil
	}
	g, ok := u.X.(*ssa.Global)
	if !ok || g.Pkg == nil || !e.w.IsProductPkg(g.Pkg.Pkg.Path()) || !isHashDigestMap(g.Type().(*types.Pointer).Elem()) {
		return nil
	}
	return l
}

// blockGuards: the facts every path from the entry to block b passes.
func c01BlockGuards(fi *FnInfo, b *ssa.BasicBlock) map[string]string {
	if b.Index == 0 {
		return map[string]string{}
	}
	l, ok := fi.mustPassBetween([]int{0}, map[int]bool{b.Index: true})
	if !ok {
		return nil // unreachable
	}
	return l
}

// algTable decides whether g is a hash→digest table (see above); nil if not.
func (e *c01Eng) algTable(g *ssa.Function) *c01AlgTable {
	if t, ok := e.tables[g]; ok {
		return t
	}
	if g == nil || g.Blocks == nil || !e.w.IsProductFn(g) || g.Recover != nil || e.tablesBusy[g] {
		return nil
	}
	e.tablesBusy[g] = true
	defer delete(e.tablesBusy, g)
	t := e.algTable1(g)
	e.tables[g] = t
	return t
}

func (e *c01Eng) algTable1(g *ssa.Function) *c01AlgTable {
	res := g.Signature.Results()
	t := &c01AlgTable{g: g, k: -1, j: -1, ans: c01AnsZero}
	for i := 0; i < res.Len(); i++ {
		if isDigestAlgorithm(res.At(i).Type()) {
			if t.k >= 0 {
				return nil
			}
			t.k = i
		}
	}
	if t.k < 0 {
		return nil
	}
	if res.Len() > 1 {
		t.j = res.Len() - 1
		switch {
		case t.j == t.k:
			return nil
		case isErrorType(res.At(t.j).Type()):
			t.ans = c01AnsErr
		case isBoolType(res.At(t.j).Type()):
			t.ans = c01AnsBool
		default:
			return nil
		}
	}
	fi := e.w.Info(g)
	var keys map[string]bool
	n := 0
	for _, b := range g.Blocks {
		r, ok := blockTerm(b).(*ssa.Return)
		if !ok || len(r.Results) != res.Len() {
			continue
		}
		alg := r.Results[t.k]
		var verdict ssa.Value
		if t.j >= 0 {
			verdict = r.Results[t.j]
		}
		// one case per return, or one per incoming edge when the results are phis of the returning block
		type rcase struct {
			alg, verdict ssa.Value
			at           *ssa.BasicBlock
			guards       map[string]string
		}
		var cases []rcase
		pa, aPhi := alg.(*ssa.Phi)
		pv, vPhi := verdict.(*ssa.Phi)
		aPhi = aPhi && pa.Block() == b
		vPhi = vPhi && pv.Block() == b
		if aPhi || vPhi {
			for pi, pred := range b.Preds {
				c := rcase{alg: alg, verdict: verdict, at: pred}
				if aPhi {
					c.alg = pa.Edges[pi]
				}
				if vPhi {
					c.verdict = pv.Edges[pi]
				}
				gs := c01BlockGuards(fi, pred)
				if gs == nil {
					continue // unreachable predecessor
				}
				c.guards = map[string]string{}
				for l, s := range gs {
					c.guards[l] = s
				}
				if iff, isIf := blockTerm(pred).(*ssa.If); isIf && len(pred.Succs) == 2 && pred.Succs[0] != pred.Succs[1] {
					l := condLabel(iff.Cond, pred.Succs[0] == b)
					c.guards[l] = ""
					if tw, ok := labelTwin(l); ok {
						c.guards[tw] = ""
					}
				}
				cases = append(cases, c)
			}
		} else {
			gs := c01BlockGuards(fi, b)
			if gs == nil {
				continue
			}
			cases = append(cases, rcase{alg, verdict, b, gs})
		}
		for _, c := range cases {
			// exits that cannot deliver the passing answer
			switch t.ans {
			case c01AnsBool:
				if v, isK := boolConst(c.verdict); isK && !v {
					continue
				}
			case c01AnsErr:
				if fi.nonNil(c.verdict, c.at) {
					continue
				}
			case c01AnsZero:
				if k, isK := c.alg.(*ssa.Const); isK && constString(k) == `""` {
					continue
				}
			}
			ks := e.algKeys(t, c.alg, c.verdict, c.guards)
			if n > 0 {
				for k := range keys {
					if !ks[k] {
						delete(keys, k)
					}
				}
			} else {
				keys = ks
			}
			n++
			if len(keys) == 0 {
				return nil
			}
		}
	}
	if n == 0 || len(keys) == 0 {
		return nil
	}
	t.key = sortedKeys(keys)[0]
	return t
}

// c01TruthLabels: the spellings of "the boolean x is true" as an edge label (`if x`, `if x == true`, `if x != false`).
func c01TruthLabels(x string) []string {
	return []string{"T(" + x + ")", "EQ(" + x + ",const:true)", "NE(" + x + ",const:false)"}
}

// passLabels: the labels under which "the call gave its passing answer" is recorded, for a call whose results print as
// algForm / verdictForm.
func c01PassLabels(ans int, algForm, verdictForm string) []string {
	switch ans {
	case c01AnsBool:
		return c01TruthLabels(verdictForm)
	case c01AnsErr:
		return []string{"EQ(" + verdictForm + ",nil)"}
	}
	return []string{"NE(" + algForm + `,const:"")`}
}

// algKeys: the expressions X (g's frame) such that this passing-capable return delivers table(X), X in the table.
func (e *c01Eng) algKeys(t *c01AlgTable, alg, verdict ssa.Value, guards map[string]string) map[string]bool {
	out := map[string]bool{}
	// (i) a constant of the canonical table behind the equality of its hash
	if k, ok := alg.(*ssa.Const); ok {
		c := constString(k)
		if c == `""` {
			return out
		}
		for l := range guards {
			op, args := splitTopArgs(l)
			if op == "EQ" && len(args) == 2 && strings.HasPrefix(args[1], "const:") && c01HashDigest[strings.TrimPrefix(args[1], "const:")] == c {
				out[args[0]] = true
			}
		}
		return out
	}
	// (ii) the module's map, looked up with a reported miss
	if l := e.hashDigestMapLookup(alg); l != nil {
		ld := desc(l)
		hit := t.ans == c01AnsZero
		if x, ok := verdict.(*ssa.Extract); ok && t.ans == c01AnsBool && x.Tuple == ssa.Value(l) && x.Index == 1 && l.CommaOk {
			hit = true
		}
		for _, pl := range append(c01TruthLabels("ok("+ld+")"), "NE("+ld+`,const:"")`) {
			if _, ok := guards[pl]; ok {
				hit = true
			}
		}
		if hit {
			out[desc(l.Index)] = true
		}
		return out
	}
	// (iii) the answer of another table
	call := callOf(alg)
	if call == nil || call.Call.IsInvoke() {
		return out
	}
	h := staticCallee(call)
	ht := e.algTable(h)
	if ht == nil || len(call.Call.Args) != len(h.Params) {
		return out
	}
	if idx := 0; true {
		if x, ok := alg.(*ssa.Extract); ok {
			idx = x.Index
		}
		if idx != ht.k {
			return out
		}
	}
	hit := t.ans == c01AnsZero && ht.ans == c01AnsZero
	if x, ok := verdict.(*ssa.Extract); ok && ht.j >= 0 && t.ans == ht.ans && x.Tuple == ssa.Value(call) && x.Index == ht.j {
		hit = true
	}
	if ht.j >= 0 || ht.ans == c01AnsZero {
		vf := ""
		if ht.j >= 0 {
			vf = res(call, ht.j)
		}
		for _, l := range c01PassLabels(ht.ans, res(call, ht.k), vf) {
			if _, ok := guards[l]; ok {
				hit = true
			}
		}
	}
	if hit {
		var names, descs []string
		for i, p := range h.Params {
			names = append(names, p.Name())
			descs = append(descs, desc(call.Call.Args[i]))
		}
		out[substParams(ht.key, names, descs)] = true
	}
	return out
}

// c01Deriv: one accepted way in which the entry point obtains the digest algorithm — the printed form of the value
// (a regular expression) and the fact that says the table knew the hash.
type c01Deriv struct {
	value, pass string
	what        string
}

// c01CallArgs parses the balanced argument list that starts at s[0] == '(' ; it returns the top-level arguments and
// the length consumed (0 if unbalanced).
func c01CallArgs(s string) ([]string, int) {
	if len(s) == 0 || s[0] != '(' {
		return nil, 0
	}
	depth, inQ := 0, false
	for k := 0; k < len(s); k++ {
		ch := s[k]
		if inQ {
			if ch == '\\' {
				k++
			} else if ch == '"' {
				inQ = false
			}
			continue
		}
		switch ch {
		case '"':
			inQ = true
		case '(', '[', '{':
			depth++
		case ')', ']', '}':
			depth--
			if depth == 0 {
				_, args := splitTopArgs("X" + s[:k+1])
				if len(args) == 1 && args[0] == "" {
					args = nil
				}
				return args, k + 1
			}
		}
	}
	return nil, 0
}

// c01Derivations: the calls of table functions that occur in the facts of the non-skip success exits (already in the
// entry point's frame) and whose key, with the parameters replaced by the arguments, is the hash of the signature
// algorithm of the verified envelope (reHash).
func (e *c01Eng) derivations(fn *ssa.Function, sum *Summary, reHash *regexp.Regexp) []c01Deriv {
	var out []c01Deriv
	seen := map[string]bool{}
	for _, g := range e.w.moduleCallees(fn) {
		if g == fn {
			continue
		}
		sig := g.Signature.Results()
		has := false
		for i := 0; i < sig.Len(); i++ {
			has = has || isDigestAlgorithm(sig.At(i).Type())
		}
		if !has {
			continue
		}
		t := e.algTable(g)
		if t == nil {
			continue
		}
		head := "call:" + fnName(g)
		for _, ex := range sum.Exits {
			for _, l := range labelList(ex.Checked) {
				for at := 0; ; {
					i := strings.Index(l[at:], head+"(")
					if i < 0 {
						break
					}
					at += i + len(head)
					args, n := c01CallArgs(l[at:])
					if n == 0 || len(args) != len(g.Params) {
						continue
					}
					var names []string
					for _, p := range g.Params {
						names = append(names, p.Name())
					}
					if !reHash.MatchString(substParams(t.key, names, args)) {
						continue
					}
					algForm := callForm(g, t.k, args...)
					vf := ""
					if t.j >= 0 {
						vf = callForm(g, t.j, args...)
					}
					var ps []string
					for _, p := range c01PassLabels(t.ans, algForm, vf) {
						ps = append(ps, regexp.QuoteMeta(p))
					}
					d := c01Deriv{value: regexp.QuoteMeta(algForm), pass: strings.Join(ps, "|"),
						what: "digest algorithm = " + fnName(g) + "(…), a hash→digest table keyed by the hash of the signature algorithm of the verified envelope, its miss answer fail-closed"}
					if !seen[d.value+"\x00"+d.pass] {
						seen[d.value+"\x00"+d.pass] = true
						out = append(out, d)
					}
				}
			}
		}
	}
	return out
}

// c01HashDigestMaps: a regular expression for the printed names of the module's package-level
// map[crypto.Hash]digest.Algorithm variables (the table may live in any package of the module; its content is C07's).
func c01HashDigestMaps(w *World) string {
	var names []string
	for _, p := range w.Product {
		for _, m := range p.Members {
			if g, ok := m.(*ssa.Global); ok {
				if pt, ok := g.Type().(*types.Pointer); ok && isHashDigestMap(pt.Elem()) {
					names = append(names, regexp.QuoteMeta(strings.TrimPrefix(desc(g), "global:")))
				}
			}
		}
	}
	if len(names) == 0 {
		return `\?` // no table: nothing matches
	}
	sort.Strings(names)
	return "(?:" + strings.Join(names, "|") + ")"
}

// ---- a pipeline helper that hands back several results -------------------------------------
//
// Class of rewrite: the common front part of the entry points (allocate the outcome, the skip gate, the signature
// processing, the payload decoding) is extracted into ONE helper that hands back everything the rest needs as a tuple,
//
//	outcome, payload, err := v.front(…)            // (*Outcome, *Payload, error)
//	if err != nil || payload == nil { return outcome, err }
//
// and tells the caller which of its exits was taken through a *sentinel* among the results (a nil payload, or a boolean
// such as `skipped`). Three things are then no longer visible in the entry point's own body; each is re-established
// from the helper's exits, not from its text or name:
//
//  (1) Facts. The engine composes `g(…)#err == nil` with the facts common to ALL success exits of g — here that includes
//      the skip exit, which passes none of the integrity checks. But an exit of the caller that must also pass
//      `g(…)#k != nil` (or `g(…)#k` false / true) was not reached through an exit of g that returns the constant nil
//      (true / false) as result k: SSA results of one return instruction belong to one and the same execution of g, so
//      the facts common to the success exits of g *whose k-th result can have the tested value* hold
//      (refineByResults). Nothing is assumed about which exits those are; they are g's own return instructions.
//
//  (2) The skip gate. An edge `g(…)#k == nil` that is only reachable through `g(…)#err == nil` is a skip edge when every
//      success-capable exit of g that is reachable with g's own skip edges removed returns a provably non-nil k-th
//      result: then "err == nil and result k == nil" can only have come out of an exit behind g's level==skip edge, i.e.
//      the edge says what the inline `level == skip` edge says (sentinelSkipEdges). The requirement that the edge is
//      dominated by err == nil matters: a failed g also hands back nil, and that must not be mistaken for skip.
//
//  (3) Identity of the objects. `g(…)#k`, when it is not nil, is the object g allocated, if every return of g hands back
//      as result k either the constant nil or one and the same allocation site (not in a loop) of g, the only one of g and of the caller that is described that way; the facts g
//      established about "alloc:T<…>" (the decoding target, the outcome handed to the signature processing) and the facts
//      the caller establishes about `g(…)#k` (the comparisons) are then facts about one object, and are stated under
//      the allocation's description (c01Canon; only when g is called once in the caller and not in a loop).

type c01ResCall struct {
	c      *ssa.Call
	g      *ssa.Function
	ks     []int    // indexes of the results that can serve as sentinel / carry an object (not the error)
	alias  []string // per result index: description of the allocation of g it denotes when not nil ("" none)
	unique bool
}

// resultCalls: the static calls in fn of module functions that return a tuple ending in an error.
func (e *c01Eng) resultCalls(fn *ssa.Function) []*c01ResCall {
	if rc, ok := e.resCalls[fn]; ok {
		return rc
	}
	var out []*c01ResCall
	count := map[*ssa.Function]int{}
	for _, ci := range allCalls(fn) {
		c, ok := ci.(*ssa.Call)
		if !ok || c.Call.IsInvoke() {
			continue
		}
		g := staticCallee(c)
		if g == nil || g == fn || g.Blocks == nil || !e.w.IsProductFn(g) || g.Recover != nil || len(c.Call.Args) != len(g.Params) {
			continue
		}
		count[g]++
		tup, ok := c.Type().(*types.Tuple)
		if !ok || tup.Len() < 2 || !isErrorType(tup.At(tup.Len()-1).Type()) {
			continue
		}
		rc := &c01ResCall{c: c, g: g, alias: make([]string, tup.Len())}
		for k := 0; k < tup.Len()-1; k++ {
			switch tup.At(k).Type().Underlying().(type) {
			case *types.Pointer:
				rc.ks = append(rc.ks, k)
				// (descriptions name an allocation by type and syntax only: the restatement is made only when that
				// description denotes no other allocation of the helper and none of the caller)
				if a := resultObject(g, k); a != nil && c01AllocsDescribed(g, desc(a)) == 1 && c01AllocsDescribed(fn, desc(a)) == 0 {
					rc.alias[k] = desc(a)
				}
			case *types.Basic:
				if isBoolType(tup.At(k).Type()) {
					rc.ks = append(rc.ks, k)
				}
			}
		}
		if len(rc.ks) > 0 {
			out = append(out, rc)
		}
	}
	for _, rc := range out {
		rc.unique = count[rc.g] == 1 && !blockReaches(rc.c.Block(), rc.c.Block())
	}
	if e.resCalls == nil {
		e.resCalls = map[*ssa.Function][]*c01ResCall{}
	}
	e.resCalls[fn] = out
	return out
}

// c01AllocsDescribed: the number of allocation sites of fn that are described as d.
func c01AllocsDescribed(fn *ssa.Function, d string) int {
	n := 0
	for _, b := range fn.Blocks {
		for _, in := range b.Instrs {
			if a, ok := in.(*ssa.Alloc); ok && desc(a) == d {
				n++
			}
		}
	}
	return n
}

// resultObject: the allocation of g that result k denotes whenever it is not nil (see (3)); nil if there is none.
func resultObject(g *ssa.Function, k int) *ssa.Alloc {
	var obj *ssa.Alloc
	seen := map[ssa.Value]bool{}
	var leaf func(v ssa.Value) bool
	leaf = func(v ssa.Value) bool {
		if seen[v] {
			return true
		}
		seen[v] = true
		switch x := v.(type) {
		case *ssa.Const:
			return x.IsNil()
		case *ssa.Phi:
			for _, ed := range x.Edges {
				if !leaf(ed) {
					return false
				}
			}
			return true
		case *ssa.Alloc:
			if obj != nil && obj != x {
				return false
			}
			obj = x
			return true
		}
		return false
	}
	for _, b := range g.Blocks {
		r, ok := blockTerm(b).(*ssa.Return)
		if !ok {
			continue
		}
		if k >= len(r.Results) || !leaf(r.Results[k]) {
			return nil
		}
	}
	if obj == nil || blockReaches(obj.Block(), obj.Block()) {
		return nil
	}
	return obj
}

// exitResult: the value exit ex of a function hands back as result k, and the block in which it is decided.
func exitResult(ex *ExitSum, k int) (ssa.Value, *ssa.BasicBlock) {
	if ex.Ret == nil || k >= len(ex.Ret.Results) {
		return nil, nil
	}
	v, b := ex.Ret.Results[k], ex.Ret.Block()
	if p, ok := v.(*ssa.Phi); ok && p.Block() == b && ex.Pred >= 0 && ex.Pred < len(p.Edges) {
		return p.Edges[ex.Pred], b.Preds[ex.Pred]
	}
	return v, b
}

// c01Sentinel: a tested value of a result: nil / not nil for pointers, true / false for booleans.
type c01Sentinel struct {
	label string // the fact as an edge label of the caller
	// excluded: an exit of g that hands back v as that result cannot have produced the tested value
	excluded func(v ssa.Value) bool
}

func c01Sentinels(rc *c01ResCall, k int) []c01Sentinel {
	r := res(rc.c, k)
	tup := rc.c.Type().(*types.Tuple)
	if isBoolType(tup.At(k).Type()) {
		isConst := func(want bool) func(ssa.Value) bool {
			return func(v ssa.Value) bool { b, ok := boolConst(v); return ok && b == want }
		}
		var out []c01Sentinel
		for _, l := range c01TruthLabels(r) {
			out = append(out, c01Sentinel{l, isConst(false)})
		}
		for _, l := range []string{"F(" + r + ")", "EQ(" + r + ",const:false)", "NE(" + r + ",const:true)"} {
			out = append(out, c01Sentinel{l, isConst(true)})
		}
		return out
	}
	return []c01Sentinel{{"NE(" + r + ",nil)", isNilConst}}
}

// refineByResults adds to the facts of exit ex of fi.Fn the facts of the exits of a callee that are consistent with the
// result tests ex passed — (1) above — and restates the facts about the callee's results under the description of the
// object they denote — (3).
func (e *c01Eng) refineByResults(fi *FnInfo, ex *ExitSum) {
	rcs := e.resultCalls(fi.Fn)
	if len(rcs) == 0 {
		return
	}
	for _, rc := range rcs {
		if _, ok := ex.Checked["EQ("+descTailErr(rc.c)+",nil)"]; !ok {
			continue
		}
		for _, k := range rc.ks {
			for _, sn := range c01Sentinels(rc, k) {
				if _, ok := ex.Checked[sn.label]; !ok {
					continue
				}
				s := e.Summarize(rc.g, Mode{Kind: mErr})
				if s == nil || !s.Complete {
					continue
				}
				var common map[string]string
				n := 0
				for _, gx := range s.Exits {
					v, _ := exitResult(gx, k)
					if v == nil || sn.excluded(v) {
						continue
					}
					if n == 0 {
						common = map[string]string{}
						for l, st := range gx.Checked {
							common[l] = st
						}
					} else {
						for l := range common {
							if _, ok := gx.Checked[l]; !ok {
								delete(common, l)
							}
						}
					}
					n++
				}
				if n == 0 || n == len(s.Exits) {
					continue // (no consistent exit: the edge is infeasible; all exits: the engine's composition already says it)
				}
				_, names, descs, ok := e.callFrame(rc.c)
				if !ok || names == nil {
					continue
				}
				for l, st := range common {
					l = substParams(l, names, descs)
					if _, ok := ex.Checked[l]; !ok {
						ex.Checked[l] = st
					}
				}
			}
		}
	}
	canon := e.canon(fi.Fn)
	for _, l := range labelList(ex.Checked) {
		if l2 := canon(l); l2 != l {
			if _, ok := ex.Checked[l2]; !ok {
				ex.Checked[l2] = ex.Checked[l]
			}
		}
	}
}

// canon: the rewriting (3) of descriptions in fn's frame; the identity when fn has no such call.
func (e *c01Eng) canon(fn *ssa.Function) func(string) string {
	type rw struct {
		head, repl string
		k          int
	}
	var rws []rw
	for _, rc := range e.resultCalls(fn) {
		if !rc.unique {
			continue
		}
		for k, a := range rc.alias {
			if a != "" {
				rws = append(rws, rw{"call:" + fnName(rc.g), a, k})
			}
		}
	}
	return func(l string) string {
		for _, r := range rws {
			if strings.Contains(l, r.head+"(") {
				l = c01RewriteRes(l, r.head, r.k, r.repl)
			}
		}
		return l
	}
}

// c01RewriteRes replaces every `head(<balanced arguments>)#k` in l by repl (whatever the arguments are printed as: nested
// descriptions are abbreviated by depth).
func c01RewriteRes(l, head string, k int, repl string) string {
	suffix := fmt.Sprintf("#%d", k)
	var sb strings.Builder
	at := 0
	for {
		i := strings.Index(l[at:], head+"(")
		if i < 0 {
			break
		}
		start := at + i
		_, n := c01CallArgs(l[start+len(head):])
		if n == 0 {
			break
		}
		end := start + len(head) + n
		rest := l[end:]
		if strings.HasPrefix(rest, suffix) && (len(rest) == len(suffix) || rest[len(suffix)] < '0' || rest[len(suffix)] > '9') {
			sb.WriteString(l[at:start])
			sb.WriteString(repl)
			at = end + len(suffix)
		} else {
			sb.WriteString(l[at : start+len(head)])
			at = start + len(head)
		}
	}
	sb.WriteString(l[at:])
	return sb.String()
}

// sentinelSkipEdges: the edges of fi.Fn that say "the helper took its skip exit" — (2) above.
func (e *c01Eng) sentinelSkipEdges(fi *FnInfo, depth int) map[edgeKey]bool {
	out := map[edgeKey]bool{}
	if depth > 2 {
		return out
	}
	for _, rc := range e.resultCalls(fi.Fn) {
		errL := "EQ(" + descTailErr(rc.c) + ",nil)"
		for _, k := range rc.ks {
			for _, sk := range e.skipSentinelLabels(rc, k, depth) {
				for ek := range fi.edgesMatching(func(l string, _ *ssa.If, _ bool) bool { return l == sk }) {
					gs := c01BlockGuards(fi, fi.Fn.Blocks[ek.b])
					if _, ok := gs[errL]; ok {
						out[ek] = true
					}
				}
			}
		}
	}
	return out
}

// skipSentinelLabels: the edge labels over result k of the call that can only hold, given err == nil, when the callee
// returned from behind its own skip edge.
func (e *c01Eng) skipSentinelLabels(rc *c01ResCall, k int, depth int) []string {
	gfi := e.w.Info(rc.g)
	se := c01SkipEdges(gfi, depth+1)
	if len(se) == 0 {
		return nil
	}
	s := e.summarizeFrom(gfi, Mode{Kind: mErr}, entryState(), se)
	if s == nil || !s.Complete {
		return nil
	}
	r := res(rc.c, k)
	tup := rc.c.Type().(*types.Tuple)
	if isBoolType(tup.At(k).Type()) {
		// every non-skip success exit answers the same constant: the other value is the skip sentinel
		var val, set bool
		for _, gx := range s.Exits {
			v, _ := exitResult(gx, k)
			b, ok := boolConst(v)
			if v == nil || !ok || (set && b != val) {
				return nil
			}
			val, set = b, true
		}
		if !set {
			return nil
		}
		if val {
			return []string{"F(" + r + ")", "EQ(" + r + ",const:false)", "NE(" + r + ",const:true)"}
		}
		return c01TruthLabels(r)
	}
	for _, gx := range s.Exits {
		v, at := exitResult(gx, k)
		if v == nil || !gfi.nonNil(v, at) {
			return nil
		}
	}
	return []string{"EQ(" + r + ",nil)"}
}

// c01SkipEdges: the edges on which the applicable verification level is skip: the level test itself, or the sentinel of
// a helper that made it.
func c01SkipEdges(fi *FnInfo, depth int) map[edgeKey]bool {
	out := fi.edgesMatching(func(l string, _ *ssa.If, _ bool) bool { return isSkipLabel(l) })
	for k := range c01Engine(fi.W).sentinelSkipEdges(fi, depth) {
		out[k] = true
	}
	return out
}

// ---- the signature bytes read back from the object they were put into ------------------------
//
// Class of rewrite: a parameter of the entry point is not handed on as such but travels inside an object the entry point
// builds (the outcome literal `&VerificationOutcome{RawSignature: signature, …}` handed to an inner method that parses
// `outcome.RawSignature`). The clause "the envelope that is parsed and verified is the signature the caller submitted"
// is then stated about `<object>.F` instead of the parameter. c01ParamAliases returns the descriptions (entry frame)
// `<alloc>.F` that denote the parameter selected by pred, by a single-assignment argument that is field sensitive and
// type based, not flow based:
//
//	(A) the object is one allocation site a of the entry point (not in a loop, the only one of the entry point that is
//	    described that way and none of the functions on the call tree allocates a look-alike);
//	(B) in a's own block, before any call and before any read of the field, a.F is stored with the SSA parameter itself
//	    (SSA parameters are immutable; a reassigned parameter is not an *ssa.Parameter at the store);
//	(C) on the whole static call tree of the entry point (closures included) that store is the ONLY store to field F of
//	    the object's named type, the address of such a field is never used for anything but that store and loads, and no
//	    value of the struct type is stored as a whole (`*o = T{…}`);
//	(D) no dynamic or interface call on the tree is handed a pointer to the type (code that is not on the static tree
//	    could write the field).
//
// Under (A)–(D) every load of F from that object, anywhere on the tree and at any time after the literal was built, yields
// the parameter: the two descriptions name one value and a fact stated about one is the fact about the other. (Code
// outside the module cannot name the field; reflection and unsafe are out of scope as everywhere in this analyser.)
func c01ParamAliases(w *World, fn *ssa.Function, pred func(types.Type) bool) []string {
	var par *ssa.Parameter
	for _, p := range fn.Params {
		if pred(p.Type()) {
			par = p
			break
		}
	}
	if par == nil {
		return nil
	}
	tree := w.moduleCallees(fn)
	var out []string
	for _, b := range fn.Blocks {
		for i, in := range b.Instrs {
			a, ok := in.(*ssa.Alloc)
			if !ok || blockReaches(b, b) {
				continue
			}
			tn := namedOf(a.Type())
			pt, isPtr := a.Type().(*types.Pointer)
			if tn == "" || !isPtr {
				continue
			}
			if _, isStruct := pt.Elem().Underlying().(*types.Struct); !isStruct {
				continue
			}
			// (B)
			var st *ssa.Store
			field := -1
		scan:
			for _, nx := range b.Instrs[i+1:] {
				switch x := nx.(type) {
				case ssa.CallInstruction:
					break scan
				case *ssa.UnOp:
					if x.Op == token.MUL {
						if fa, ok := x.X.(*ssa.FieldAddr); ok && fa.X == ssa.Value(a) {
							break scan
						}
					}
				case *ssa.Store:
					if fa, ok := x.Addr.(*ssa.FieldAddr); ok && fa.X == ssa.Value(a) && x.Val == ssa.Value(par) {
						st, field = x, fa.Field
						break scan
					}
				}
			}
			if st == nil {
				continue
			}
			// (A)
			ad := desc(a)
			okA := c01AllocsDescribed(fn, ad) == 1
			for _, g := range tree {
				if g != fn && c01AllocsDescribed(g, ad) > 0 {
					okA = false
				}
			}
			if !okA {
				continue
			}
			// (C), (D)
			okC := true
			for _, g := range tree {
				for _, gb := range g.Blocks {
					for _, gin := range gb.Instrs {
						switch x := gin.(type) {
						case *ssa.FieldAddr:
							if x.Field != field || namedOf(x.X.Type()) != tn {
								continue
							}
							if x.Referrers() == nil {
								continue
							}
							for _, u := range *x.Referrers() {
								switch y := u.(type) {
								case *ssa.DebugRef:
								case *ssa.UnOp:
									if y.Op != token.MUL {
										okC = false
									}
								case *ssa.Store:
									if y != st {
										okC = false
									}
								default:
									okC = false
								}
							}
						case *ssa.Store:
							if namedOf(x.Val.Type()) == tn {
								if _, isP := x.Val.Type().(*types.Pointer); !isP {
									okC = false // the struct is overwritten as a whole
								}
							}
						case ssa.CallInstruction:
							h := staticCallee(x)
							if h != nil && (h.Blocks == nil || w.IsProductFn(h)) && !x.Common().IsInvoke() {
								continue
							}
							if h != nil && !w.IsProductFn(h) {
								continue // code outside the module cannot name the field
							}
							for _, arg := range callArgs(x) {
								if _, isP := unwrap(arg).Type().(*types.Pointer); isP && namedOf(unwrap(arg).Type()) == tn {
									okC = false
								}
							}
						}
					}
				}
			}
			if okC {
				out = append(out, ad+"."+fieldName(a.Type(), field))
			}
		}
	}
	return out
}

// ---- a step that reports through the outcome it is handed ------------------------------------
//
// Class of rewrite: a check is moved into a helper that has no verdict among its results; it is handed the outcome and
// records a failure there,
//
//	func check(…, required map[string]string, outcome *Outcome) {
//		if len(required) == 0 { return }
//		if err := verify(…); err != nil { outcome.Error = err }
//	}
//	…
//	check(…, opts.UserMetadata, outcome)
//	return outcome, outcome.Error
//
// The answer of such a call is the error cell (object handed as argument K, its one error field) after the call: the
// mode c01mCell{K}. Under that mode a return of the helper is a failure exit exactly when the engine's mask says that the
// helper left a provably non-nil value in the cell (stored there, not clobbered afterwards); every other return is
// treated as passing-capable (more passing exits than there really are: conservative). The obligation is decided for the
// helper under that mode by the same recursive path argument as for any other answer (c01Meta.holds).
//
// In the caller the passing answer is not a branch edge. It is used as follows (successWitness, c01Wit.CellCalls): the
// search carries, per cell, the flag "a discharging call was handed this object and since it returned nothing wrote the
// cell" — set at the call, cleared by any later store to the cell and by any later call that may overwrite it (the
// engine's own clobber rule, the one sticky failures rest on). An exit whose verdict IS that cell (it returns the load
// of the cell as its error, or, in a function analysed under c01mCell, the cell is its answer) reached with the flag set
// is not a success exit that escapes the obligation: it succeeds only if the cell is nil, the cell is what the helper
// left there, and the helper leaves it nil only on its passing exits, all of which lie behind the check.
// The object must be the same SSA object (cell index of the caller), so a helper that is handed another outcome than
// the one whose error is returned vouches for nothing.

const c01mCell = 16

// c01ModeCell: the cell of fi that is the answer under mode c01mCell{K}; -1 if the function never refers to it.
func c01ModeCell(fi *FnInfo, mode Mode) int {
	if mode.Kind != c01mCell || mode.K < 0 || mode.K >= len(fi.Fn.Params) {
		return -1
	}
	p := fi.Fn.Params[mode.K]
	ef := errFieldOf(p.Type())
	if ef < 0 {
		return -1
	}
	if ci, ok := fi.cellOf[cellKey{ssa.Value(p), ef}]; ok {
		return ci
	}
	return -1
}

// c01VerdictCell: the cell whose nil-ness is the verdict of return r (entered through predecessor pred) under mode.
func c01VerdictCell(fi *FnInfo, r *ssa.Return, pred int, mode Mode) int {
	switch mode.Kind {
	case c01mCell:
		return c01ModeCell(fi, mode)
	case mErr:
		v := modeOperand(r, mode)
		if v == nil {
			return -1
		}
		if p, ok := v.(*ssa.Phi); ok && p.Block() == r.Block() && pred >= 0 && pred < len(p.Edges) {
			v = p.Edges[pred]
		}
		ci := fi.cellOfLoad(v)
		if ci < 0 || fi.volatile[ci] {
			return -1
		}
		// the load must see what was left in the cell: nothing but the return follows it in the returning block
		u, ok := v.(*ssa.UnOp)
		if !ok || u.Block() != r.Block() {
			return -1
		}
		after := false
		for _, in := range r.Block().Instrs {
			if in == ssa.Instruction(u) {
				after = true
				continue
			}
			if !after {
				continue
			}
			switch in.(type) {
			case *ssa.Store, ssa.CallInstruction:
				return -1
			}
		}
		return ci
	}
	return -1
}

// c01VouchedThrough: the flags after the instructions of block b.
func c01VouchedThrough(fi *FnInfo, b *ssa.BasicBlock, flags uint32, cellCalls map[*ssa.Call]int) uint32 {
	for _, in := range b.Instrs {
		switch x := in.(type) {
		case *ssa.Store:
			if ci := fi.cellOfAddr(x.Addr); ci >= 0 {
				flags &^= 1 << uint(ci)
			}
		case ssa.CallInstruction:
			flags = c01Unvouch(fi, x, flags) // (what the call may do to the cells vouched for so far)
			if c, ok := x.(*ssa.Call); ok {
				if ci, ok := cellCalls[c]; ok {
					flags |= 1 << uint(ci)
				}
			}
		}
	}
	return flags
}

func c01Unvouch(fi *FnInfo, c ssa.CallInstruction, flags uint32) uint32 {
	if flags == 0 {
		return 0
	}
	return uint32(fi.clobber(c, uint64(flags))) & flags
}
