package main

// Helpers of the C02 rule set (clauses f, g, h: verification plugins) that separate the ROLES the plugin code plays from
// the function the code happens to be written in:
//
//	L  the function that looks the verification plugin up (it contains the plugin.Manager.Get call),
//	P  the signature-processing function: the lowest function of the verifier package on whose static call tree both the
//	   lookup and the plugin execution (VerifyPlugin.VerifySignature) lie; routing and accounting are decided there.
//
// L and P coincide on the reference tree. When the lookup is extracted into a helper (P calls L), the lookup facts are
// decided on L's own graph and carried to P by three boundary obligations (c02Boundary); values that cross the boundary
// (plugin object, capability list, name) are followed on SSA values through Return -> Extract and Parameter -> argument
// (c02Leaves), never by name.
//
// Third pass (generalisation by class, see the comments at each helper):
//   - "the plugin declares capability X" is a fact with two spellings — asked on the spot (slices.Contains) or kept in a
//     flag set while the declared list is built / scanned (c02Ownership, c02FlagMeaning); the routing rules are stated on
//     the edges on which the fact is known, whichever spelling produced them;
//   - a gate may be decided by a helper the guarded values are handed to (validator with an error result, predicate):
//     the "went well" edge of the call stands for the gate iff the helper answers well only behind the gate
//     (c02SkipGateCut); an effect may sit in a helper, its gates are then the facts on the whole way from the entry of the
//     root function (c18Frame.guards) and a map parameter is as fresh as what every caller hands in (c02FreshMapAt);
//   - obligations are keyed per EVENT, not per printed form of the object (rules_c02.go, c02Gating).

import (
	"fmt"
	"go/constant"
	"go/token"
	"go/types"
	"strings"

	"golang.org/x/tools/go/ssa"
)

const (
	c02GetName    = "invoke:ngo/plugin.Manager.Get"
	c02VerifyName = "invoke:pfw/plugin.VerifyPlugin.VerifySignature"
	c02CapsType   = "[]pfw/plugin.Capability"
)

type c02Roles struct {
	w       *World
	L, P    *ssa.Function
	getCall *ssa.Call   // Manager.Get, in L
	mdCalls []*ssa.Call // GetMetadata invoked on the object Manager.Get returned, in L
	lcall   *ssa.Call   // the call of L in P (nil when L == P)
	fr      *c18Frame   // renders labels of helpers on P's call tree in P's frame
	// edges of P on which "the signature names a verification plugin" is decided (filled by c02Boundary)
	named, unnamed map[edgeKey]bool
	// where L (when L != P) hands back the plugin object, the name, the capability list: a result of L, or a field of a
	// struct-valued result of L (c02Slot); res == -1 if not handed back
	pluginSlot, nameSlot, capsSlot c02Slot
}

// c02Slot: a place in what a function returns — result res itself (field == -1) or field `field` of the struct value
// that is result res. A result object `lookup{name, plugin, caps}` and the three results `name, plugin, caps` carry the
// same three values; the boundary obligations are stated on the values, wherever they travel.
type c02Slot struct{ res, field int }

var c02NoSlot = c02Slot{-1, -1}

func c02IsCapsType(t types.Type) bool {
	return abbrev(types.TypeString(t, nil)) == c02CapsType
}

func c02HasInvoke(fn *ssa.Function, name string) bool {
	for _, ci := range allCalls(fn) {
		if calleeName(ci) == name {
			return true
		}
	}
	return false
}

// c02ReachesExec: the plugin execution (VerifyPlugin.VerifySignature) lies on the static call tree of g.
func c02ReachesExec(w *World, g *ssa.Function) bool {
	if g == nil || g.Blocks == nil || !w.IsProductFn(g) {
		return false
	}
	for _, f := range w.moduleCallees(g) {
		if c02HasInvoke(f, c02VerifyName) {
			return true
		}
	}
	return false
}

// c02FindRoles finds L and P. Undecided when the anchors are ambiguous.
func c02FindRoles(c *Ctx) *c02Roles {
	w := c.W
	ro := &c02Roles{w: w, pluginSlot: c02NoSlot, nameSlot: c02NoSlot, capsSlot: c02NoSlot}
	nGet := 0
	for _, fn := range w.FuncsOfPkg("verifier") {
		for _, ci := range allCalls(fn) {
			if call, ok := ci.(*ssa.Call); ok && calleeName(call) == c02GetName {
				ro.L, ro.getCall = fn, call
				nGet++
			}
		}
	}
	if ro.L == nil {
		c.Unk("plugin/anchor", "anchor: the verifier function that calls plugin.Manager.Get", "-", "no call of plugin.Manager.Get in package verifier")
		return nil
	}
	if nGet > 1 {
		c.Unk("plugin/anchor", "anchor: the verifier function that calls plugin.Manager.Get", w.InstrPos(ro.getCall), fmt.Sprintf("%d calls of plugin.Manager.Get in package verifier: which one looks up the verification plugin is ambiguous", nGet))
		return nil
	}
	// P: lowest function whose call tree holds both the lookup and the plugin execution
	var cands []*ssa.Function
	for _, fn := range w.FuncsOfPkg("verifier") {
		if fn.Parent() != nil || fn.Synthetic != "" {
			continue
		}
		hasL, hasX := false, false
		for _, f := range w.moduleCallees(fn) {
			if f == ro.L {
				hasL = true
			}
			if c02HasInvoke(f, c02VerifyName) {
				hasX = true
			}
		}
		if hasL && hasX {
			cands = append(cands, fn)
		}
	}
	isCand := map[*ssa.Function]bool{}
	for _, f := range cands {
		isCand[f] = true
	}
	var lowest []*ssa.Function
	for _, f := range cands {
		low := true
		for _, g := range w.moduleCallees(f) {
			if g != f && isCand[g] {
				low = false
			}
		}
		if low {
			lowest = append(lowest, f)
		}
	}
	if len(lowest) != 1 {
		c.Unk("plugin/anchor", "anchor: the signature-processing function (the lowest verifier function that both looks the plugin up and executes it)", w.FnPos(ro.L), fmt.Sprintf("%d candidates", len(lowest)))
		return nil
	}
	ro.P = lowest[0]
	ro.fr = newC18Frame(w, ro.P)
	if ro.L != ro.P {
		sites, closed := c05CallSites(w, ro.L)
		if !closed || len(sites) != 1 || sites[0].Parent() != ro.P || len(sites[0].Call.Args) != len(ro.L.Params) {
			c.Unk("plugin/anchor", "anchor: the lookup helper is entered from the signature-processing function by exactly one static call", w.FnPos(ro.L),
				fmt.Sprintf("closed call-site list=%v, sites=%d (a lookup reached through several calls or levels is not followed)", closed, len(sites)))
			return nil
		}
		ro.lcall = sites[0]
	}
	// GetMetadata on the object that was looked up (whatever the static interface type of the variable holding it)
	obj := map[ssa.Value]bool{}
	for _, r := range *ro.getCall.Referrers() {
		if e, ok := r.(*ssa.Extract); ok && e.Index == 0 {
			for v := range c02Conversions(e) {
				obj[v] = true
			}
		}
	}
	for _, ci := range allCalls(ro.L) {
		call, ok := ci.(*ssa.Call)
		if !ok || !call.Call.IsInvoke() || call.Call.Method.Name() != "GetMetadata" {
			continue
		}
		if obj[call.Call.Value] {
			ro.mdCalls = append(ro.mdCalls, call)
		}
	}
	return ro
}

// c02Conversions: v and the interface conversions of v (the same dynamic value under another static type).
func c02Conversions(v ssa.Value) map[ssa.Value]bool {
	out := map[ssa.Value]bool{v: true}
	work := []ssa.Value{v}
	for len(work) > 0 {
		x := work[len(work)-1]
		work = work[:len(work)-1]
		if x.Referrers() == nil {
			continue
		}
		for _, r := range *x.Referrers() {
			switch y := r.(type) {
			case *ssa.ChangeInterface:
				if !out[y] {
					out[y] = true
					work = append(work, y)
				}
			case *ssa.ChangeType:
				if !out[y] {
					out[y] = true
					work = append(work, y)
				}
			}
		}
	}
	return out
}

// c02Unconv strips interface conversions.
func c02Unconv(v ssa.Value) ssa.Value {
	for {
		switch x := v.(type) {
		case *ssa.ChangeInterface:
			v = x.X
		case *ssa.ChangeType:
			v = x.X
		default:
			return v
		}
	}
}

// ---------- values across helper boundaries ---------------------------------------------------------------------------
//
// c02Leaves answers "which values can v be?" without stopping at function boundaries of the module:
//   - a phi is any of its edges;
//   - result k of a static call of a module function is operand k of one of the callee's returns — for a callee whose last
//     result is an error only the returns the gate engine classifies success-capable (next to a provably non-nil error the
//     other results are not used by a caller that fails on that error, which the boundary obligations require);
//   - a parameter of a function with a closed call-site list (unexported, never used as a value) is the argument at one of
//     its static call sites;
//   - a field read of a struct VALUE (a result object `r := lookup(); r.caps`, `lookup().caps`) is what was stored into that
//     field where the struct was built: the struct is a value, not shared memory — a local variable holding it whose
//     address goes nowhere (c02AllocFieldVals) can only change by the stores visible in its function; only a field with a
//     single assignment (to the field, or to the variable as a whole) is followed; a field that is never stored is the
//     zero value.
// Everything else is a leaf. ok=false: the expansion was cut short (depth), the answer is not a complete list.

func c02Leaves(w *World, v ssa.Value) ([]ssa.Value, bool) {
	type fkey struct {
		v ssa.Value
		f int
	}
	seen := map[ssa.Value]bool{}
	seenF := map[fkey]bool{}
	var out []ssa.Value
	ok := true
	var rec func(v ssa.Value, depth int)
	var field func(sv ssa.Value, f int, depth int) bool
	// step: v is a node the value merely travels through; `to` is applied to every value it can come from
	step := func(v ssa.Value, depth int, to func(ssa.Value, int)) bool {
		switch x := v.(type) {
		case *ssa.Phi:
			for _, e := range x.Edges {
				to(e, depth+1)
			}
			return true
		case *ssa.ChangeInterface:
			to(x.X, depth)
			return true
		case *ssa.ChangeType:
			to(x.X, depth)
			return true
		case *ssa.Parameter:
			fn := x.Parent()
			sites, closed := c05CallSites(w, fn)
			idx := -1
			for i, q := range fn.Params {
				if q == x {
					idx = i
				}
			}
			if closed && len(sites) > 0 && idx >= 0 {
				for _, s := range sites {
					if idx >= len(s.Call.Args) {
						ok = false
						return true
					}
					to(s.Call.Args[idx], depth+1)
				}
				return true
			}
		case *ssa.Extract, *ssa.Call:
			call := callOf(v)
			k := 0
			if e, isE := v.(*ssa.Extract); isE {
				k = e.Index
			}
			if call != nil {
				if g := staticCallee(call); g != nil && g.Blocks != nil && w.IsProductFn(g) {
					rets := c02ValueReturns(w, g)
					if c02ReturnsError(g) && !c02ErrChecked(w, call) {
						rets = nil // the caller may go on with what a failing exit delivered: the value stays opaque
					}
					if len(rets) > 0 {
						for _, r := range rets {
							if k >= len(r.Results) {
								ok = false
								return true
							}
							to(r.Results[k], depth+1)
						}
						return true
					}
				}
			}
		}
		return false
	}
	// allocField: field f of the struct variable A
	allocField := func(A *ssa.Alloc, f int, depth int) bool {
		vals, whole, good := c02AllocFieldVals(A, f)
		if !good || len(vals)+len(whole) > 1 {
			// a field assigned in several places (`r := lookup(); r.caps = nil`) is a mutable variable: which assignment a
			// read sees depends on the path, and the union would let a value that was overwritten count as still there
			return false
		}
		for _, x := range vals {
			rec(x, depth+1)
		}
		for _, s := range whole {
			if !field(s, f, depth+1) {
				return false
			}
		}
		if len(vals) == 0 && len(whole) == 0 {
			rec(c02ZeroField(A.Type().Underlying().(*types.Pointer).Elem(), f), depth+1)
		}
		return true
	}
	field = func(sv ssa.Value, f int, depth int) bool {
		if seenF[fkey{sv, f}] {
			return true
		}
		seenF[fkey{sv, f}] = true
		if depth > 12 {
			ok = false
			return true
		}
		switch x := sv.(type) {
		case *ssa.Const:
			if x.Value == nil && c02StructType(x.Type()) != nil {
				rec(c02ZeroField(x.Type(), f), depth+1)
				return true
			}
			return false
		case *ssa.UnOp:
			if A, isA := x.X.(*ssa.Alloc); isA && x.Op == token.MUL && c02StructType(x.Type()) != nil {
				return allocField(A, f, depth)
			}
			return false
		}
		good := true
		if step(sv, depth, func(y ssa.Value, d int) {
			if !field(y, f, d) {
				good = false
			}
		}) {
			return good
		}
		return false
	}
	// ptrField: field f of the object the pointer pv points to, for a field that is only written at construction
	// (c02FieldOnlyBuilt): what the constructor stored, wherever the object was built
	var ptrField func(pv ssa.Value, f int, depth int) bool
	ptrField = func(pv ssa.Value, f int, depth int) bool {
		if seenF[fkey{pv, f}] {
			return true
		}
		seenF[fkey{pv, f}] = true
		if depth > 12 {
			ok = false
			return true
		}
		if A, isA := pv.(*ssa.Alloc); isA {
			vals, whole, good := c02AllocFieldVals2(A, f, true)
			if !good || len(whole) > 0 || len(vals) > 1 {
				return false
			}
			if len(vals) == 1 {
				rec(vals[0], depth+1)
			} else {
				rec(c02ZeroField(A.Type().Underlying().(*types.Pointer).Elem(), f), depth+1)
			}
			return true
		}
		good := true
		if step(pv, depth, func(y ssa.Value, d int) {
			if !ptrField(y, f, d) {
				good = false
			}
		}) {
			return good
		}
		return false
	}
	rec = func(v ssa.Value, depth int) {
		if seen[v] {
			return
		}
		seen[v] = true
		if depth > 12 {
			ok = false
			return
		}
		if step(v, depth, rec) {
			return
		}
		// a field read of a struct value: opened if every struct it can be read from can be; otherwise the read is a leaf
		try := func(open func() bool) bool {
			saved := out
			out = nil
			if open() {
				out = append(saved, out...)
				return true
			}
			out = saved
			return false
		}
		switch x := v.(type) {
		case *ssa.Field:
			if try(func() bool { return field(x.X, x.Field, depth) }) {
				return
			}
		case *ssa.UnOp:
			if fa, isFa := x.X.(*ssa.FieldAddr); isFa && x.Op == token.MUL {
				if A, isA := fa.X.(*ssa.Alloc); isA {
					if try(func() bool { return allocField(A, fa.Field, depth) }) {
						return
					}
				}
				if c02FieldOnlyBuilt(w, fa.X.Type(), fa.Field) {
					if try(func() bool { return ptrField(fa.X, fa.Field, depth) }) {
						return
					}
				}
			}
		}
		out = append(out, v)
	}
	rec(v, 0)
	return out, ok
}

// c02StructType: the struct type under t (a struct VALUE, not a pointer to one), nil if t is none.
func c02StructType(t types.Type) *types.Struct {
	st, _ := t.Underlying().(*types.Struct)
	return st
}

var c02ZeroMemo = map[*types.Var]*ssa.Const{}

// c02ZeroField: the zero value of field f of struct type t, as a constant (one per field: values are compared by identity).
func c02ZeroField(t types.Type, f int) ssa.Value {
	fv := c02StructType(t).Field(f)
	if k, ok := c02ZeroMemo[fv]; ok {
		return k
	}
	var k *ssa.Const
	if b, ok := fv.Type().Underlying().(*types.Basic); ok {
		switch {
		case b.Info()&types.IsString != 0:
			k = ssa.NewConst(constant.MakeString(""), fv.Type())
		case b.Info()&types.IsBoolean != 0:
			k = ssa.NewConst(constant.MakeBool(false), fv.Type())
		case b.Info()&types.IsNumeric != 0:
			k = ssa.NewConst(constant.MakeInt64(0), fv.Type())
		}
	}
	if k == nil {
		k = ssa.NewConst(nil, fv.Type())
	}
	c02ZeroMemo[fv] = k
	return k
}

// c02AllocFieldVals: A is a variable of struct type (a composite literal under construction, a local that holds a result
// object). Returns the values stored into its field f, the struct values stored into A as a whole, and good=false if A can
// change in a way the two lists do not show: its address, or the address of field f, goes anywhere but into a load or a
// store (call argument, closure, stored pointer, returned pointer).
func c02AllocFieldVals(A *ssa.Alloc, f int) (vals, whole []ssa.Value, good bool) {
	return c02AllocFieldVals2(A, f, false)
}

// c02AllocFieldVals2 with handedOn: the object may also be returned (a result object handed back by pointer). What the
// receiver does with it is not this function's business: the callers pair this with c02FieldOnlyBuilt (no code of the
// module stores into that field of an object it did not just allocate).
func c02AllocFieldVals2(A *ssa.Alloc, f int, handedOn bool) (vals, whole []ssa.Value, good bool) {
	pt, ok := A.Type().Underlying().(*types.Pointer)
	if !ok || c02StructType(pt.Elem()) == nil || A.Referrers() == nil {
		return nil, nil, false
	}
	// fifth pass: handed on also covers the object handed DOWN, as an argument of a call (an options object built by the
	// caller, `f(&opts{…})`): under c02FieldOnlyBuilt the callee cannot write the field; what it reads is what was stored
	// before the call, so every store to the field must come before every such call
	var fstores []*ssa.Store
	var handed []*ssa.Call
	defer func() {
		for _, c := range handed {
			for _, st := range fstores {
				if !c02InstrDominates(st, c) {
					vals, whole, good = nil, nil, false
				}
			}
		}
	}()
	for _, r := range *A.Referrers() {
		switch x := r.(type) {
		case *ssa.Call:
			if !handedOn || x.Call.Value == ssa.Value(A) {
				return nil, nil, false
			}
			handed = append(handed, x)
		case *ssa.FieldAddr:
			if x.Field != f || x.Referrers() == nil {
				continue // the address of another field gives no access to this one
			}
			for _, rr := range *x.Referrers() {
				switch y := rr.(type) {
				case *ssa.Store:
					if y.Addr != ssa.Value(x) {
						return nil, nil, false
					}
					vals = append(vals, y.Val)
					fstores = append(fstores, y)
				case *ssa.UnOp:
					if y.Op != token.MUL {
						return nil, nil, false
					}
				case *ssa.DebugRef:
				default:
					return nil, nil, false
				}
			}
		case *ssa.Store:
			if x.Addr != ssa.Value(A) {
				return nil, nil, false
			}
			whole = append(whole, x.Val)
		case *ssa.UnOp:
			if x.Op != token.MUL {
				return nil, nil, false
			}
		case *ssa.DebugRef:
		case *ssa.Return:
			if !handedOn {
				return nil, nil, false
			}
		default:
			return nil, nil, false
		}
	}
	return vals, whole, true
}

// c02PtrStruct: t is a pointer to a struct type of the module; returns the struct.
func c02PtrStruct(t types.Type) *types.Struct {
	pt, ok := t.Underlying().(*types.Pointer)
	if !ok {
		return nil
	}
	if n, isN := pt.Elem().(*types.Named); !isN || n.Obj().Pkg() == nil || !strings.HasPrefix(n.Obj().Pkg().Path(), modPath) {
		return nil
	}
	return c02StructType(pt.Elem())
}

var c02OnlyBuiltMemo = map[*types.Var]bool{}

// c02FieldOnlyBuilt: field f of the struct type pointed to by t is written nowhere in the module except into an object the
// writing function has just allocated itself (a composite literal, `r := new(T); r.f = …`), and the type is unexported (no
// other module can name the field): an object of that type that has left its constructor is, as far as field f goes,
// immutable — every later read of p.f sees what the constructor stored.
func c02FieldOnlyBuilt(w *World, t types.Type, f int) bool {
	st := c02PtrStruct(t)
	if st == nil || f >= st.NumFields() {
		return false
	}
	fv := st.Field(f)
	if r, ok := c02OnlyBuiltMemo[fv]; ok {
		return r
	}
	ok := !fv.Exported() || !t.Underlying().(*types.Pointer).Elem().(*types.Named).Obj().Exported()
	for _, fn := range w.Funcs {
		for _, b := range fn.Blocks {
			for _, in := range b.Instrs {
				fa, isFa := in.(*ssa.FieldAddr)
				if !isFa || fa.Field != f || c02PtrStruct(fa.X.Type()) != st || fa.Referrers() == nil {
					continue
				}
				for _, r := range *fa.Referrers() {
					switch y := r.(type) {
					case *ssa.UnOp, *ssa.DebugRef:
					case *ssa.Store:
						if _, fresh := fa.X.(*ssa.Alloc); !fresh || y.Addr != ssa.Value(fa) {
							ok = false
						}
					default:
						ok = false // the address of the field goes somewhere
					}
				}
			}
		}
	}
	c02OnlyBuiltMemo[fv] = ok
	return ok
}

func c02ReturnsError(g *ssa.Function) bool {
	res := g.Signature.Results()
	return res.Len() > 0 && isErrorType(res.At(res.Len()-1).Type())
}

var c02ErrCheckedMemo = map[*ssa.Call]bool{}

// c02ErrChecked: every exit of the caller that is reachable behind the call passes the `err == nil` edge of the call's
// error result (or returns that error): the caller does not go on with the other results of a failed call.
func c02ErrChecked(w *World, call *ssa.Call) bool {
	if r, ok := c02ErrCheckedMemo[call]; ok {
		return r
	}
	fi := w.Info(call.Parent())
	s := fi.summarizeFrom(Mode{Kind: mErr}, []state{{call.Block().Index, 0, -1}}, nil)
	ok := len(s.Exits) > 0
	want := "EQ(" + descTailErr(call) + ",nil)"
	for _, ex := range s.Exits {
		if _, h := ex.Checked[want]; !h {
			ok = false
		}
	}
	c02ErrCheckedMemo[call] = ok
	return ok
}

// c02ValueReturns: the returns of g that can deliver values to a caller that goes on.
func c02ValueReturns(w *World, g *ssa.Function) []*ssa.Return {
	var out []*ssa.Return
	res := g.Signature.Results()
	if n := res.Len(); n > 0 && isErrorType(res.At(n-1).Type()) {
		s := w.Summarize(g, Mode{Kind: mErr})
		if s == nil || !s.Complete {
			return nil
		}
		seen := map[*ssa.Return]bool{}
		for _, ex := range s.Exits {
			if !seen[ex.Ret] {
				seen[ex.Ret] = true
				out = append(out, ex.Ret)
			}
		}
		return out
	}
	for _, b := range g.Blocks {
		if r, ok := blockTerm(b).(*ssa.Return); ok {
			out = append(out, r)
		}
	}
	return out
}

// c02AppendCall: v is a call of the builtin append with an explicit element list.
func c02AppendCall(v ssa.Value) *ssa.Call {
	call, ok := v.(*ssa.Call)
	if !ok {
		return nil
	}
	if bi, ok := call.Call.Value.(*ssa.Builtin); !ok || bi.Name() != "append" || len(call.Call.Args) != 2 {
		return nil
	}
	return call
}

// c02EmptyList: v is a list without elements: the nil constant, `make([]T, 0, n)` or `x[:0]` (pre-sized or recycled
// storage: append onto it never reads what the storage held).
func c02EmptyList(v ssa.Value) bool {
	isZero := func(x ssa.Value) bool {
		k, ok := x.(*ssa.Const)
		return ok && k.Value != nil && k.Value.ExactString() == "0"
	}
	switch x := v.(type) {
	case *ssa.Const:
		return x.IsNil()
	case *ssa.MakeSlice:
		return isZero(x.Len)
	case *ssa.Slice:
		return x.High != nil && isZero(x.High) && (x.Low == nil || isZero(x.Low))
	}
	return false
}

// c02ElemBase: v is a load of an element of a slice; returns the slice.
func c02ElemBase(v ssa.Value) ssa.Value {
	switch x := v.(type) {
	case *ssa.UnOp:
		if x.Op == token.MUL {
			if ia, ok := x.X.(*ssa.IndexAddr); ok {
				return ia.X
			}
		}
	case *ssa.Index:
		return x.X
	}
	return nil
}

// ---------- the lookup boundary ----------------------------------------------------------------------------------------

// c02NilTest: cond (through negations) compares a value of vals with nil / with ""; reports what the edge `truth` says.
func c02EdgeSays(cond ssa.Value, truth bool, vals map[ssa.Value]bool, empty func(ssa.Value) bool) (isEmpty, ok bool) {
	for {
		u, isU := cond.(*ssa.UnOp)
		if !isU || u.Op != token.NOT {
			break
		}
		truth = !truth
		cond = u.X
	}
	bo, isB := cond.(*ssa.BinOp)
	if !isB || (bo.Op != token.EQL && bo.Op != token.NEQ) {
		return false, false
	}
	var o ssa.Value
	if empty(bo.Y) {
		o = bo.X
	} else if empty(bo.X) {
		o = bo.Y
	}
	if o == nil || !vals[o] {
		return false, false
	}
	return (bo.Op == token.EQL) == truth, true
}

func c02IsEmptyString(v ssa.Value) bool {
	k, ok := v.(*ssa.Const)
	return ok && k.Value != nil && constString(k) == `""`
}

// c02ExitResults: the operands of a success-capable exit. The engine splits a return whose operand is a phi of the return
// block by incoming edge (ExitSum.Pred): on that exit the phi IS the value of that edge — the single `return name, p, caps, nil`
// behind `if name != "" {…}` is two exits, one per side.
func c02ExitResults(ex *ExitSum) []ssa.Value {
	out := make([]ssa.Value, len(ex.Ret.Results))
	for i, v := range ex.Ret.Results {
		if p, ok := v.(*ssa.Phi); ok && p.Block() == ex.Ret.Block() && ex.Pred >= 0 && ex.Pred < len(p.Edges) {
			v = p.Edges[ex.Pred]
		}
		out[i] = v
	}
	return out
}

// c02Boundary establishes the edge sets "a plugin is named" / "no plugin is named" of P.
//
// L == P: the edges that compare the name handed to Manager.Get with "".
//
// L != P (the lookup is a helper, P calls it once): P cannot see the name test; it sees what the helper hands back. Three
// obligations make the helper's answer mean the same as the name test:
//
//	plugin/lookup-error    every success-capable exit of P after the call passes err == nil of the call: a lookup that
//	                       failed fails the verification (all the fail-closed gates decided inside L reach P only so);
//	plugin/lookup-results  every success-capable exit of L is either on the name == "" side of the name test and returns
//	                       the nil plugin object and the nil capability list, or on the name != "" side and returns the
//	                       object Manager.Get returned, on which GetMetadata has been invoked on every path to the exit
//	                       (an invoke on a nil interface does not return: the object is not nil), and the name itself;
//	(plugin/* gates)       are required on the exits of L with the name == "" edges removed, as they are on P when L == P.
//
// Given these, `plugin != nil` in P holds exactly on the executions on which the signature names a plugin, and
// `name != ""` on the handed-back name likewise; the edges of P testing those two SSA values (the Extracts of the call)
// are the precondition edges.
func c02Boundary(c *Ctx, ro *c02Roles) bool {
	w := c.W
	nameV := ro.getCall.Call.Args[1]
	lfi := w.Info(ro.L)
	// the edges / facts that decide the clause: tests of the name, or of the reader's error where that decides the name
	// (c02NameFacts)
	nf := c02NameFactsOf(ro)
	if ro.L == ro.P {
		ro.named = nf.namedEdges(lfi)
		ro.unnamed = nf.unnamedEdges(lfi)
		return true
	}
	pfi := w.Info(ro.P)
	// the helper cut inside the name test: it is entered with a plugin named only (c02NamedEntry)
	entry := c02NamedEntry(ro)
	// lookup-error
	sx := pfi.summarizeFrom(Mode{Kind: mErr}, []state{{ro.lcall.Block().Index, 0, -1}}, nil)
	c.Evals += sx.States
	c.requireOnExits("plugin", ro.P, sx.Exits, []Need{
		{Name: "lookup-error", What: "the plugin lookup helper returned err == nil", Subs: []string{"EQ(" + descTailErr(ro.lcall) + ",nil)"}},
	})
	// lookup-results
	rule := "boundary: every success-capable exit of the lookup helper is either on the name == \"\" side and returns a nil plugin object and no capabilities, or on the name != \"\" side and returns the object Manager.Get returned (on which GetMetadata was invoked) and the name"
	s := w.Summarize(ro.L, Mode{Kind: mErr})
	c.Evals += s.States
	if !s.Complete || len(s.Exits) == 0 {
		c.Unk("plugin/lookup-results", rule, w.FnPos(ro.L), "the lookup helper has no success-capable exit the engine can summarise")
		return false
	}
	getObj := map[ssa.Value]bool{}
	for _, r := range *ro.getCall.Referrers() {
		if e, ok := r.(*ssa.Extract); ok && e.Index == 0 {
			getObj[e] = true
		}
	}
	// the places in which L can hand something back: its results and the fields of its struct-valued results
	res := ro.L.Signature.Results()
	var slots []c02Slot
	slotType := map[c02Slot]types.Type{}
	for k := 0; k < res.Len(); k++ {
		slots = append(slots, c02Slot{k, -1})
		slotType[c02Slot{k, -1}] = res.At(k).Type()
		st := c02StructType(res.At(k).Type())
		if st == nil {
			st = c02PtrStruct(res.At(k).Type()) // a result object handed back by pointer
		}
		if st != nil {
			for f := 0; f < st.NumFields(); f++ {
				slots = append(slots, c02Slot{k, f})
				slotType[c02Slot{k, f}] = st.Field(f).Type()
			}
		}
	}
	for _, sl := range slots {
		if c02IsCapsType(slotType[sl]) {
			if ro.capsSlot.res >= 0 {
				c.Unk("plugin/lookup-results", rule, w.FnPos(ro.L), "the lookup helper returns two capability lists")
				return false
			}
			ro.capsSlot = sl
		}
	}
	type side struct {
		ex    *ExitSum
		named bool
		vals  map[c02Slot]ssa.Value // what the exit delivers in each slot (nil: cannot be told)
	}
	var sides []side
	for _, ex := range s.Exits {
		n, u := false, false
		for l := range ex.Checked {
			n = n || nf.named(l)
			u = u || nf.unnamed(l)
		}
		if entry != nil {
			// L does not test the name and runs only where P has found it non-empty: every exit is a "plugin named" exit
			n, u = true, false
		}
		if n == u {
			c.Bad("plugin/lookup-results", rule, w.InstrPos(ex.Ret), "this success-capable exit of the lookup helper is not decided by the test of the plugin name against \"\"; facts: "+summarizeLabels(ex.Checked, 8))
			return false
		}
		rs := c02ExitResults(ex)
		vals := map[c02Slot]ssa.Value{}
		for _, sl := range slots {
			vals[sl] = c02SlotValue(w, rs, sl, ex.Ret)
		}
		sides = append(sides, side{ex, n, vals})
	}
	show := func(v ssa.Value) string {
		if v == nil {
			return "a value that cannot be told (the result object is not built in one place)"
		}
		return desc(v)
	}
	// the slot that carries the plugin object / the name: read off the named exits
	nameCand := map[c02Slot]int{}
	nN := 0
	for _, sd := range sides {
		if !sd.named {
			continue
		}
		nN++
		for _, sl := range slots {
			r := sd.vals[sl]
			if r == nil {
				continue
			}
			if getObj[c02Unconv(r)] {
				if ro.pluginSlot.res >= 0 && ro.pluginSlot != sl {
					c.Bad("plugin/lookup-results", rule, w.InstrPos(sd.ex.Ret), "the looked-up object is handed back in two places")
					return false
				}
				ro.pluginSlot = sl
			}
			if r == nameV {
				nameCand[sl]++
			}
		}
	}
	for _, sl := range slots { // in declaration order: the first slot that carries the name on every named exit
		if nameCand[sl] == nN && nN > 0 && ro.nameSlot.res < 0 {
			ro.nameSlot = sl
		}
	}
	if ro.pluginSlot.res < 0 {
		c.Bad("plugin/lookup-results", rule, w.FnPos(ro.L), "no exit of the lookup helper on the name != \"\" side hands back the object Manager.Get returned")
		return false
	}
	nNamed, nUnnamed := 0, 0
	for _, sd := range sides {
		pv := sd.vals[ro.pluginSlot]
		var nv, cv ssa.Value
		if ro.nameSlot.res >= 0 {
			nv = sd.vals[ro.nameSlot]
		}
		if ro.capsSlot.res >= 0 {
			cv = sd.vals[ro.capsSlot]
		}
		if sd.named {
			nNamed++
			if pv == nil || !getObj[c02Unconv(pv)] {
				c.Bad("plugin/lookup-results", rule, w.InstrPos(sd.ex.Ret), "with a plugin named the helper hands back "+show(pv)+" instead of the object Manager.Get returned: the plugin named by the signature would not take part in the verification")
				return false
			}
			invoked := false
			for _, md := range ro.mdCalls {
				if _, h := hasLabel(sd.ex.Checked, "("+desc(md)+"#err,nil)"); h {
					invoked = true
				}
			}
			if !invoked {
				c.Bad("plugin/lookup-results", rule, w.InstrPos(sd.ex.Ret), "with a plugin named the object handed back is not known to be non-nil (no GetMetadata invoked on it on every path to this exit)")
				return false
			}
			if ro.nameSlot.res >= 0 && nv != nameV {
				c.Bad("plugin/lookup-results", rule, w.InstrPos(sd.ex.Ret), "with a plugin named the helper hands back a name other than the one it looked up: "+show(nv))
				return false
			}
		} else {
			nUnnamed++
			if pv == nil || !isNilConst(pv) {
				c.Bad("plugin/lookup-results", rule, w.InstrPos(sd.ex.Ret), "without a plugin named the helper hands back a plugin object that is not the nil constant: "+show(pv))
				return false
			}
			if ro.capsSlot.res >= 0 && (cv == nil || !isNilConst(cv)) {
				c.Bad("plugin/lookup-results", rule, w.InstrPos(sd.ex.Ret), "without a plugin named the helper hands back a capability list that is not the nil constant (native checks would be routed away to nobody): "+show(cv))
				return false
			}
			if ro.nameSlot.res >= 0 && nv != nameV && (nv == nil || !c02IsEmptyString(nv)) {
				c.Bad("plugin/lookup-results", rule, w.InstrPos(sd.ex.Ret), "without a plugin named the helper hands back a name that is not \"\": "+show(nv))
				return false
			}
		}
	}
	if nNamed == 0 {
		c.Bad("plugin/lookup-results", rule, w.FnPos(ro.L), "the lookup helper has no success-capable exit on the name != \"\" side")
		return false
	}
	c.OK("plugin/lookup-results", rule, w.FnPos(ro.L))
	if entry != nil {
		// the precondition edges of P are the tests of the name P hands in, as on the reference tree
		ro.named, ro.unnamed = entry.named, entry.unnamed
		return true
	}
	// the precondition edges of P: tests of the handed-back plugin object against nil, of the handed-back name against ""
	plug, name := map[ssa.Value]bool{}, map[ssa.Value]bool{}
	for v := range c02SlotReaders(w, ro.lcall, ro.pluginSlot) {
		for x := range c02Conversions(v) {
			plug[x] = true
		}
	}
	for v := range c02SlotReaders(w, ro.lcall, ro.nameSlot) {
		name[v] = true
	}
	ro.named, ro.unnamed = map[edgeKey]bool{}, map[edgeKey]bool{}
	for _, b := range ro.P.Blocks {
		iff, ok := blockTerm(b).(*ssa.If)
		if !ok || len(b.Succs) != 2 {
			continue
		}
		for j := 0; j < 2; j++ {
			empty, ok := c02EdgeSays(iff.Cond, j == 0, plug, isNilConst)
			if !ok {
				empty, ok = c02EdgeSays(iff.Cond, j == 0, name, c02IsEmptyString)
			}
			if !ok {
				continue
			}
			if empty {
				ro.unnamed[edgeKey{b.Index, j}] = true
			} else {
				ro.named[edgeKey{b.Index, j}] = true
			}
		}
	}
	return true
}

// ---------- the lookup helper cut INSIDE the name test (fourth pass) -----------------------------------------------------
//
// "Extract helper" has a whole class of cuts. The boundary above follows the cut AROUND the name test (`if name != "" {…}`
// moves into L together with its test: L answers for both sides and P reads the side off what L hands back). The other
// natural cut is the BODY of the named branch: the test stays in P, L is only ever entered on its true side and has no
// "no plugin named" side at all:
//
//	P:  name, err := getVerificationPlugin(…)            L(name, …):  minVersion, manager nil, Manager.Get(name), GetMetadata,
//	    var plugin VerifyPlugin; var caps []Capability                 semver, min version, filter, len(caps) == 0
//	    if name != "" { plugin, caps, err = L(name, …); if err != nil { return err } }
//
// c02NamedEntry recognises that cut by what makes it mean the same as the reference:
//   - the name L hands to Manager.Get is L's own parameter (the SSA value, through conversions) and L itself does not test it
//     against "" (a helper that tests it again is the other cut and is decided there);
//   - in P, the argument a in that position is tested against "" and, once the edges `a != ""` are removed, the call of L is
//     out of reach: L runs exactly under "the signature names a plugin", spelled on the caller's value. The engine's own
//     composition rule (a callee's parameter IS the caller's argument) makes every fact all success exits of L pass a fact of
//     every success of P through the call's `err == nil` edge (plugin/lookup-error), i.e. of every success with a plugin
//     named: the clause as stated on the reference tree. With no plugin named L does not run and nothing of L applies, as on
//     the reference tree nothing of the `if` body applies.
//
// The precondition edges of P are then the tests of a against "" themselves — the very edges the reference tree has — and
// every success-capable exit of L is a "plugin named" exit (plugin/lookup-results requires of each what it requires of the
// named exits of the other cut: the object of Manager.Get, with GetMetadata invoked on it, is what is handed back).
// What P holds on the unnamed side (the zero plugin variable, the nil list) is P's own code and is judged by the routing
// rules on P's graph (routing/declared-capabilities enumerates every value the routed list can be, on both sides).
type c02Entry struct {
	arg            ssa.Value        // what P hands in as the name
	named, unnamed map[edgeKey]bool // edges of P: arg != "" / arg == ""
}

func c02NamedEntry(ro *c02Roles) *c02Entry {
	if ro.L == ro.P || ro.lcall == nil {
		return nil
	}
	w := ro.w
	nameV := ro.getCall.Call.Args[1]
	par, ok := c02Unconv(nameV).(*ssa.Parameter)
	if !ok || par.Parent() != ro.L {
		return nil
	}
	idx := -1
	for i, q := range ro.L.Params {
		if q == par {
			idx = i
		}
	}
	if idx < 0 || idx >= len(ro.lcall.Call.Args) {
		return nil
	}
	// L does not decide the name itself (neither by label nor on the value)
	nameD := desc(nameV)
	lfi := w.Info(ro.L)
	if len(lfi.edgesMatching(func(l string, _ *ssa.If, _ bool) bool {
		return l == "NE("+nameD+`,const:"")` || l == "EQ("+nameD+`,const:"")`
	})) > 0 {
		return nil
	}
	own := c02Conversions(par)
	for _, b := range ro.L.Blocks {
		if iff, isIf := blockTerm(b).(*ssa.If); isIf {
			if _, says := c02EdgeSays(iff.Cond, true, own, c02IsEmptyString); says {
				return nil
			}
		}
	}
	en := &c02Entry{arg: ro.lcall.Call.Args[idx], named: map[edgeKey]bool{}, unnamed: map[edgeKey]bool{}}
	argD := desc(en.arg)
	pfi := w.Info(ro.P)
	// by label (the engine's normal forms of the test: `len(a) > 0`, `a == ""` with the sides swapped, …) when a is a value
	// in its own right; a value read from memory is only matched as the very SSA value that is handed in (two reads of one
	// place print alike and need not be equal)
	if ld, isLoad := c02Unconv(en.arg).(*ssa.UnOp); !isLoad || ld.Op != token.MUL {
		en.named = pfi.edgesMatching(func(l string, _ *ssa.If, _ bool) bool { return l == "NE("+argD+`,const:"")` })
		en.unnamed = pfi.edgesMatching(func(l string, _ *ssa.If, _ bool) bool { return l == "EQ("+argD+`,const:"")` })
	}
	vals := c02Conversions(c02Unconv(en.arg))
	for _, b := range ro.P.Blocks {
		iff, isIf := blockTerm(b).(*ssa.If)
		if !isIf || len(b.Succs) != 2 {
			continue
		}
		for j := 0; j < 2; j++ {
			if empty, says := c02EdgeSays(iff.Cond, j == 0, vals, c02IsEmptyString); says {
				if empty {
					en.unnamed[edgeKey{b.Index, j}] = true
				} else {
					en.named[edgeKey{b.Index, j}] = true
				}
			}
		}
	}
	if len(en.named) == 0 || ro.lcall.Block().Index == 0 || pfi.reachHit(entryState(), en.named, blocksOf(ro.lcall)) {
		return nil // L can be entered without the name having been found non-empty: not this cut
	}
	return en
}

// c02SlotValue: what the exit ret, with the operands rs, delivers in the slot; nil if that cannot be told.
func c02SlotValue(w *World, rs []ssa.Value, sl c02Slot, ret *ssa.Return) ssa.Value {
	if sl.res < 0 || sl.res >= len(rs) {
		return nil
	}
	if sl.field < 0 {
		return rs[sl.res]
	}
	return c02BuiltField(w, rs[sl.res], sl.field, ret, 0)
}

// c02BuiltField: field f of the struct value sv (or of the object sv points to) as read at the instruction `at`, when the
// value is known exactly: the zero struct constant (every field is zero), or the content of a variable that is read AFTER
// its only assignment to that field — one store to the field (or one store of a whole struct, opened in turn) that
// dominates the read, no other store to it, the address going nowhere (c02AllocFieldVals); a field never stored is zero. A
// variable assigned on some paths only (`if … { r.plugin = p }`) has no dominating store and is not followed: nil.
// For an object handed back by pointer (`return &lookup{…}, nil`) the same, with `at` the return, for a field that no code
// of the module writes after construction (c02FieldOnlyBuilt): what the return delivers is what every later read sees.
func c02BuiltField(w *World, sv ssa.Value, f int, at ssa.Instruction, depth int) ssa.Value {
	if depth > 4 {
		return nil
	}
	switch x := sv.(type) {
	case *ssa.Const:
		if x.Value == nil && c02StructType(x.Type()) != nil {
			return c02ZeroField(x.Type(), f)
		}
	case *ssa.Alloc:
		if c02PtrStruct(x.Type()) == nil || !c02FieldOnlyBuilt(w, x.Type(), f) {
			return nil
		}
		vals, whole, good := c02AllocFieldVals2(x, f, true)
		if !good || len(whole) > 0 || len(vals) > 1 {
			return nil
		}
		if len(vals) == 0 {
			return c02ZeroField(x.Type().Underlying().(*types.Pointer).Elem(), f)
		}
		if st := c02FieldStore(x, f); st == nil || !c02InstrDominates(st, at) {
			return nil
		}
		return vals[0]
	case *ssa.UnOp:
		A, isA := x.X.(*ssa.Alloc)
		if !isA || x.Op != token.MUL || c02StructType(x.Type()) == nil {
			return nil
		}
		vals, whole, good := c02AllocFieldVals(A, f)
		if !good || len(vals)+len(whole) > 1 {
			return nil
		}
		if len(vals)+len(whole) == 0 {
			return c02ZeroField(x.Type(), f)
		}
		st := c02FieldStore(A, f)
		if st == nil || !c02InstrDominates(st, x) {
			return nil
		}
		if len(vals) == 1 {
			return vals[0]
		}
		return c02BuiltField(w, whole[0], f, st, depth+1)
	}
	return nil
}

// c02FieldStore: the single store that assigns field f of A (to the field, or to A as a whole); nil if there are several.
func c02FieldStore(A *ssa.Alloc, f int) *ssa.Store {
	var out *ssa.Store
	n := 0
	for _, r := range *A.Referrers() {
		switch x := r.(type) {
		case *ssa.Store:
			if x.Addr == ssa.Value(A) {
				out = x
				n++
			}
		case *ssa.FieldAddr:
			if x.Field != f || x.Referrers() == nil {
				continue
			}
			for _, rr := range *x.Referrers() {
				if st, ok := rr.(*ssa.Store); ok && st.Addr == ssa.Value(x) {
					out = st
					n++
				}
			}
		}
	}
	if n != 1 {
		return nil
	}
	return out
}

// c02InstrDominates: a is executed before b on every path to b.
func c02InstrDominates(a, b ssa.Instruction) bool {
	if a.Block() == b.Block() {
		return instrIndex(a) < instrIndex(b)
	}
	return a.Block().Dominates(b.Block())
}

// c02SlotReaders: the values of the caller that ARE what the call hands back in the slot: the Extract of the result, or —
// for a field of a result object — the reads of that field: `call().f`, or `r.f` for a variable r that holds the object
// (assigned once, from this call, before the read; never assigned field-wise; its address going nowhere), or `r.f` for
// the pointer r the call returned.
func c02SlotReaders(w *World, call *ssa.Call, sl c02Slot) map[ssa.Value]bool {
	out := map[ssa.Value]bool{}
	if sl.res < 0 || call.Referrers() == nil {
		return out
	}
	for _, r := range *call.Referrers() {
		e, ok := r.(*ssa.Extract)
		if !ok || e.Index != sl.res {
			continue
		}
		if sl.field < 0 {
			out[e] = true
			continue
		}
		if e.Referrers() == nil {
			continue
		}
		for _, u := range *e.Referrers() {
			switch x := u.(type) {
			case *ssa.Field:
				if x.X == ssa.Value(e) && x.Field == sl.field {
					out[x] = true
				}
			case *ssa.FieldAddr:
				// the object came by pointer: `r.f` reads the field of the very object the helper built, which nobody
				// writes after construction
				if x.X != ssa.Value(e) || x.Field != sl.field || x.Referrers() == nil || !c02FieldOnlyBuilt(w, e.Type(), sl.field) {
					continue
				}
				for _, rr := range *x.Referrers() {
					if ld, isLd := rr.(*ssa.UnOp); isLd && ld.Op == token.MUL {
						out[ld] = true
					}
				}
			case *ssa.Store:
				A, isA := x.Addr.(*ssa.Alloc)
				if !isA || x.Val != ssa.Value(e) {
					continue
				}
				vals, whole, good := c02AllocFieldVals(A, sl.field)
				if !good || len(vals) != 0 || len(whole) != 1 {
					continue
				}
				for _, ar := range *A.Referrers() {
					fa, isFa := ar.(*ssa.FieldAddr)
					if !isFa || fa.Field != sl.field || fa.Referrers() == nil {
						continue
					}
					for _, rr := range *fa.Referrers() {
						if ld, isLd := rr.(*ssa.UnOp); isLd && ld.Op == token.MUL && c02InstrDominates(x, ld) {
							out[ld] = true
						}
					}
				}
			}
		}
	}
	return out
}

// ---------- labels of helpers in P's frame -----------------------------------------------------------------------------

// c02Lift: an edge selector over the graph of f whose labels are first rendered in P's frame (the helper's parameters
// replaced by the arguments of its single call site on P's tree — what the engine does when it composes summaries).
func (ro *c02Roles) lift(f *ssa.Function, sel EdgeSel) EdgeSel {
	return func(l string, iff *ssa.If, truth bool) bool {
		return sel(ro.fr.str(f, l), iff, truth)
	}
}

// ---------- capability lists -------------------------------------------------------------------------------------------

type c02Lists struct {
	ro     *c02Roles
	rv, ti string // the two verification capability constants
	seen   map[*ssa.Call]bool
	nApp   int
	why    string
}

// declared: every value the list can be is nil or was built by appending, onto such a list, elements of
// <GetMetadata response of the looked-up plugin>.Capabilities that passed `== revocation || == trusted identity`.
func (x *c02Lists) declared(v ssa.Value) bool {
	w := x.ro.w
	leaves, ok := c02Leaves(w, v)
	if !ok {
		x.why = "the origins of " + desc(v) + " could not be enumerated"
		return false
	}
	for _, leaf := range leaves {
		if c02EmptyList(leaf) {
			continue
		}
		a := c02AppendCall(leaf)
		if a == nil {
			x.why = "the list can be " + desc(leaf) + " (" + w.FnPos(leafFn(leaf)) + "), which is not built by filtering metadata.Capabilities"
			return false
		}
		if x.seen[a] {
			continue
		}
		x.seen[a] = true
		elems := appendedElems(a.Call.Args[1])
		if len(elems) == 0 {
			x.why = "append of a whole list at " + w.InstrPos(a)
			return false
		}
		for _, e := range elems {
			if !x.filteredMetadataCap(a, e) {
				return false
			}
		}
		if !x.declared(a.Call.Args[0]) {
			return false
		}
		x.nApp++
	}
	return true
}

func leafFn(v ssa.Value) *ssa.Function {
	if v.Parent() != nil {
		return v.Parent()
	}
	return nil
}

// filteredMetadataCap: e, appended by a, is an element of metadata.Capabilities of the looked-up plugin and the append is
// reachable only through `e == revocation` or `e == trusted identity`.
func (x *c02Lists) filteredMetadataCap(a *ssa.Call, e ssa.Value) bool {
	w := x.ro.w
	f := a.Parent()
	base := c02ElemBase(e)
	if base == nil {
		x.why = "appended element " + desc(e) + " is not an element of a list"
		return false
	}
	leaves, ok := c02Leaves(w, base)
	if !ok || len(leaves) == 0 {
		x.why = "the origins of " + desc(base) + " could not be enumerated"
		return false
	}
	for _, leaf := range leaves {
		u, isLoad := leaf.(*ssa.UnOp)
		good := false
		if isLoad && u.Op == token.MUL {
			if fa, isFa := u.X.(*ssa.FieldAddr); isFa && fieldName(fa.X.Type(), fa.Field) == "Capabilities" {
				if ex, isEx := fa.X.(*ssa.Extract); isEx && ex.Index == 0 {
					for _, md := range x.ro.mdCalls {
						if ex.Tuple == ssa.Value(md) {
							good = true
						}
					}
				}
			}
		}
		if !good {
			x.why = "the filtered list is " + desc(leaf) + ", not the Capabilities of the GetMetadata response of the plugin that was looked up"
			return false
		}
	}
	fi := w.Info(f)
	d := desc(e)
	// both capabilities are tested for (each by at least one edge — the same element may be compared again further on, to
	// set a flag, say) and with every such edge removed the append is out of reach
	cutRV := fi.edgesMatching(func(l string, _ *ssa.If, _ bool) bool { return l == "EQ("+d+fmt.Sprintf(",const:%q)", x.rv) })
	cut := fi.edgesMatching(func(l string, _ *ssa.If, _ bool) bool { return l == "EQ("+d+fmt.Sprintf(",const:%q)", x.ti) })
	nTI := len(cut)
	for e := range cutRV {
		cut[e] = true
	}
	if len(cutRV) == 0 || nTI == 0 || fi.reachHit(entryState(), cut, blocksOf(a)) {
		x.why = "the append at " + w.InstrPos(a) + " is reachable for a capability other than the two verification capabilities"
		return false
	}
	return true
}

// c02Pos: a place on a control-flow graph at which a value flows on: a block of fn, or (pred >= 0) the edge from the
// pred-th predecessor of that block into it (a phi edge).
type c02Pos struct {
	fn   *ssa.Function
	b    *ssa.BasicBlock
	pred int
}

// requestSources walks backwards from the list v handed to the plugin execution (at pos) and sorts what the list can be:
//   - an empty list;
//   - an append with an explicit element list (collected in apps: the caller requires the per-element gate and the
//     provenance of every element) onto such a list;
//   - the DECLARED capability list as a whole (`request := declared; if skip { request = filtered }`): every value it can be
//     is a value the declared list can be. Nothing was dropped from it, so it may reach the request only where the level
//     does not skip revocation: the place where it flows in (phi edge, return of a helper, the execution itself) is
//     collected in reuse and the caller requires it to be unreachable once the `revocation action != skip` edges are cut.
//
// The walk goes through phis, through the results of module helpers (operand of each value-return, at that return) and
// through parameters (argument at each call site, at that call). Anything else: false (x.why says what).
func (x *c02Lists) requestSources(v ssa.Value, pos c02Pos, declared ssa.Value, apps *[]*ssa.Call, reuse *[]c02Pos) bool {
	w := x.ro.w
	type key struct {
		v ssa.Value
		p c02Pos
	}
	seen := map[key]bool{}
	var walk func(v ssa.Value, pos c02Pos, depth int) bool
	walk = func(v ssa.Value, pos c02Pos, depth int) bool {
		if seen[key{v, pos}] {
			return true
		}
		seen[key{v, pos}] = true
		if depth > 12 {
			x.why = "the origins of the request list could not be enumerated"
			return false
		}
		if c02EmptyList(v) {
			return true
		}
		if declared != nil && c02IsCapsType(v.Type()) && c02SubsetOf(w, v, declared) && !c02AllEmpty(w, v) {
			*reuse = append(*reuse, pos)
			return true
		}
		switch y := v.(type) {
		case *ssa.Phi:
			for i, e := range y.Edges {
				if !walk(e, c02Pos{y.Parent(), y.Block(), i}, depth+1) {
					return false
				}
			}
			return true
		case *ssa.ChangeType:
			return walk(y.X, pos, depth)
		case *ssa.Parameter:
			fn := y.Parent()
			sites, closed := c05CallSites(w, fn)
			idx := -1
			for i, q := range fn.Params {
				if q == y {
					idx = i
				}
			}
			if !closed || len(sites) == 0 || idx < 0 {
				break
			}
			for _, s := range sites {
				if idx >= len(s.Call.Args) || !walk(s.Call.Args[idx], c02Pos{s.Parent(), s.Block(), -1}, depth+1) {
					return false
				}
			}
			return true
		case *ssa.Extract, *ssa.Call:
			if a := c02AppendCall(v); a != nil {
				if !x.seen[a] {
					x.seen[a] = true
					*apps = append(*apps, a)
				}
				return walk(a.Call.Args[0], c02Pos{a.Parent(), a.Block(), -1}, depth+1)
			}
			call := callOf(v)
			k := 0
			if e, isE := v.(*ssa.Extract); isE {
				k = e.Index
			}
			if call == nil {
				break
			}
			g := staticCallee(call)
			if g == nil || g.Blocks == nil || !w.IsProductFn(g) {
				break
			}
			rets := c02ValueReturns(w, g)
			if c02ReturnsError(g) && !c02ErrChecked(w, call) {
				rets = nil
			}
			if len(rets) == 0 {
				break
			}
			for _, r := range rets {
				if k >= len(r.Results) || !walk(r.Results[k], c02Pos{g, r.Block(), -1}, depth+1) {
					return false
				}
			}
			return true
		}
		x.why = "the request list can be " + desc(v)
		return false
	}
	return walk(v, pos, 0)
}

// c02AllEmpty: every value v can be is an empty list.
func c02AllEmpty(w *World, v ssa.Value) bool {
	leaves, ok := c02Leaves(w, v)
	if !ok {
		return false
	}
	for _, l := range leaves {
		if !c02EmptyList(l) {
			return false
		}
	}
	return true
}

// c02PosBlocked: with the edges `cut` of pos.fn removed, the place pos cannot be passed.
func c02PosBlocked(w *World, pos c02Pos, cut map[edgeKey]bool) bool {
	fi := w.Info(pos.fn)
	if pos.pred < 0 {
		return !fi.reachHit(entryState(), cut, map[int]bool{pos.b.Index: true})
	}
	p := pos.b.Preds[pos.pred]
	open := false
	for j, s := range p.Succs {
		if s == pos.b && !cut[edgeKey{p.Index, j}] {
			open = true
		}
	}
	if !open {
		return true
	}
	if p.Index == 0 {
		return false
	}
	return !fi.reachHit(entryState(), cut, map[int]bool{p.Index: true})
}

// sameList: every value `list` can be is a value `declared` can be (the list a helper ranges over is its parameter; the
// parameter is the caller's argument).
func c02SubsetOf(w *World, list, declared ssa.Value) bool {
	a, ok1 := c02Leaves(w, list)
	b, ok2 := c02Leaves(w, declared)
	if !ok1 || !ok2 || len(a) == 0 {
		return false
	}
	in := map[ssa.Value]bool{}
	for _, v := range b {
		in[v] = true
	}
	for _, v := range a {
		if !in[v] && !c02EmptyList(v) { // an empty list adds no element
			return false
		}
	}
	return true
}

// ---------- accounting for critical attributes in a helper -------------------------------------------------------------

// c02AccountingLoops: the loops of f over <signer info>.SignedAttributes.ExtendedAttributes (rendered in P's frame) every
// completed iteration of which passes the false edge of .Critical and from whose body no success-capable exit is reachable
// without that edge.
func c02AccountingLoops(ro *c02Roles, f *ssa.Function) []sliceLoop {
	w := ro.w
	fi := w.Info(f)
	var out []sliceLoop
	for _, sl := range sliceLoops(f) {
		suffix := ".SignedAttributes.ExtendedAttributes"
		if f != ro.P {
			// in a helper the signer info is a parameter: what matters is what P hands in — the signer info of the envelope
			// content under verification, not some other (empty, fresh) one
			suffix = ".EnvelopeContent.SignerInfo.SignedAttributes.ExtendedAttributes"
		}
		if !strings.HasSuffix(ro.fr.str(f, desc(sl.X)), suffix) {
			continue
		}
		labels, ok := fi.mustPassBetween([]int{sl.Body.Index}, map[int]bool{sl.Header.Index: true})
		if !ok {
			continue
		}
		if _, h := hasLabel(labels, "F(", ".ExtendedAttributes[", ".Critical)"); !h {
			continue
		}
		cut := fi.edgesMatching(func(l string, _ *ssa.If, _ bool) bool {
			return strings.HasPrefix(l, "F(") && strings.Contains(l, ".ExtendedAttributes[") && strings.HasSuffix(l, ".Critical)")
		})
		if fi.successWitness(Mode{Kind: mErr}, []state{{sl.Body.Index, 0, -1}}, cut) != nil {
			continue
		}
		// nor by leaving the loop early: a success-capable exit reached from the body without coming back to the header
		// (`if !attr.Critical { return nil }`, a break) leaves the attributes behind the current one unlooked at
		back := map[edgeKey]bool{}
		cutInto(fi, sl.Header, back)
		if fi.successWitness(Mode{Kind: mErr}, []state{{sl.Body.Index, 0, -1}}, back) != nil {
			continue
		}
		out = append(out, sl)
	}
	return out
}

// c02AccountingCalls: the calls in P of a module function g with an error result such that every success-capable exit of g
// lies behind an accounting loop of g. P's success behind such a call is accounted for exactly when P requires the call's
// error to be nil: the caller cuts the `err == nil` edges of the call and does not count exits that return the call's
// error (a path on which the error is dropped stays open and is reported).
func c02AccountingCalls(ro *c02Roles) []*ssa.Call {
	w := ro.w
	var out []*ssa.Call
	for _, ci := range allCalls(ro.P) {
		call, ok := ci.(*ssa.Call)
		if !ok {
			continue
		}
		g := staticCallee(call)
		if g == nil || g.Blocks == nil || !w.IsProductFn(g) || g == ro.P {
			continue
		}
		res := g.Signature.Results()
		if res.Len() == 0 || !isErrorType(res.At(res.Len()-1).Type()) {
			continue
		}
		if s := ro.fr.subst(g); !s.ok {
			continue // entered from several places on the tree: the signer info it ranges over is not determined
		}
		loops := c02AccountingLoops(ro, g)
		if len(loops) == 0 {
			continue
		}
		gfi := w.Info(g)
		cut := map[edgeKey]bool{}
		for _, sl := range loops {
			cutInto(gfi, sl.Header, cut)
		}
		if gfi.successWitness(Mode{Kind: mErr}, entryState(), cut) == nil {
			out = append(out, call)
		}
	}
	return out
}

// c02CutAccounting adds to cut what makes P's paths behind an accounting call fail: the call's `err == nil` edges. The
// returned set is to be installed as FnInfo.ignoreTail while the witness search runs.
func c02CutAccounting(ro *c02Roles, fi *FnInfo, calls []*ssa.Call, cut map[edgeKey]bool) map[*ssa.Call]bool {
	tails := map[*ssa.Call]bool{}
	for _, call := range calls {
		tails[call] = true
		d := "EQ(" + descTailErr(call) + ",nil)"
		for e := range fi.edgesMatching(func(l string, _ *ssa.If, _ bool) bool { return l == d }) {
			cut[e] = true
		}
	}
	return tails
}

// ---------- a native check written as a stage helper --------------------------------------------------------------------

// c02StageCall: inner (the native check) is a call in a helper f of P. The call of f in P stands for the check when
//   - f is entered from P's tree by exactly one static call, and that call is in P (the routing guards of that call are
//     the routing guards of the check);
//   - the check lies on every path of f to a success-capable exit (inside the stage nothing routes around it);
//   - f reports through an error result and P goes on behind the call only if that error is nil (what the stage decides
//     — the gate on the result it filled in, rule b, which applies inside f as anywhere — reaches P).
//
// Returns the call of f in P, nil if the stage cannot be followed.
func c02StageCall(ro *c02Roles, inner *ssa.Call) *ssa.Call {
	w := ro.w
	f := inner.Parent()
	if !c02ReturnsError(f) {
		return nil
	}
	sites := ro.fr.sites[f]
	if len(sites) != 1 || sites[0] == nil || sites[0].Parent() != ro.P {
		return nil
	}
	if inner.Block().Index != 0 {
		fi := w.Info(f)
		cut := map[edgeKey]bool{}
		cutInto(fi, inner.Block(), cut)
		if fi.successWitness(Mode{Kind: mErr}, entryState(), cut) != nil {
			return nil
		}
	}
	if !c02ErrChecked(w, sites[0]) {
		return nil
	}
	return sites[0]
}

// ---------- results built by a constructor -----------------------------------------------------------------------------

type c02TypeUse struct {
	site *ssa.Call  // the call at which the type is chosen
	k    *ssa.Const // the constant chosen there
	md   string     // the enforcement map the constructor reads, spelled in the frame of that call
}

// c02TypeUses: tv, a parameter of fn, is stored as the Type of a ValidationResult that fn allocates. Returns, for every call
// of fn, the constant handed in (through wrappers that pass their own parameter on, up to three levels). why != "": some
// caller hands in something that is not a constant, or the callers of fn are not all known (exported, used as a value).
func c02TypeUses(w *World, fn *ssa.Function, tv ssa.Value, md string, depth int) (uses []c02TypeUse, why string) {
	par, ok := c02Unconv(tv).(*ssa.Parameter)
	if !ok || par.Parent() != fn {
		return nil, "neither a constant nor a parameter of the allocating function"
	}
	if depth > 3 {
		return nil, "constructor nesting too deep"
	}
	idx := -1
	for i, q := range fn.Params {
		if q == par {
			idx = i
		}
	}
	sites, closed := c05CallSites(w, fn)
	if !closed || idx < 0 {
		return nil, "the callers of " + fnName(fn) + " are not all known"
	}
	for _, s := range sites {
		if len(s.Call.Args) != len(fn.Params) {
			return nil, "call with a different argument list at " + w.InstrPos(s)
		}
		// the map, in the caller's frame
		smd := md
		for j, q := range fn.Params {
			if pre := "param:" + q.Name(); strings.HasPrefix(md, pre+".") || md == pre {
				smd = desc(s.Call.Args[j]) + strings.TrimPrefix(md, pre)
			}
		}
		switch a := c02Unconv(s.Call.Args[idx]).(type) {
		case *ssa.Const:
			if a.Value == nil {
				return nil, "no constant at " + w.InstrPos(s)
			}
			uses = append(uses, c02TypeUse{s, a, smd})
		case *ssa.Parameter:
			more, why := c02TypeUses(w, s.Parent(), a, smd, depth+1)
			if why != "" {
				return nil, why
			}
			uses = append(uses, more...)
		default:
			return nil, "the type handed in at " + w.InstrPos(s) + " is " + desc(s.Call.Args[idx])
		}
	}
	return uses, ""
}

// c02CallOrdinal: the position of the call among the calls of the same callee in its function.
func c02CallOrdinal(call *ssa.Call) int {
	g := staticCallee(call)
	n := 0
	for _, ci := range allCalls(call.Parent()) {
		if ci == ssa.CallInstruction(call) {
			return n
		}
		if staticCallee(ci) == g {
			n++
		}
	}
	return n
}

// c02ResultTypes: the Type constants of the ValidationResults v can be, followed through phis and through the results of
// module functions; a Type that is a parameter of a constructor is the argument of the call the value came through (the
// walk is context-sensitive: env maps the parameters of the function being looked at to the values of its caller).
func c02ResultTypes(w *World, v ssa.Value) map[string]bool {
	out := map[string]bool{}
	type envT map[*ssa.Parameter]ssa.Value
	var typeOf func(v ssa.Value, env []envT, depth int)
	var rec func(v ssa.Value, env []envT, depth int)
	typeOf = func(v ssa.Value, env []envT, depth int) {
		switch x := c02Unconv(v).(type) {
		case *ssa.Const:
			if x.Value != nil {
				out[constString(x)] = true
			}
		case *ssa.Parameter:
			if n := len(env); n > 0 {
				if a, ok := env[n-1][x]; ok && depth < 8 {
					typeOf(a, env[:n-1], depth+1)
				}
			}
		case *ssa.Phi:
			if depth < 8 {
				for _, e := range x.Edges {
					typeOf(e, env, depth+1)
				}
			}
		}
	}
	seen := map[ssa.Value]bool{}
	rec = func(v ssa.Value, env []envT, depth int) {
		if depth > 8 || (len(env) == 0 && seen[v]) {
			return
		}
		if len(env) == 0 {
			seen[v] = true
		}
		switch x := v.(type) {
		case *ssa.Alloc:
			if namedOf(x.Type()) != vrType || x.Referrers() == nil {
				return
			}
			for _, r := range *x.Referrers() {
				fa, ok := r.(*ssa.FieldAddr)
				if !ok || fieldName(x.Type(), fa.Field) != "Type" || fa.Referrers() == nil {
					continue
				}
				for _, rr := range *fa.Referrers() {
					if st, ok := rr.(*ssa.Store); ok && st.Addr == ssa.Value(fa) {
						typeOf(st.Val, env, depth)
					}
				}
			}
		case *ssa.Phi:
			for _, e := range x.Edges {
				rec(e, env, depth+1)
			}
		case *ssa.Extract, *ssa.Call:
			call := callOf(v)
			k := 0
			if e, isE := v.(*ssa.Extract); isE {
				k = e.Index
			}
			if call == nil {
				return
			}
			g := staticCallee(call)
			if g == nil || g.Blocks == nil || !w.IsProductFn(g) || len(call.Call.Args) != len(g.Params) {
				return
			}
			ne := envT{}
			for i, q := range g.Params {
				ne[q] = call.Call.Args[i]
			}
			for _, b := range g.Blocks {
				if r, ok := blockTerm(b).(*ssa.Return); ok && k < len(r.Results) {
					rec(r.Results[k], append(append([]envT{}, env...), ne), depth+1)
				}
			}
		}
	}
	rec(v, nil, 0)
	return out
}

// c02ReturnsType: g hands back a ValidationResult whose Type is the constant — allocated by g itself or by a constructor g
// calls with that constant.
func c02ReturnsType(w *World, g *ssa.Function, konst string) bool {
	for _, b := range g.Blocks {
		if r, ok := blockTerm(b).(*ssa.Return); ok {
			for _, x := range r.Results {
				if isVRPtr(x.Type()) && c02ResultTypes(w, x)[konst] {
					return true
				}
			}
		}
	}
	return false
}

// c02CtorErrParam: g is a constructor of validation results that stores its parameter k as the Error of the result it
// returns: every return hands back one and the same fresh ValidationResult, whose Error field is stored exactly once, from
// parameter k, before the return. -1 if g is none. A call g(…, e, …) then IS `&ValidationResult{…, Error: e}`.
func c02CtorErrParam(w *World, g *ssa.Function) int {
	if g == nil || g.Blocks == nil || !w.IsProductFn(g) || g.Signature.Results().Len() != 1 || !isVRPtr(g.Signature.Results().At(0).Type()) {
		return -1
	}
	var A *ssa.Alloc
	var rets []*ssa.Return
	for _, b := range g.Blocks {
		if r, ok := blockTerm(b).(*ssa.Return); ok {
			al, isA := r.Results[0].(*ssa.Alloc)
			if !isA || (A != nil && al != A) {
				return -1
			}
			A = al
			rets = append(rets, r)
		}
	}
	if A == nil || A.Referrers() == nil {
		return -1
	}
	var st *ssa.Store
	for _, r := range *A.Referrers() {
		fa, ok := r.(*ssa.FieldAddr)
		if !ok || fieldName(A.Type(), fa.Field) != "Error" || fa.Referrers() == nil {
			continue
		}
		for _, rr := range *fa.Referrers() {
			if s, ok := rr.(*ssa.Store); ok && s.Addr == ssa.Value(fa) {
				if st != nil {
					return -1
				}
				st = s
			}
		}
	}
	if st == nil {
		return -1
	}
	par, ok := st.Val.(*ssa.Parameter)
	if !ok {
		return -1
	}
	for _, r := range rets {
		if !c02InstrDominates(st, r) {
			return -1
		}
	}
	for i, q := range g.Params {
		if q == par {
			return i
		}
	}
	return -1
}

// c02ErrorStores adds to cut the edges behind which a non-nil Error has been put into a validation result of R, and counts
// the sites. A site is a store `r.Error = e`, or a call `ctor(…, e, …)` of a constructor of results that stores its
// parameter as the Error (c02CtorErrParam): the same object construction, written as a function.
//   - e provably non-nil in the block of the site: every edge into the block;
//   - e a variable that is merged at the head of that block (`var e error; if !ok { e = errors.New(…) }; r := ctor(e)`): only
//     the incoming edges on which the merged value is provably non-nil — a path that arrives over another edge (the
//     error local still nil) is NOT cut and stays visible to the witness search.
func c02ErrorStores(w *World, fi *FnInfo, R *ssa.Function, cut map[edgeKey]bool) int {
	n := 0
	for _, b := range R.Blocks {
		for _, in := range b.Instrs {
			var e ssa.Value
			switch x := in.(type) {
			case *ssa.Store:
				fa, isFa := x.Addr.(*ssa.FieldAddr)
				if isFa && isVRPtr(fa.X.Type()) && fieldName(fa.X.Type(), fa.Field) == "Error" {
					e = x.Val
				}
			case *ssa.Call:
				if g := staticCallee(x); g != nil {
					if k := c02CtorErrParam(w, g); k >= 0 && k < len(x.Call.Args) {
						e = x.Call.Args[k]
					}
				}
			}
			if e == nil {
				continue
			}
			if fi.nonNil(e, b) {
				n++
				cutInto(fi, b, cut)
				continue
			}
			if p, isPhi := e.(*ssa.Phi); isPhi && p.Block() == b {
				some := false
				for i, pe := range p.Edges {
					if i < len(b.Preds) && fi.nonNil(pe, b.Preds[i]) {
						some = true
						for j, sc := range b.Preds[i].Succs {
							if sc == b {
								cut[edgeKey{b.Preds[i].Index, j}] = true
							}
						}
					}
				}
				if some {
					n++
				}
			}
		}
	}
	return n
}

// ---------- a gate decided by a helper ---------------------------------------------------------------------------------

// c02SkipGateCut: the edges of f that can be passed only if `type == revocation || action != skip` holds for the pair
// (type, action) that is spelled kd, vd in f's frame:
//   - the edges that say one of the two themselves (or whose label is the disjunction of the two: the false edge of
//     `action == skip && type != revocation` tested as one condition);
//   - the "went well" edges of a call of a module function H that is handed the pair — `err == nil` of a validator
//     `validate(type, action) error`, the true (false) edge of a predicate `allowed(type, action) bool` — when H itself
//     answers nil (true, false) only behind such edges: on H's own graph, with the pair spelled as H's parameters and
//     those edges removed, no success-capable exit (no exit answering true, false) is left. The argument is the one the
//     engine uses when it composes summaries: H's parameters ARE the caller's arguments, so a fact every nil answer of H
//     has passed is a fact of every path of f through the `err == nil` edge of the call. Decided recursively (a validator
//     may delegate once more), three levels deep.
//
// Where the check is written — inline, in a validator, in a predicate — is thus immaterial; what is removed from the
// graph is always "every way to get past without type == revocation or action != skip".
func c02SkipGateCut(w *World, f *ssa.Function, kd, vd, tr, as string, depth int) map[edgeKey]bool {
	fi := w.Info(f)
	one := func(a string) bool {
		return a == "EQ("+kd+fmt.Sprintf(",const:%q)", tr) || a == "NE("+vd+fmt.Sprintf(",const:%q)", as)
	}
	cut := fi.edgesMatching(func(l string, _ *ssa.If, _ bool) bool {
		if one(l) {
			return true
		}
		if op, alts := splitTopArgs(l); op == "OR" && len(alts) > 0 {
			for _, a := range alts {
				if !one(a) {
					return false
				}
			}
			return true
		}
		return false
	})
	if depth >= 3 {
		return cut
	}
	for _, ci := range allCalls(f) {
		call, ok := ci.(*ssa.Call)
		if !ok {
			continue
		}
		H := staticCallee(call)
		if H == nil || H == f || H.Blocks == nil || !w.IsProductFn(H) || len(call.Call.Args) != len(H.Params) {
			continue
		}
		ki, vi := -1, -1
		for i, a := range call.Call.Args {
			switch desc(a) {
			case kd:
				ki = i
			case vd:
				vi = i
			}
		}
		if ki < 0 || vi < 0 || ki == vi {
			continue
		}
		// the modes in which H can be asked, and the label of the edge of f on which that answer was given
		type ask struct {
			mode  Mode
			label string
		}
		var asks []ask
		res := H.Signature.Results()
		switch {
		case c02ReturnsError(H):
			asks = append(asks, ask{Mode{Kind: mErr}, "EQ(" + descTailErr(call) + ",nil)"})
		case res.Len() == 1 && isBoolType(res.At(0).Type()):
			asks = append(asks, ask{Mode{Kind: mBool, Want: true}, "T(" + desc(call) + ")"}, ask{Mode{Kind: mBool, Want: false}, "F(" + desc(call) + ")"})
		}
		if len(asks) == 0 {
			continue
		}
		hcut := c02SkipGateCut(w, H, desc(H.Params[ki]), desc(H.Params[vi]), tr, as, depth+1)
		if len(hcut) == 0 {
			continue
		}
		hfi := w.Info(H)
		for _, a := range asks {
			if hfi.successWitness(a.mode, entryState(), hcut) != nil {
				continue
			}
			for e := range fi.edgesMatching(func(l string, _ *ssa.If, _ bool) bool { return l == a.label }) {
				cut[e] = true
			}
		}
	}
	return cut
}

// ---------- "the plugin declares capability X", however the answer is kept -----------------------------------------------
//
// The routing clauses (g) speak about one fact per verification capability X: "X is on the plugin's declared list D". The
// reference code asks `slices.Contains(D, X)` where it needs the answer. A refactoring may keep the answer instead:
// a boolean set while D is built (`case X: ownsX = true` in the filter loop) or by one scan of D. The rule is stated on
// the EDGES of P on which the fact is known to hold / known not to hold (c02Own), found in either form:
//
//	Contains form   the edges labelled T/F(slices.Contains(list, X)): the fact is about `list` (the caller shows that list
//	                to be the declared one);
//	flag form       the edges of an `if` on a boolean b for which c02FlagMeaning establishes  b == true  <=>  X is on D.
//
// Everything the routing rules then require (the native check is reachable only over a "not on D" edge; no success path
// avoids both the "on D" edges and the native check) is the same obligation as before, on the generalised edge sets.

type c02Own struct {
	t, f  map[edgeKey]bool // edges of P on which "X is on the declared list" is known true / known false
	lists []ssa.Value      // the lists the answers are about
	why   string           // why a boolean that looked like a capability flag could not be followed
}

type c02Flag struct {
	ok   bool
	cap  string    // the capability constant the flag stands for
	list ssa.Value // the list D the flag speaks about
	G    *ssa.Function
	loop map[int]bool // blocks of the loop in which the flag is set
	why  string
}

// c02CFGReach: the blocks that can be entered from the start blocks (the starts themselves included) on the plain
// control-flow graph without taking a cut edge; a block for which stop holds is entered but not left.
func c02CFGReach(starts []*ssa.BasicBlock, cut map[edgeKey]bool, stop func(*ssa.BasicBlock) bool) map[int]bool {
	seen := map[int]bool{}
	var work []*ssa.BasicBlock
	for _, b := range starts {
		if !seen[b.Index] {
			seen[b.Index] = true
			work = append(work, b)
		}
	}
	for len(work) > 0 {
		b := work[len(work)-1]
		work = work[:len(work)-1]
		if stop != nil && stop(b) && !c02IsStart(starts, b) {
			continue
		}
		for j, s := range b.Succs {
			if cut[edgeKey{b.Index, j}] || seen[s.Index] {
				continue
			}
			seen[s.Index] = true
			work = append(work, s)
		}
	}
	return seen
}

func c02IsStart(starts []*ssa.BasicBlock, b *ssa.BasicBlock) bool {
	for _, s := range starts {
		if s == b {
			return true
		}
	}
	return false
}

// c02FlagMeaning decides whether the boolean v is a CAPABILITY FLAG: v == true exactly when capability X (one of caps) is
// on a declared capability list D. v is followed backwards through phis, results of module helpers and parameters to the
// constants it can be, each with the place (phi edge) at which it flows in. Required:
//
//	(1) every `true` flows in inside one loop over a list Z, on an edge that cannot be reached unless the loop's current
//	    element e passed `e == X` (all such edges removed, the place is unreachable);
//	(2) Z is the Capabilities list of the GetMetadata response of the looked-up plugin and D is the list built in that
//	    loop — D's value at the head of the loop changes only by `append(D, e)` — and within one iteration
//	      (2a) no path sets the flag without appending e to D     (flag true  => X is on D),
//	      (2b) no path that is taken for e == X appends e to D without setting the flag   (X on D => flag true);
//	    or Z is itself a declared list D (shown so by the caller) and within one iteration no path that is taken for
//	    e == X reaches the next iteration without setting the flag, and the loop is not left early without setting it;
//	(3) every `false` flows in before the loop (from a place the loop head cannot reach): the flag is never reset.
//
// The `if` that tests v must lie outside the loop (it sees the final value). Then on the true edge of that `if` some
// element equal to X has been put on D (1, 2a), and on the false edge none has (2b, 3) — which is what
// slices.Contains(D, X) answers.
func c02FlagMeaning(ro *c02Roles, v ssa.Value, caps []string) *c02Flag {
	w := ro.w
	out := &c02Flag{}
	type fedge struct {
		pos c02Pos
		val bool
	}
	var consts []fedge
	seen := map[ssa.Value]bool{}
	var walk func(v ssa.Value, pos c02Pos, depth int) bool
	walk = func(v ssa.Value, pos c02Pos, depth int) bool {
		if k, isK := boolConst(v); isK {
			consts = append(consts, fedge{pos, k})
			return true
		}
		if seen[v] {
			return true
		}
		seen[v] = true
		if depth > 10 {
			return false
		}
		switch x := v.(type) {
		case *ssa.Phi:
			for i, e := range x.Edges {
				if !walk(e, c02Pos{x.Parent(), x.Block(), i}, depth+1) {
					return false
				}
			}
			return true
		case *ssa.Parameter:
			fn := x.Parent()
			sites, closed := c05CallSites(w, fn)
			idx := -1
			for i, q := range fn.Params {
				if q == x {
					idx = i
				}
			}
			if !closed || len(sites) == 0 || idx < 0 {
				return false
			}
			for _, s := range sites {
				if idx >= len(s.Call.Args) || !walk(s.Call.Args[idx], c02Pos{s.Parent(), s.Block(), -1}, depth+1) {
					return false
				}
			}
			return true
		case *ssa.Extract, *ssa.Call:
			call := callOf(v)
			k := 0
			if e, isE := v.(*ssa.Extract); isE {
				k = e.Index
			}
			if call == nil {
				return false
			}
			g := staticCallee(call)
			if g == nil || g.Blocks == nil || !w.IsProductFn(g) {
				return false
			}
			rets := c02ValueReturns(w, g)
			if c02ReturnsError(g) && !c02ErrChecked(w, call) {
				rets = nil
			}
			if len(rets) == 0 {
				return false
			}
			for _, r := range rets {
				if k >= len(r.Results) || !walk(r.Results[k], c02Pos{g, r.Block(), -1}, depth+1) {
					return false
				}
			}
			return true
		}
		return false
	}
	if !isBoolType(v.Type()) || !walk(v, c02Pos{}, 0) {
		return out // not a boolean made of constants: no flag at all (no diagnosis: any other condition lands here)
	}
	var trues, falses []c02Pos
	for _, k := range consts {
		if k.val {
			trues = append(trues, k.pos)
		} else {
			falses = append(falses, k.pos)
		}
	}
	if len(trues) == 0 {
		return out
	}
	// (1) one loop holds every place at which `true` flows in
	G := trues[0].fn
	for _, p := range trues {
		if p.fn != G || p.pred < 0 || p.fn == nil {
			out.why = "a flag that is set in several functions, or handed over as the constant true, is not followed"
			return out
		}
	}
	var loop *sliceLoop
	var LB map[int]bool
	for _, sl := range sliceLoops(G) {
		lb := loopBlocks(sl.Header)
		all := true
		for _, p := range trues {
			if !lb[p.b.Preds[p.pred].Index] || !lb[p.b.Index] {
				all = false
			}
		}
		if all && (loop == nil || len(lb) < len(LB)) {
			sl := sl
			loop, LB = &sl, lb
		}
	}
	if loop == nil {
		return out // set outside any loop over a list: some other boolean
	}
	gfi := w.Info(G)
	// the current element of the loop: the loads of Z[i] for the index the loop head compares with len(Z)
	var idxV ssa.Value
	if iff, ok := blockTerm(loop.Header).(*ssa.If); ok {
		if bo, ok := iff.Cond.(*ssa.BinOp); ok {
			idxV = bo.X
		}
	}
	elems := map[ssa.Value]bool{}
	elemD := map[string]bool{}
	zD := desc(loop.X)
	sameList := func(v ssa.Value) bool { // Z itself, or Z read again (`for i := 0; i < len(m.Caps); i++ { … m.Caps[i] … }`)
		return v == loop.X || desc(v) == zD
	}
	for bi := range LB {
		for _, in := range G.Blocks[bi].Instrs {
			switch x := in.(type) {
			case *ssa.UnOp:
				if ia, ok := x.X.(*ssa.IndexAddr); ok && x.Op == token.MUL && sameList(ia.X) && ia.Index == idxV {
					elems[x] = true
					elemD[desc(x)] = true
				}
			case *ssa.Index:
				if sameList(x.X) && x.Index == idxV {
					elems[x] = true
					elemD[desc(x)] = true
				}
			}
		}
	}
	eqEdges := func(op, X string) map[edgeKey]bool {
		return gfi.edgesMatching(func(l string, _ *ssa.If, _ bool) bool {
			for d := range elemD {
				if l == op+"("+d+fmt.Sprintf(",const:%q)", X) {
					return true
				}
			}
			return false
		})
	}
	for _, X := range caps {
		cut := eqEdges("EQ", X)
		if len(cut) == 0 {
			continue
		}
		all := true
		for _, p := range trues {
			if !c02PosBlocked(w, p, cut) {
				all = false
			}
		}
		if all {
			if out.cap != "" {
				out.cap = ""
				out.why = "the flag is set under tests of two capabilities"
				return out
			}
			out.cap = X
		}
	}
	if out.cap == "" {
		return out // not set under `element == capability`: some other boolean
	}
	// from here on the boolean IS a capability flag by construction; whatever cannot be shown is reported
	X := out.cap
	out.G, out.loop = G, LB
	inLoop := func(b *ssa.BasicBlock) bool { return LB[b.Index] }
	stopIter := func(b *ssa.BasicBlock) bool { return b == loop.Header || !inLoop(b) } // end of the iteration / loop left
	ended := func(reached map[int]bool) bool {
		for bi := range reached {
			if bi == loop.Header.Index || !LB[bi] {
				return true
			}
		}
		return false
	}
	sEdges := map[edgeKey]bool{}
	for _, p := range trues {
		pb := p.b.Preds[p.pred]
		for j, s := range pb.Succs {
			if s == p.b {
				sEdges[edgeKey{pb.Index, j}] = true
			}
		}
	}
	// the edges a path "taken for e == X" cannot use: the false edge of `e == X`, the true edge of `e == K` for another
	// constant K; and, for the searches below, the edges that set the flag
	neCut := func() map[edgeKey]bool {
		cut := eqEdges("NE", X)
		for e := range gfi.edgesMatching(func(l string, _ *ssa.If, _ bool) bool {
			for d := range elemD {
				if pre := "EQ(" + d + ",const:"; strings.HasPrefix(l, pre) && l != pre+fmt.Sprintf("%q)", X) {
					return true
				}
			}
			return false
		}) {
			cut[e] = true
		}
		for e := range sEdges {
			cut[e] = true
		}
		return cut
	}
	lst := &c02Lists{ro: ro, rv: caps[0], ti: caps[len(caps)-1], seen: map[*ssa.Call]bool{}}
	if lst.isMetadataCaps(loop.X) {
		// (2) Z = metadata.Capabilities: D is the capability list built in this loop
		var D *ssa.Phi
		var apps []*ssa.Call
		for _, in := range loop.Header.Instrs {
			p, ok := in.(*ssa.Phi)
			if !ok {
				break
			}
			if !c02IsCapsType(p.Type()) {
				continue
			}
			as, ok := c02GrowsOnlyBy(p, LB, elems)
			if !ok || len(as) == 0 {
				continue
			}
			if D != nil {
				out.why = "two capability lists are built in the loop that sets the flag"
				return out
			}
			D, apps = p, as
		}
		if D == nil {
			out.why = "the loop that sets the flag builds no capability list that grows only by appending the current element"
			return out
		}
		aBlocks := map[int]bool{}
		intoA := map[edgeKey]bool{}
		for _, a := range apps {
			aBlocks[a.Block().Index] = true
			cutInto(gfi, a.Block(), intoA)
		}
		// an append, once made, stays: whichever way the iteration ends behind it, what flows into D at the head of the
		// loop is an appended list (not the old value again: `t := append(D, e); if … { D = t }`), and the loop is not left
		// in another way (the list a `break` carries out is not looked at)
		for _, a := range apps {
			behind := c02CFGReach([]*ssa.BasicBlock{a.Block()}, nil, stopIter)
			for bi := range behind {
				if !LB[bi] {
					out.why = "the loop that builds the capability list can be left behind an append (" + w.InstrPos(a) + ")"
					return out
				}
			}
			if !c02AppendSticks(D, a, apps, LB) {
				out.why = "an element appended to the capability list can be dropped again before the next iteration (" + w.InstrPos(a) + ")"
				return out
			}
		}
		// (2a) no iteration sets the flag without appending
		if !aBlocks[loop.Body.Index] {
			pre := c02CFGReach([]*ssa.BasicBlock{loop.Body}, intoA, stopIter)
			for _, p := range trues {
				pb := p.b.Preds[p.pred]
				if !pre[pb.Index] || aBlocks[pb.Index] || aBlocks[p.b.Index] {
					continue
				}
				if p.b == loop.Header || ended(c02CFGReach([]*ssa.BasicBlock{p.b}, intoA, stopIter)) {
					out.why = "the flag can be set for an element that is not appended to the capability list (" + w.InstrPos(blockTerm(pb)) + ")"
					return out
				}
			}
		}
		// (2b) no iteration appends an element equal to X without setting the flag
		cut := neCut()
		pre := c02CFGReach([]*ssa.BasicBlock{loop.Body}, cut, stopIter)
		for _, a := range apps {
			if pre[a.Block().Index] && ended(c02CFGReach([]*ssa.BasicBlock{a.Block()}, cut, stopIter)) && a.Block() != loop.Header {
				out.why = "an element equal to the capability can be appended to the capability list without the flag being set (" + w.InstrPos(a) + ")"
				return out
			}
		}
		out.list = D
	} else {
		// Z is itself the list the flag speaks about (the caller shows it declared): a scan of D
		cut := neCut()
		if ended(c02CFGReach([]*ssa.BasicBlock{loop.Body}, cut, stopIter)) {
			out.why = "an element equal to the capability can pass the scanning loop without the flag being set"
			return out
		}
		// the scan is left early only with the flag set
		reached := c02CFGReach([]*ssa.BasicBlock{loop.Body}, sEdges, stopIter)
		for bi := range reached {
			if !LB[bi] {
				out.why = "the scanning loop can be left before the end of the list without the flag being set"
				return out
			}
		}
		out.list = loop.X
	}
	// (3) never reset: every `false` flows in at a place the loop head cannot reach
	after := c02CFGReach([]*ssa.BasicBlock{loop.Header}, nil, nil)
	for _, p := range falses {
		if p.fn != G {
			out.why = "the flag can be cleared in another function than the one that sets it"
			return out
		}
		at := p.b
		if p.pred >= 0 {
			at = p.b.Preds[p.pred]
		}
		if after[at.Index] {
			out.why = "the flag can be cleared after it was set (" + w.InstrPos(blockTerm(at)) + ")"
			return out
		}
	}
	out.ok = true
	return out
}

// c02AppendSticks: on every path from the append a to the head of the loop, the list value that a produced (followed
// along the path: through the phis that take it over the edge the path uses, through further appends onto it) is what
// flows into D there.
func c02AppendSticks(D *ssa.Phi, a *ssa.Call, apps []*ssa.Call, LB map[int]bool) bool {
	type st struct {
		b   *ssa.BasicBlock
		cur ssa.Value
	}
	header := D.Block()
	// the value at the end of block b, entered with cur (appends of the block that come behind `from`)
	through := func(b *ssa.BasicBlock, cur ssa.Value, from ssa.Instruction) ssa.Value {
		for _, in := range b.Instrs {
			if from != nil && instrIndex(in) <= instrIndex(from) {
				continue
			}
			for _, a2 := range apps {
				if in == ssa.Instruction(a2) && a2.Call.Args[0] == cur {
					cur = a2
				}
			}
		}
		return cur
	}
	seen := map[st]bool{}
	work := []st{{a.Block(), through(a.Block(), a, a)}}
	for len(work) > 0 {
		x := work[len(work)-1]
		work = work[:len(work)-1]
		if seen[x] {
			continue
		}
		seen[x] = true
		for _, s := range x.b.Succs {
			if !LB[s.Index] {
				continue
			}
			pi := -1
			for i, p := range s.Preds {
				if p == x.b {
					pi = i
				}
			}
			if s == header {
				if pi < 0 || pi >= len(D.Edges) || D.Edges[pi] != x.cur {
					return false
				}
				continue
			}
			cur := x.cur
			for _, in := range s.Instrs {
				p, ok := in.(*ssa.Phi)
				if !ok {
					break
				}
				if pi >= 0 && pi < len(p.Edges) && p.Edges[pi] == x.cur {
					cur = p
					break
				}
			}
			work = append(work, st{s, through(s, cur, nil)})
		}
	}
	return true
}

// c02GrowsOnlyBy: D is a list-valued phi at the head of a loop (blocks LB). Every value that flows into D over a back edge
// is D itself or `append(D', e)` with e a current element of the loop and D' again such a value: inside the loop the list
// only grows, by the current element. Returns the appends.
func c02GrowsOnlyBy(D *ssa.Phi, LB map[int]bool, elems map[ssa.Value]bool) ([]*ssa.Call, bool) {
	var apps []*ssa.Call
	seen := map[ssa.Value]bool{D: true}
	var walk func(v ssa.Value, depth int) bool
	walk = func(v ssa.Value, depth int) bool {
		if seen[v] {
			return true
		}
		seen[v] = true
		if depth > 10 {
			return false
		}
		switch x := v.(type) {
		case *ssa.Phi:
			if !LB[x.Block().Index] {
				return false
			}
			for _, e := range x.Edges {
				if !walk(e, depth+1) {
					return false
				}
			}
			return true
		case *ssa.Call:
			a := c02AppendCall(x)
			if a == nil || !LB[a.Block().Index] {
				return false
			}
			es := appendedElems(a.Call.Args[1])
			if len(es) == 0 {
				return false
			}
			for _, e := range es {
				if !elems[e] {
					return false
				}
			}
			apps = append(apps, a)
			return walk(a.Call.Args[0], depth+1)
		}
		return false
	}
	for i, e := range D.Edges {
		if i < len(D.Block().Preds) && LB[D.Block().Preds[i].Index] {
			if !walk(e, 0) {
				return nil, false
			}
		}
	}
	return apps, true
}

// isMetadataCaps: every value the list can be is <GetMetadata response of the looked-up plugin>.Capabilities.
func (x *c02Lists) isMetadataCaps(base ssa.Value) bool {
	leaves, ok := c02Leaves(x.ro.w, base)
	if !ok || len(leaves) == 0 {
		x.why = "the origins of " + desc(base) + " could not be enumerated"
		return false
	}
	for _, leaf := range leaves {
		u, isLoad := leaf.(*ssa.UnOp)
		good := false
		if isLoad && u.Op == token.MUL {
			if fa, isFa := u.X.(*ssa.FieldAddr); isFa && fieldName(fa.X.Type(), fa.Field) == "Capabilities" {
				if ex, isEx := fa.X.(*ssa.Extract); isEx && ex.Index == 0 {
					for _, md := range x.ro.mdCalls {
						if ex.Tuple == ssa.Value(md) {
							good = true
						}
					}
				}
			}
		}
		if !good {
			x.why = "the filtered list is " + desc(leaf) + ", not the Capabilities of the GetMetadata response of the plugin that was looked up"
			return false
		}
	}
	return true
}

// c02Ownership collects, for capability X, the edges of P on which "X is on the declared list" is known, in both forms.
func c02Ownership(ro *c02Roles, X string, caps []string, memo map[ssa.Value]*c02Flag) *c02Own {
	w := ro.w
	F := ro.P
	fi := w.Info(F)
	own := &c02Own{t: map[edgeKey]bool{}, f: map[edgeKey]bool{}}
	sel := func(want bool) EdgeSel {
		return func(l string, _ *ssa.If, _ bool) bool {
			pre := "F("
			if want {
				pre = "T("
			}
			return strings.HasPrefix(l, pre+"call:slices.Contains(") && strings.HasSuffix(l, fmt.Sprintf(",const:%q))", X))
		}
	}
	own.t, own.f = fi.edgesMatching(sel(true)), fi.edgesMatching(sel(false))
	for _, ci := range allCalls(F) {
		if call, ok := ci.(*ssa.Call); ok && calleeName(call) == "slices.Contains" && len(call.Call.Args) == 2 {
			if k, ok := call.Call.Args[1].(*ssa.Const); ok && constString(k) == fmt.Sprintf("%q", X) {
				own.lists = append(own.lists, call.Call.Args[0])
			}
		}
	}
	for _, b := range F.Blocks {
		iff, ok := blockTerm(b).(*ssa.If)
		if !ok || len(b.Succs) != 2 {
			continue
		}
		cond, neg := iff.Cond, false
		for {
			u, isU := cond.(*ssa.UnOp)
			if !isU || u.Op != token.NOT {
				break
			}
			neg = !neg
			cond = u.X
		}
		switch cond.(type) {
		case *ssa.Phi, *ssa.Extract, *ssa.Parameter:
		default:
			continue
		}
		if cx, cl, cok := c02CachedContains(w, cond); cok {
			if cx == fmt.Sprintf("%q", X) {
				for j := 0; j < 2; j++ {
					if (j == 0) != neg {
						own.t[edgeKey{b.Index, j}] = true
					} else {
						own.f[edgeKey{b.Index, j}] = true
					}
				}
				own.lists = append(own.lists, cl)
			}
			continue
		}
		m, done := memo[cond]
		if !done {
			m = c02FlagMeaning(ro, cond, caps)
			memo[cond] = m
		}
		if m.cap != X {
			continue
		}
		if m.ok && m.G == F && m.loop[b.Index] {
			m = &c02Flag{cap: X, why: "the flag is tested inside the loop that sets it"}
		}
		if !m.ok {
			own.why = m.why
			continue
		}
		for j := 0; j < 2; j++ {
			if (j == 0) != neg {
				own.t[edgeKey{b.Index, j}] = true
			} else {
				own.f[edgeKey{b.Index, j}] = true
			}
		}
		own.lists = append(own.lists, m.list)
	}
	return own
}

// c02FreshMapAt: the map was made in this function (freshMap), or it is a parameter of a function all of whose callers are
// known (c05CallSites) and every one of them hands in a map it has made itself: the store goes into a map that is as
// fresh as if the helper's body stood at the call site.
func c02FreshMapAt(w *World, v ssa.Value, depth int) bool {
	if freshMap(v, 0) {
		return true
	}
	par, ok := v.(*ssa.Parameter)
	if !ok || depth > 2 {
		return false
	}
	fn := par.Parent()
	sites, closed := c05CallSites(w, fn)
	idx := -1
	for i, q := range fn.Params {
		if q == par {
			idx = i
		}
	}
	if !closed || len(sites) == 0 || idx < 0 {
		return false
	}
	for _, s := range sites {
		if idx >= len(s.Call.Args) || !c02FreshMapAt(w, s.Call.Args[idx], depth+1) {
			return false
		}
	}
	return true
}

// c02CachedContains: v is `slices.Contains(list, X)` computed on some paths and the constant false on the others, merged by
// a phi — `var owns bool; if named { …; owns = slices.Contains(caps, X) }`. Accepted when a capability list Q merged in the
// same block brings, over every edge that brings false, an empty list, and over every other edge the very list that was
// searched: then v IS slices.Contains(Q, X) (nothing is on an empty list), and Q is the list the answer is about.
func c02CachedContains(w *World, v ssa.Value) (X string, list ssa.Value, ok bool) {
	p, isPhi := v.(*ssa.Phi)
	if !isPhi || !isBoolType(p.Type()) {
		return "", nil, false
	}
	searched := map[int]ssa.Value{}
	for i, e := range p.Edges {
		if k, isK := boolConst(e); isK {
			if k {
				return "", nil, false
			}
			continue
		}
		call, isCall := e.(*ssa.Call)
		if !isCall || calleeName(call) != "slices.Contains" || len(call.Call.Args) != 2 {
			return "", nil, false
		}
		k, isK := call.Call.Args[1].(*ssa.Const)
		if !isK || k.Value == nil || (X != "" && constString(k) != X) {
			return "", nil, false
		}
		X = constString(k)
		searched[i] = call.Call.Args[0]
	}
	if len(searched) == 0 {
		return "", nil, false
	}
	for _, in := range p.Block().Instrs {
		q, isQ := in.(*ssa.Phi)
		if !isQ {
			break
		}
		if !c02IsCapsType(q.Type()) || len(q.Edges) != len(p.Edges) {
			continue
		}
		good := true
		for i, e := range q.Edges {
			if l, was := searched[i]; was {
				if e != l && !(c02SubsetOf(w, e, l) && c02SubsetOf(w, l, e)) {
					good = false
				}
			} else if !c02AllEmpty(w, e) {
				good = false
			}
		}
		if good {
			return X, q, true
		}
	}
	return "", nil, false
}

// ---------- the role of an argument, wherever the value travels (fifth pass) --------------------------------------------
//
// Class "several parameters bundled into a struct / value held in a local / parameter widened": the native identity check
// is recognised by WHAT it is handed — the trusted identities of the policy statement and the certificate chain of the
// signature — not by the parameter of P the identities arrive in. paramFedBy answers "which parameter of P does every
// caller feed with `….TrustedIdentities`"; when the four policy parameters become one `policy` struct there is no such
// parameter any more, yet the value handed to the check is the same. c02FedBy asks the question on the value: every value
// the argument can be (c02Leaves: through phis, parameters of functions with a closed call-site list back to the arguments
// of every call site, fields of struct VALUES back to the single place the field was built, results of module helpers back
// to what they return) is a read whose access path ends in the suffix, and the expansion is complete. A field that is
// assigned in more than one place, a struct whose address escapes or an open call-site list stop the expansion at a leaf
// that does not end in the suffix: the argument is then not recognised and the rule stays undecided (never accepted).
func c02FedBy(w *World, v ssa.Value, suffix string) bool {
	leaves, ok := c02Leaves(w, v)
	if !ok || len(leaves) == 0 {
		return false
	}
	for _, l := range leaves {
		if !strings.HasSuffix(desc(l), suffix) {
			return false
		}
	}
	return true
}

// ---------- "the signature names a verification plugin", however the lookup spells it (fifth pass) ----------------------
//
// The reference tree decides the clause on the NAME: `name, err := reader(signerInfo)`, then `if name != "" {…}`. The name
// comes from a reader N of the module, `(…) -> (string, error)`, and N's two results are not independent: that is what the
// class "sentinel error vs empty value" / "guard clauses on the error vs test of the value" of rewrites relies on
// (`if err == errNotExist { return none }; if err != nil { return err }; …named…`). A test of the reader's ERROR decides the
// clause exactly when it decides the name, and that is established on N's own code, in both directions:
//
//	err == nil  =>  name != ""   every success-capable exit of N has passed `name != ""` or `strings.TrimSpace(name) != ""` of
//	                             the value it returns as the name (N's summary); TrimSpace returns a sub-slice of its argument
//	                             (standard library): a non-empty result needs a non-empty argument. For the same reason the
//	                             LABEL `NE(strings.TrimSpace(name),"")` is accepted wherever `NE(name,"")` is — whether the
//	                             engine composed it into L's facts through N or it was written on the spot;
//	err != nil  =>  name == ""   every return of N whose error operand is not the nil constant delivers the constant "" as
//	                             the name (c02ErrMeansNoName, on the SSA returns of N, per phi edge for a single exit);
//	err == G    =>  err != nil   for a package-level error variable G that is assigned once, in its package initialiser,
//	                             the result of errors.New / fmt.Errorf (never nil), whose address goes nowhere
//	                             (c02NonNilErrGlobal); likewise errors.Is(err, G).
//
// If N does not have that shape (a return `name, err` with both set), the error spellings decide nothing and the rule set
// stands as before: only tests of the name count.
type c02NameFacts struct {
	nameD     string
	errD      string   // the reader's error result, printed; "" when an error of the reader says nothing about the name
	errNamed  bool     // the reader answers err == nil only with a name it has found non-empty
	errTrim   bool     // … which it has found non-BLANK: with errD, a blank name (TrimSpace(name) == "") is the empty name
	sentinels []string // printed forms of the never-nil error globals
}

func c02NameFactsOf(ro *c02Roles) *c02NameFacts {
	w := ro.w
	nameV := ro.getCall.Call.Args[1]
	nf := &c02NameFacts{nameD: desc(nameV)}
	e, ok := c02Unconv(nameV).(*ssa.Extract)
	if !ok {
		return nf
	}
	nc, ok := e.Tuple.(*ssa.Call)
	if !ok {
		return nf
	}
	N := staticCallee(nc)
	if N == nil || N.Blocks == nil || !w.IsProductFn(N) || !c02ReturnsError(N) || !c02ErrMeansNoName(N, e.Index) {
		return nf
	}
	nf.errD = descTailErr(nc)
	// err == nil => name != "": every success-capable exit of N has passed a test that says so of the very value it returns
	if s := w.Summarize(N, Mode{Kind: mErr}); s.Complete && len(s.Exits) > 0 {
		nf.errNamed, nf.errTrim = true, true
		for _, ex := range s.Exits {
			rs := c02ExitResults(ex)
			own := &c02NameFacts{nameD: desc(rs[e.Index])}
			found := false
			for l := range ex.Checked {
				found = found || own.named(l)
			}
			if !found {
				nf.errNamed = false
			}
			trimmed := false
			for l := range ex.Checked {
				trimmed = trimmed || c02StrTest(l, "NE", "call:strings.TrimSpace("+own.nameD+")")
			}
			if !trimmed {
				nf.errTrim = false
			}
		}
	}
	seen := map[*ssa.Global]bool{}
	for _, f := range w.moduleCallees(N) {
		for _, b := range f.Blocks {
			r, isRet := blockTerm(b).(*ssa.Return)
			if !isRet || len(r.Results) == 0 {
				continue
			}
			ld, isLd := r.Results[len(r.Results)-1].(*ssa.UnOp)
			if !isLd || ld.Op != token.MUL {
				continue
			}
			if g, isG := ld.X.(*ssa.Global); isG && !seen[g] && c02NonNilErrGlobal(w, g) {
				seen[g] = true
				nf.sentinels = append(nf.sentinels, desc(ld))
			}
		}
	}
	return nf
}

// named: on an edge / exit carrying the label l the signature names a plugin.
func (nf *c02NameFacts) named(l string) bool {
	trim := "call:strings.TrimSpace(" + nf.nameD + ")"
	if c02StrTest(l, "NE", nf.nameD) || c02StrTest(l, "NE", trim) {
		return true
	}
	return nf.errD != "" && nf.errNamed && l == "EQ("+nf.errD+",nil)"
}

// unnamed: on an edge / exit carrying the label l the signature names no plugin.
func (nf *c02NameFacts) unnamed(l string) bool {
	if c02StrTest(l, "EQ", nf.nameD) {
		return true
	}
	if nf.errD == "" {
		return false
	}
	if l == "NE("+nf.errD+",nil)" {
		return true
	}
	// a non-empty name came with err == nil (errD), which the reader answers for a non-blank name only (errTrim): a blank name
	// is the empty one
	if nf.errTrim && c02StrTest(l, "EQ", "call:strings.TrimSpace("+nf.nameD+")") {
		return true
	}
	for _, g := range nf.sentinels {
		if l == "EQ("+nf.errD+","+g+")" || l == "EQ("+g+","+nf.errD+")" || l == "T(call:errors.Is("+nf.errD+","+g+"))" {
			return true
		}
	}
	return false
}

// c02StrTest: the label is the test `x == ""` (op EQ) / `x != ""` (op NE) of the string x, in one of the engine's two normal
// forms (compared with "", or its length compared with 0).
func c02StrTest(l, op, x string) bool {
	return l == op+"("+x+`,const:"")` || l == op+"(len("+x+"),const:0)"
}

func (nf *c02NameFacts) namedEdges(fi *FnInfo) map[edgeKey]bool {
	return fi.edgesMatching(func(l string, _ *ssa.If, _ bool) bool { return nf.named(l) })
}

func (nf *c02NameFacts) unnamedEdges(fi *FnInfo) map[edgeKey]bool {
	return fi.edgesMatching(func(l string, _ *ssa.If, _ bool) bool { return nf.unnamed(l) })
}

// c02ErrMeansNoName: every way N returns delivers the nil constant as its error or the constant "" as result k. Operands
// that are phis of the return block (single exit with result variables) are judged edge by edge.
func c02ErrMeansNoName(N *ssa.Function, k int) bool {
	n := 0
	for _, b := range N.Blocks {
		r, ok := blockTerm(b).(*ssa.Return)
		if !ok {
			continue
		}
		if k >= len(r.Results)-1 {
			return false
		}
		n++
		nv, ev := r.Results[k], r.Results[len(r.Results)-1]
		if isNilConst(ev) || c02IsEmptyString(nv) {
			continue
		}
		np, nIsPhi := nv.(*ssa.Phi)
		ep, eIsPhi := ev.(*ssa.Phi)
		if nIsPhi && np.Block() != b {
			nIsPhi = false
		}
		if eIsPhi && ep.Block() != b {
			eIsPhi = false
		}
		if !nIsPhi && !eIsPhi {
			return false
		}
		for i := range b.Preds {
			x, y := nv, ev
			if nIsPhi {
				x = np.Edges[i]
			}
			if eIsPhi {
				y = ep.Edges[i]
			}
			if !isNilConst(y) && !c02IsEmptyString(x) {
				return false
			}
		}
	}
	return n > 0
}

var c02NonNilMemo = map[*ssa.Global]bool{}

// c02NonNilErrGlobal: g is a package-level variable of the module that holds a non-nil error for the whole run: one store
// in the program, in the initialiser of its package, of the result of errors.New or fmt.Errorf; every other use is a load.
func c02NonNilErrGlobal(w *World, g *ssa.Global) bool {
	if r, ok := c02NonNilMemo[g]; ok {
		return r
	}
	// (an exported variable can be assigned by code outside the module)
	ok := g.Pkg != nil && g.Pkg.Pkg != nil && strings.HasPrefix(g.Pkg.Pkg.Path(), modPath) && !token.IsExported(g.Name())
	fns := append([]*ssa.Function{}, w.Funcs...)
	if ok {
		if in := g.Pkg.Func("init"); in != nil {
			dup := false
			for _, f := range fns {
				if f == in {
					dup = true
				}
			}
			if !dup {
				fns = append(fns, in)
			}
		}
	}
	stores := 0
	for _, fn := range fns {
		if !ok {
			break
		}
		for _, b := range fn.Blocks {
			for _, in := range b.Instrs {
				uses := false
				for _, op := range in.Operands(nil) {
					if op != nil && *op == ssa.Value(g) {
						uses = true
					}
				}
				if !uses {
					continue
				}
				switch x := in.(type) {
				case *ssa.UnOp:
					if x.Op != token.MUL {
						ok = false
					}
				case *ssa.DebugRef:
				case *ssa.Store:
					call, isCall := x.Val.(*ssa.Call)
					if x.Addr != ssa.Value(g) || x.Val == ssa.Value(g) || !isCall || fn.Name() != "init" || fn.Pkg != g.Pkg || fn.Parent() != nil {
						ok = false
						break
					}
					if cn := calleeName(call); cn != "errors.New" && cn != "fmt.Errorf" {
						ok = false
					}
					stores++
				default:
					ok = false
				}
			}
		}
	}
	ok = ok && stores == 1
	c02NonNilMemo[g] = ok
	return ok
}

// ---------- guard-mutation pass: must-pass forms of the verdict and execution rules ---------------------------------------

// c02SaysCapability: the If edge (cond, truth) is the one on which a value equals the capability constant val — the
// entry of the arm that handles this capability, whether the arm is a `case` of a switch, the then-branch of `c == X`
// or the fall-through of `if c != X { continue }`.
func c02SaysCapability(cond ssa.Value, truth bool, val string) bool {
	switch x := cond.(type) {
	case *ssa.UnOp:
		if x.Op == token.NOT {
			return c02SaysCapability(x.X, !truth, val)
		}
	case *ssa.BinOp:
		if x.Op != token.EQL && x.Op != token.NEQ {
			return false
		}
		q := fmt.Sprintf("%q", val)
		isCap := func(v ssa.Value) bool {
			k, ok := c02Unconv(v).(*ssa.Const)
			return ok && constString(k) == q
		}
		if isCap(x.X) == isCap(x.Y) {
			return false
		}
		return (x.Op == token.EQL) == truth
	}
	return false
}

// c02SaysSuccess: what the If edge (cond, truth) says about the Success flag of a plugin verdict
// (plugin.VerificationResult.Success, a field of an exported type of the plugin framework): `r.Success`, `!r.Success`,
// `r.Success == false`, `false != r.Success`, a local the flag was copied to — all the same SSA load. ok is false when the
// condition is not about a verdict's Success flag.
func c02SaysSuccess(cond ssa.Value, truth bool, depth int) (success, ok bool) {
	if depth > 4 {
		return false, false
	}
	switch x := cond.(type) {
	case *ssa.UnOp:
		if x.Op == token.NOT {
			return c02SaysSuccess(x.X, !truth, depth+1)
		}
		if x.Op == token.MUL {
			if fa, isFa := x.X.(*ssa.FieldAddr); isFa && fieldName(fa.X.Type(), fa.Field) == "Success" && namedOf(fa.X.Type()) == "pfw/plugin.VerificationResult" {
				return truth, true
			}
		}
	case *ssa.Field:
		if fieldName(x.X.Type(), x.Field) == "Success" && namedOf(x.X.Type()) == "pfw/plugin.VerificationResult" {
			return truth, true
		}
	case *ssa.BinOp:
		if x.Op != token.EQL && x.Op != token.NEQ {
			return false, false
		}
		for _, pr := range [][2]ssa.Value{{x.X, x.Y}, {x.Y, x.X}} {
			if k, isK := pr[1].(*ssa.Const); isK && k.Value != nil && k.Value.Kind() == constant.Bool {
				// v == true, v != false keep the sense; v == false, v != true invert it
				same := (x.Op == token.EQL) == constant.BoolVal(k.Value)
				if same {
					return c02SaysSuccess(pr[0], truth, depth+1)
				}
				return c02SaysSuccess(pr[0], !truth, depth+1)
			}
		}
	}
	return false, false
}

// c02VerdictEveryPath — the must-pass form of the plugin-verdict rule (plugin/verdict-<capability>/every-path).
//
// Property clause: "a capability the plugin declares replaces the corresponding native check" and "verification fails
// exactly when a validation whose action is enforce … failed". For a capability the plugin was asked to verify the
// plugin's verdict is the only check there is (the native one is skipped by the routing). If an iteration of the verdict
// loop can be completed — the next capability reached, or the response processing left with a nil error — on a path that
// neither passed the edge on which the verdict's Success flag is true nor put a non-nil Error into a validation result,
// then a signature the plugin rejected is processed exactly like one it accepted: the failed validation is neither
// reported nor, under `enforce`, rejected. Hence, necessarily: with the edges {Success is true} and the edges behind which
// a non-nil Error is stored in a ValidationResult removed from the graph of the response processing, neither the loop
// header nor a success exit is reachable from the entry of the capability's arm.
//
// The older rule plugin/verdict-<capability> starts at the edge on which Success is false and therefore holds vacuously
// when that edge exists but is not taken (`if strict && !r.Success`, `if false && (!r.Success)`): the path that does not
// ask is not among the paths it looks at. This rule starts at the arm.
//
// Shapes accepted: `if !r.Success { store }`, `if r.Success { continue }; store`, `switch { case !r.Success: … }`,
// `r.Success == false`, the flag copied to a local, an error local merged into a constructor call (c02ErrorStores); arm
// entered by `case X:`, `if c == X`, `if c != X { continue }`. Not decided on names or statement order.
func c02VerdictEveryPath(c *Ctx, R *ssa.Function, fi *FnInfo, headers map[int]bool, name, val string) {
	w := c.W
	key := "plugin/verdict-" + name + "/every-path"
	rule := "plugin verdict (every path): under capability " + val + " every path from the entry of the capability's arm of the verdict loop to the next iteration or to a success exit passes the edge on which the verdict's Success flag is true or stores a non-nil Error into a validation result"
	inLoop := map[int]bool{}
	for h := range headers {
		for b := range loopBlocks(R.Blocks[h]) {
			inLoop[b] = true
		}
	}
	var starts []state
	for _, b := range R.Blocks {
		iff, ok := blockTerm(b).(*ssa.If)
		if !ok || len(b.Succs) != 2 || !inLoop[b.Index] {
			continue
		}
		for j := 0; j < 2; j++ {
			if c02SaysCapability(iff.Cond, j == 0, val) {
				starts = append(starts, state{b.Succs[j].Index, 0, -1})
			}
		}
	}
	cut := map[edgeKey]bool{}
	nStores := c02ErrorStores(w, fi, R, cut)
	nPass := 0
	for e := range fi.edgesMatching(func(_ string, iff *ssa.If, truth bool) bool {
		s, ok := c02SaysSuccess(iff.Cond, truth, 0)
		return ok && s
	}) {
		cut[e] = true
		nPass++
	}
	c.Evals += 2
	if len(starts) == 0 {
		c.Bad(key, rule, w.FnPos(R), "no arm for capability "+val+" in the verdict loop of "+fnName(R))
		return
	}
	if nPass == 0 || nStores == 0 {
		c.Bad(key, rule, w.FnPos(R), fmt.Sprintf("edges on which a verdict's Success flag is true: %d, stores of a non-nil Error into a validation result: %d", nPass, nStores))
		return
	}
	if fi.reachHit(starts, cut, headers) {
		c.Bad(key, rule, w.FnPos(R), "the next iteration of the verdict loop can be reached without asking the verdict's Success flag and without recording an error: a failed plugin verdict is passed over")
		return
	}
	if p := fi.successWitness(Mode{Kind: mErr}, starts, cut); p != nil {
		c.Bad(key, rule, w.FnPos(R), "a success exit can be reached without asking the verdict's Success flag and without recording an error: a failed plugin verdict is passed over", p...)
		return
	}
	c.OK(key, rule, w.FnPos(R))
	c02VerdictResultType(c, R, fi, headers, starts, name, val)
}

// c02HasMethod: t is an interface type with a method of that name (VerifySignature is exported API of the plugin framework).
func c02HasMethod(t types.Type, name string) bool {
	it, ok := t.Underlying().(*types.Interface)
	if !ok {
		return false
	}
	for i := 0; i < it.NumMethods(); i++ {
		if it.Method(i).Name() == name {
			return true
		}
	}
	return false
}

// c02LenArg: cond (through negations) compares len(v) with a constant; returns v.
func c02LenArg(cond ssa.Value) ssa.Value {
	for {
		u, isU := cond.(*ssa.UnOp)
		if !isU || u.Op != token.NOT {
			break
		}
		cond = u.X
	}
	bo, ok := cond.(*ssa.BinOp)
	if !ok {
		return nil
	}
	for _, o := range []ssa.Value{bo.X, bo.Y} {
		if call, isC := o.(*ssa.Call); isC {
			if bi, isB := call.Call.Value.(*ssa.Builtin); isB && bi.Name() == "len" && len(call.Call.Args) == 1 {
				return call.Call.Args[0]
			}
		}
	}
	return nil
}

// c02ExecutedWhenRequested — routing/executed-when-requested: the other half of "the plugin is executed iff there is
// something to ask it".
//
// Property clauses: "a capability the plugin declares replaces the corresponding native check" and "verification fails …
// when the verification plugin … omits a verdict it was asked for". The routing skips the native identity / revocation
// check for every capability on the plugin's declared list; what stands in for the skipped check is the plugin's verdict,
// and the verdict exists only if the plugin is run. A success path on which a plugin is named, the request list is not
// empty and the plugin is not executed therefore accepts the signature with a validation performed by nobody. Hence,
// necessarily, on the graph of the processing function (and of every helper between it and the VerifySignature call, for
// the part of the way that lies in the helper): with
//   - the edges "no plugin is named" (c02Boundary),
//   - the edges on which the plugin object is nil (with a plugin named the object is the one Manager.Get returned with a
//     nil error: plugin/get-error, plugin/lookup-results),
//   - the edges on which the request list handed to the execution is empty (len == 0, == nil) — the one legitimate reason
//     not to run the plugin (the known finding F8b lives on those edges and is reported by critical-attr-accounting), and
//   - the edges into the block of the execution call
//
// removed, no success exit is reachable from the entry.
//
// routing/executed-iff-requested only asks for the guards OF the call (`len > 0` is must-pass before it); it says nothing
// about the paths around the call, so an enclosing guard that is not taken (`if strict && plugin != nil {`) goes unseen.
//
// Shapes accepted: `if p != nil { …; if len(req) > 0 { exec } }`, early returns (`if len(req) == 0 { return nil }`),
// the execution (with or without the filter and the emptiness test) in a helper, the tests in any order or nesting.
func c02ExecutedWhenRequested(c *Ctx, ro *c02Roles) {
	w := c.W
	rule := "routing (executed when requested): with a plugin named and a non-empty capability request every success path executes the plugin (no success exit is reachable around the execution call except over an edge on which no plugin is named, the plugin object is nil or the request list is empty)"
	n := 0
	for _, f := range w.moduleCallees(ro.P) {
		if f.Blocks == nil || f.Parent() != nil || !w.IsProductFn(f) || !c02ReturnsError(f) || !c02ReachesExec(w, f) {
			continue
		}
		fi := w.Info(f)
		cut := map[edgeKey]bool{}
		req := map[ssa.Value]bool{}
		var execs []*ssa.Call
		for _, ci := range allCalls(f) {
			call, ok := ci.(*ssa.Call)
			if !ok {
				continue
			}
			isExec := calleeName(call) == c02VerifyName
			if g := staticCallee(call); g != nil && g != f && c02ReachesExec(w, g) {
				isExec = true
			}
			if !isExec {
				continue
			}
			execs = append(execs, call)
			cutInto(fi, call.Block(), cut)
			for _, a := range call.Call.Args {
				if c02IsCapsType(a.Type()) {
					for v := range fwdPhis(a) {
						req[v] = true
					}
					req[a] = true
					if p, isPhi := a.(*ssa.Phi); isPhi {
						for _, e := range p.Edges {
							req[e] = true
						}
					}
				}
			}
		}
		if len(execs) == 0 {
			continue
		}
		inEntry := false
		for _, x := range execs {
			if x.Block().Index == 0 {
				inEntry = true // the execution is in the entry block: no path of f goes around it
			}
		}
		if inEntry {
			n++
			c.OK("routing/executed-when-requested/"+fnName(f), rule, w.InstrPos(execs[0]))
			continue
		}
		if f == ro.P {
			for e := range ro.unnamed {
				cut[e] = true
			}
		}
		for _, b := range f.Blocks {
			iff, ok := blockTerm(b).(*ssa.If)
			if !ok || len(b.Succs) != 2 {
				continue
			}
			for j := 0; j < 2; j++ {
				truth := j == 0
				// the plugin object is nil
				if bo, isB := c02StripNot(iff.Cond, &truth).(*ssa.BinOp); isB && (bo.Op == token.EQL || bo.Op == token.NEQ) {
					var o ssa.Value
					if isNilConst(bo.Y) {
						o = bo.X
					} else if isNilConst(bo.X) {
						o = bo.Y
					}
					if o != nil && (bo.Op == token.EQL) == truth && (c02HasMethod(o.Type(), "VerifySignature") || req[o]) {
						cut[edgeKey{b.Index, j}] = true
					}
				}
				// the request list is empty
				if v := c02LenArg(iff.Cond); v != nil && req[v] {
					l := condLabel(iff.Cond, j == 0)
					if strings.HasPrefix(l, "EQ(len(") && strings.HasSuffix(l, "),const:0)") {
						cut[edgeKey{b.Index, j}] = true
					}
				}
			}
		}
		c.Evals++
		n++
		key := "routing/executed-when-requested/" + fnName(f)
		if path := fi.successWitness(Mode{Kind: mErr}, entryState(), cut); path != nil {
			c.Bad(key, rule, w.InstrPos(execs[0]), "a success exit of "+fnName(f)+" is reachable with a plugin named and a non-empty request without executing the plugin: the checks the plugin's capabilities replaced are performed by nobody", path...)
		} else {
			c.OK(key, rule, w.InstrPos(execs[0]))
		}
	}
	c.MinCount("routing/executed-when-requested/", 1, "functions on the way to the plugin execution")
}

// c02StripNot removes leading negations of cond, flipping *truth accordingly.
func c02StripNot(cond ssa.Value, truth *bool) ssa.Value {
	for {
		u, isU := cond.(*ssa.UnOp)
		if !isU || u.Op != token.NOT {
			return cond
		}
		*truth = !*truth
		cond = u.X
	}
}

// c02FailedVerdictEdge: the If edge on which a plugin verdict's Success flag is false — by its label (`!r.Success`) or by
// the value tested (`r.Success == false`, `false == r.Success`: the same fact spelled as a comparison).
func c02FailedVerdictEdge(l string, cond ssa.Value, truth bool, respD string) bool {
	if strings.HasPrefix(l, "F(") && strings.Contains(l, respD+".VerificationResults[") && strings.HasSuffix(l, ".Success)") {
		return true
	}
	s, ok := c02SaysSuccess(cond, truth, 0)
	return ok && !s
}

// ---------- the result that receives a plugin verdict -------------------------------------------------------------------

// c02Env maps the parameters of a helper to the arguments of the call the walk came through (context-sensitive, as in
// c02ResultTypes).
type c02Env struct {
	m  map[*ssa.Parameter]ssa.Value
	up *c02Env
}

type c02TypeLook struct {
	w      *World
	want   string // the validation type, as a quoted constant
	leaves int    // results decided (allocated with the type, or selected by a test of their Type)
}

// konst: v is the wanted validation type (a constant, or a parameter whose argument is).
func (t *c02TypeLook) konst(v ssa.Value, env *c02Env) bool {
	switch x := c02Unconv(v).(type) {
	case *ssa.Const:
		return x.Value != nil && constString(x) == t.want
	case *ssa.Parameter:
		if env != nil {
			if a, ok := env.m[x]; ok {
				return t.konst(a, env.up)
			}
		}
	}
	return false
}

// says: what the If edge (cond, truth) says about `e.Type == wanted` for the result e (eq), if it is about that at all.
func (t *c02TypeLook) says(cond ssa.Value, truth bool, e ssa.Value, env *c02Env) (eq, ok bool) {
	bo, isB := c02StripNot(cond, &truth).(*ssa.BinOp)
	if !isB || (bo.Op != token.EQL && bo.Op != token.NEQ) {
		return false, false
	}
	isType := func(v ssa.Value) bool {
		u, isU := c02Unconv(v).(*ssa.UnOp)
		if !isU || u.Op != token.MUL {
			return false
		}
		fa, isFa := u.X.(*ssa.FieldAddr)
		// the same element read twice (`list[i].Type == t` … `= list[i]`) prints the same: same list, same index value
		return isFa && (fa.X == e || desc(fa.X) == desc(e)) && isVRPtr(fa.X.Type()) && fieldName(fa.X.Type(), fa.Field) == "Type"
	}
	if (isType(bo.X) && t.konst(bo.Y, env)) || (isType(bo.Y) && t.konst(bo.X, env)) {
		return (bo.Op == token.EQL) == truth, true
	}
	return false, false
}

// typeEdges: the edges of fn on which e.Type == wanted (eq) / e.Type != wanted or e == nil (!eq).
func (t *c02TypeLook) typeEdges(fn *ssa.Function, e ssa.Value, env *c02Env, eq bool) map[edgeKey]bool {
	out := map[edgeKey]bool{}
	for _, b := range fn.Blocks {
		iff, ok := blockTerm(b).(*ssa.If)
		if !ok || len(b.Succs) != 2 {
			continue
		}
		for j := 0; j < 2; j++ {
			if s, ok := t.says(iff.Cond, j == 0, e, env); ok && s == eq {
				out[edgeKey{b.Index, j}] = true
			}
			if !eq {
				truth := j == 0
				if bo, isB := c02StripNot(iff.Cond, &truth).(*ssa.BinOp); isB && (bo.Op == token.EQL || bo.Op == token.NEQ) && (bo.Op == token.EQL) == truth {
					if (bo.X == e && isNilConst(bo.Y)) || (bo.Y == e && isNilConst(bo.X)) {
						out[edgeKey{b.Index, j}] = true
					}
				}
			}
		}
	}
	return out
}

// pred: the predicate handed to slices.IndexFunc answers true exactly for results of the wanted type.
func (t *c02TypeLook) pred(v ssa.Value, env *c02Env) string {
	var pf *ssa.Function
	switch x := c02Unconv(v).(type) {
	case *ssa.Function:
		pf = x
	case *ssa.MakeClosure:
		pf, _ = x.Fn.(*ssa.Function)
	}
	if pf == nil || pf.Blocks == nil || len(pf.Params) != 1 || !isVRPtr(pf.Params[0].Type()) {
		return "unk: the predicate handed to slices.IndexFunc is not followed"
	}
	q := pf.Params[0]
	fi := t.w.Info(pf)
	for _, b := range pf.Blocks {
		r, ok := blockTerm(b).(*ssa.Return)
		if !ok || len(r.Results) != 1 {
			continue
		}
		if eq, ok := t.says(r.Results[0], true, q, nil); ok && eq {
			continue // return q.Type == wanted
		}
		k, isK := r.Results[0].(*ssa.Const)
		if !isK || k.Value == nil || k.Value.Kind() != constant.Bool {
			return "unk: the predicate " + fnName(pf) + " answers with a computed value"
		}
		// `return true` only behind q.Type == wanted, `return false` only behind q.Type != wanted
		if b.Index == 0 || fi.reachHit(entryState(), t.typeEdges(pf, q, nil, constant.BoolVal(k.Value)), map[int]bool{b.Index: true}) {
			return "bad: the predicate " + fnName(pf) + " answers " + k.Value.String() + " on a path that did not compare the result's Type with " + t.want
		}
	}
	return ""
}

// look: v, consumed in block `at` of fn, is nil or a validation result whose Type is the wanted one, and where it was
// selected from a list no element of the wanted type was passed over. "" if so, else "bad: …" / "unk: …".
func (t *c02TypeLook) look(v ssa.Value, fn *ssa.Function, env *c02Env, at *ssa.BasicBlock, depth int) string {
	if depth > 8 {
		return "unk: value chain too deep"
	}
	w := t.w
	switch x := v.(type) {
	case *ssa.Const:
		if x.IsNil() {
			return "" // no result: the store faults, nothing lands in another result
		}
	case *ssa.Phi:
		for i, e := range x.Edges {
			if i < len(x.Block().Preds) {
				if why := t.look(e, fn, env, x.Block().Preds[i], depth+1); why != "" {
					return why
				}
			}
		}
		return ""
	case *ssa.Alloc:
		if namedOf(x.Type()) != vrType || x.Referrers() == nil {
			break
		}
		n := 0
		for _, r := range *x.Referrers() {
			fa, ok := r.(*ssa.FieldAddr)
			if !ok || fieldName(x.Type(), fa.Field) != "Type" || fa.Referrers() == nil {
				continue
			}
			for _, rr := range *fa.Referrers() {
				if st, ok := rr.(*ssa.Store); ok && st.Addr == ssa.Value(fa) {
					n++
					if !t.konst(st.Val, env) {
						return "bad: the result is built with Type " + desc(st.Val) + ", not " + t.want
					}
				}
			}
		}
		if n == 0 {
			return "bad: the result is built without a Type"
		}
		t.leaves++
		return ""
	case *ssa.Call, *ssa.Extract:
		call := callOf(v)
		k := 0
		if e, isE := v.(*ssa.Extract); isE {
			k = e.Index
		}
		if call == nil {
			break
		}
		g := staticCallee(call)
		if g == nil || g.Blocks == nil || !w.IsProductFn(g) || len(call.Call.Args) != len(g.Params) {
			break
		}
		ne := &c02Env{m: map[*ssa.Parameter]ssa.Value{}, up: env}
		for i, q := range g.Params {
			ne.m[q] = call.Call.Args[i]
		}
		n := 0
		for _, b := range g.Blocks {
			if r, ok := blockTerm(b).(*ssa.Return); ok && k < len(r.Results) {
				n++
				if why := t.look(r.Results[k], g, ne, b, depth+1); why != "" {
					return why
				}
			}
		}
		if n > 0 {
			return ""
		}
	case *ssa.UnOp:
		if x.Op != token.MUL {
			break
		}
		ia, ok := x.X.(*ssa.IndexAddr)
		if !ok {
			break
		}
		// list[slices.IndexFunc(list, pred)]
		if ic := callOf(ia.Index); ic != nil && calleeName(ic) == "slices.IndexFunc" && len(ic.Call.Args) == 2 {
			if ic.Call.Args[0] != ia.X && desc(ic.Call.Args[0]) != desc(ia.X) { // two loads of the same field are the same list
				return "bad: the index found in " + desc(ic.Call.Args[0]) + " is applied to " + desc(ia.X)
			}
			if why := t.pred(ic.Call.Args[1], env); why != "" {
				return why
			}
			t.leaves++
			return ""
		}
		// the current element of a loop over a list of results
		fi := w.Info(fn)
		if at == nil || at.Index == 0 || fi.reachHit(entryState(), t.typeEdges(fn, v, env, true), map[int]bool{at.Index: true}) {
			return "bad: the result taken from " + desc(ia.X) + " is used on a path that did not pass `Type == " + t.want + "` for it"
		}
		var loop *sliceLoop
		size := 0
		for _, sl := range sliceLoops(fn) {
			sl := sl
			lb := loopBlocks(sl.Header)
			if lb[x.Block().Index] && (loop == nil || len(lb) < size) {
				loop, size = &sl, len(lb)
			}
		}
		// the loop whose index selects the element (the element may be read again behind the test, outside the natural loop:
		// `if list[i].Type == t { found = list[i]; break }`)
		if ii, isI := ia.Index.(ssa.Instruction); isI {
			for _, sl := range sliceLoops(fn) {
				sl := sl
				if sl.Header == ii.Block() {
					loop = &sl
				}
			}
		}
		if loop == nil {
			return "unk: the result taken from " + desc(ia.X) + " is not the element of a recognised loop"
		}
		// within one iteration: the edges that leave the loop are no way to the next element
		moveOn := t.typeEdges(fn, v, env, false)
		lb := loopBlocks(loop.Header)
		for bi := range lb {
			for j, sc := range fn.Blocks[bi].Succs {
				if !lb[sc.Index] {
					moveOn[edgeKey{bi, j}] = true
				}
			}
		}
		if fi.reachHit([]state{{loop.Body.Index, 0, -1}}, moveOn, map[int]bool{loop.Header.Index: true}) {
			return "bad: the search in " + desc(ia.X) + " can pass over an element without having found its Type different from " + t.want + ": the result of that type is not found"
		}
		t.leaves++
		return ""
	}
	return "unk: the origin of the result is not followed: " + desc(v)
}

// c02VerdictResultType — plugin/verdict-<capability>/result-type.
//
// Property clauses: "every reported result carries the action the level assigns to its type", "a failed validation
// whose action is log is reported in the outcome but does not fail it", "verification fails exactly when a validation
// whose action is enforce … failed". The plugin's verdict on trusted identities is the outcome of the AUTHENTICITY
// validation, its verdict on revocation that of the REVOCATION validation. The error of a failed verdict must therefore
// land in a validation result of that type: in another result it is gated by another type's action (an identity failure
// rejected under `audit` because integrity is always enforced, or let through although authenticity is enforced); in no
// result at all (the search for the authenticity result comes back empty although the result is on the list) the failure
// is reported nowhere. Hence, necessarily, for every store of an Error into a validation result in the capability's arm
// of the verdict loop, every value the stored-to result can be is
//   - nil (the search found nothing), or
//   - a result allocated with Type = the capability's validation type (directly or by a constructor called with it), or
//   - an element of a list that was selected behind `element.Type == type` (every path to the place the element is taken
//     passes that edge), while the search moves on to the next element only behind `element.Type != type` (or a nil
//     element): the first result of the type is found whenever there is one; or list[slices.IndexFunc(list, p)] with a
//     predicate p that answers true exactly behind that comparison.
//
// The search may be written inline, in a helper that is handed the type (`first(results, TypeAuthenticity)`: the
// parameter is the argument of the call) or with slices.IndexFunc and a predicate; values are followed through phis,
// returns and calls, not by name.
func c02VerdictResultType(c *Ctx, R *ssa.Function, fi *FnInfo, headers map[int]bool, starts []state, name, val string) {
	w := c.W
	tname := map[string]string{"trusted-identity": "TypeAuthenticity", "revocation": "TypeRevocation"}[name]
	tv, ok := w.constString("verifier/trustpolicy", tname)
	key := "plugin/verdict-" + name + "/result-type"
	rule := "plugin verdict (result type): under capability " + val + " a failed verdict is recorded in a validation result of type trustpolicy." + tname + ": the result stored to is allocated with that type, or is the element of the result list selected by a test of its Type that passes over no element of that type"
	if !ok || tname == "" {
		c.Unk(key, rule, w.FnPos(R), "constant trustpolicy."+tname+" not found")
		return
	}
	var sb []*ssa.BasicBlock
	for _, s := range starts {
		sb = append(sb, R.Blocks[s.b])
	}
	arm := c02CFGReach(sb, nil, func(b *ssa.BasicBlock) bool { return headers[b.Index] })
	t := &c02TypeLook{w: w, want: fmt.Sprintf("%q", tv)}
	nSites := 0
	for _, b := range R.Blocks {
		if !arm[b.Index] || headers[b.Index] {
			continue
		}
		for _, in := range b.Instrs {
			var target ssa.Value
			switch x := in.(type) {
			case *ssa.Store:
				if fa, isFa := x.Addr.(*ssa.FieldAddr); isFa && isVRPtr(fa.X.Type()) && fieldName(fa.X.Type(), fa.Field) == "Error" {
					if k, isK := x.Val.(*ssa.Const); isK && k.IsNil() {
						continue
					}
					target = fa.X
				}
			case *ssa.Call:
				if g := staticCallee(x); g != nil {
					if k := c02CtorErrParam(w, g); k >= 0 && k < len(x.Call.Args) {
						target = x
					}
				}
			}
			if target == nil {
				continue
			}
			nSites++
			c.Evals++
			if why := t.look(target, R, nil, b, 0); why != "" {
				if strings.HasPrefix(why, "unk: ") {
					c.Unk(key, rule, w.InstrPos(in), strings.TrimPrefix(why, "unk: "))
				} else {
					c.Bad(key, rule, w.InstrPos(in), strings.TrimPrefix(why, "bad: "))
				}
				return
			}
		}
	}
	if nSites == 0 || t.leaves == 0 {
		c.Bad(key, rule, w.FnPos(R), fmt.Sprintf("no validation result of type %s receives the error of a failed verdict (stores found in the arm: %d, results decided: %d)", tname, nSites, t.leaves))
		return
	}
	c.OK(key, rule, w.FnPos(R))
}

// c02MinVersionWellFormed — plugin/min-version-wellformed.
//
// Property clause: "verification fails … when the verification plugin the signature demands is … too old". The age test
// is semver.Compare("v"+pluginVersion, "v"+minVersion) != -1, and x/mod/semver orders every string that is not valid
// semver BELOW every valid one: against a minimum version that is not valid semver ("1.2", "v2.0.0", " ") every plugin
// version compares as new enough, so the clause cannot fail. Hence, necessarily: every success path with a plugin named
// on which the minimum-version attribute is present (the edges on which the reader's error is not nil removed)
// passes semver.IsValid(minimum version) — wherever the test is written (in the reader of the attribute: the engine
// composes the facts of the reader's nil-error exits into the caller's `err == nil` edge; or in the caller on the
// reader's result).
func c02MinVersionWellFormed(c *Ctx, fi *FnInfo, mv *ssa.Call, unnamed map[edgeKey]bool, isSent func(l, d string) bool) {
	w := c.W
	rule := "must-check: with a plugin named and a minimum-version attribute present, success requires semver.IsValid(minimum version) (an invalid version compares below every plugin version: the age test would always pass)"
	d := desc(mv) + "#err"
	// the attribute is present exactly where the reader's error is nil: the edges on which it is not (the sentinel, or
	// non-nil at all — a later `err == nil && …` re-test has such an edge, which no execution with a nil error takes)
	cut := fi.edgesMatching(func(l string, _ *ssa.If, _ bool) bool { return isSent(l, d) || l == "NE("+d+",nil)" })
	for e := range unnamed {
		cut[e] = true
	}
	s := fi.summarizeFrom(Mode{Kind: mErr}, entryState(), cut)
	c.Evals += s.States
	ok := len(s.Exits) > 0
	for _, ex := range s.Exits {
		found := false
		for l := range ex.Checked {
			if strings.HasPrefix(l, "T(call:ngo/internal/semver.IsValid(") && (strings.Contains(l, desc(mv)+"#0") || strings.Contains(l, `const:"io.cncf.notary.verificationPluginMinVersion"`)) {
				found = true
			}
		}
		if !found {
			ok = false
		}
	}
	c.Check(ok, "plugin/min-version-wellformed", rule, w.InstrPos(mv), "a minimum-version attribute that is not valid semver is accepted: every plugin version then counts as new enough")
}
