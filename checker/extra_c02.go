package main

// Helpers of the C02 rule set (clauses f, g, h: verification plugins) that separate the ROLES the plugin code plays from
// the function the code happens to be written in:
//
//	L  the function that looks the verification plugin up (it contains the plugin.Manager.Get call),
//	P  the signature-processing function: the lowest function of the verifier package on whose static call tree both the
//	   lookup and the plugin execution (VerifyPlugin.VerifySignature) lie; routing and accounting are decided there.
//
// L and P coincide on the reference tree. When the lookup is extracted into a helper (P calls L), the lookup facts are
// decided on L's own graph and carried to P by three boundary obligations (c02Boundary); values that cross the boundary
// (plugin object, capability list, name) are followed on SSA values through Return -> Extract and Parameter -> argument
// (c02Leaves), never by name.

import (
	"fmt"
	"go/token"
	"go/types"
	"strings"

	"golang.org/x/tools/go/ssa"
)

const (
	c02GetName    = "invoke:ngo/plugin.Manager.Get"
	c02VerifyName = "invoke:pfw/plugin.VerifyPlugin.VerifySignature"
	c02CapsType   = "[]pfw/plugin.Capability"
)

type c02Roles struct {
	w       *World
	L, P    *ssa.Function
	getCall *ssa.Call   // Manager.Get, in L
	mdCalls []*ssa.Call // GetMetadata invoked on the object Manager.Get returned, in L
	lcall   *ssa.Call   // the call of L in P (nil when L == P)
	fr      *c18Frame   // renders labels of helpers on P's call tree in P's frame
	// edges of P on which "the signature names a verification plugin" is decided (filled by c02Boundary)
	named, unnamed map[edgeKey]bool
	// result indices of L (when L != P): the plugin object, the name, the capability list; -1 if not handed back
	pluginIdx, nameIdx, capsIdx int
}

func c02IsCapsType(t types.Type) bool {
	return abbrev(types.TypeString(t, nil)) == c02CapsType
}

func c02HasInvoke(fn *ssa.Function, name string) bool {
	for _, ci := range allCalls(fn) {
		if calleeName(ci) == name {
			return true
		}
	}
	return false
}

// c02ReachesExec: the plugin execution (VerifyPlugin.VerifySignature) lies on the static call tree of g.
func c02ReachesExec(w *World, g *ssa.Function) bool {
	if g == nil || g.Blocks == nil || !w.IsProductFn(g) {
		return false
	}
	for _, f := range w.moduleCallees(g) {
		if c02HasInvoke(f, c02VerifyName) {
			return true
		}
	}
	return false
}

// c02FindRoles finds L and P. Undecided when the anchors are ambiguous.
func c02FindRoles(c *Ctx) *c02Roles {
	w := c.W
	ro := &c02Roles{w: w, pluginIdx: -1, nameIdx: -1, capsIdx: -1}
	nGet := 0
	for _, fn := range w.FuncsOfPkg("verifier") {
		for _, ci := range allCalls(fn) {
			if call, ok := ci.(*ssa.Call); ok && calleeName(call) == c02GetName {
				ro.L, ro.getCall = fn, call
				nGet++
			}
		}
	}
	if ro.L == nil {
		c.Unk("plugin/anchor", "anchor: the verifier function that calls plugin.Manager.Get", "-", "no call of plugin.Manager.Get in package verifier")
		return nil
	}
	if nGet > 1 {
		c.Unk("plugin/anchor", "anchor: the verifier function that calls plugin.Manager.Get", w.InstrPos(ro.getCall), fmt.Sprintf("%d calls of plugin.Manager.Get in package verifier: which one looks up the verification plugin is ambiguous", nGet))
		return nil
	}
	// P: lowest function whose call tree holds both the lookup and the plugin execution
	var cands []*ssa.Function
	for _, fn := range w.FuncsOfPkg("verifier") {
		if fn.Parent() != nil || fn.Synthetic != "" {
			continue
		}
		hasL, hasX := false, false
		for _, f := range w.moduleCallees(fn) {
			if f == ro.L {
				hasL = true
			}
			if c02HasInvoke(f, c02VerifyName) {
				hasX = true
			}
		}
		if hasL && hasX {
			cands = append(cands, fn)
		}
	}
	isCand := map[*ssa.Function]bool{}
	for _, f := range cands {
		isCand[f] = true
	}
	var lowest []*ssa.Function
	for _, f := range cands {
		low := true
		for _, g := range w.moduleCallees(f) {
			if g != f && isCand[g] {
				low = false
			}
		}
		if low {
			lowest = append(lowest, f)
		}
	}
	if len(lowest) != 1 {
		c.Unk("plugin/anchor", "anchor: the signature-processing function (the lowest verifier function that both looks the plugin up and executes it)", w.FnPos(ro.L), fmt.Sprintf("%d candidates", len(lowest)))
		return nil
	}
	ro.P = lowest[0]
	ro.fr = newC18Frame(w, ro.P)
	if ro.L != ro.P {
		sites, closed := c05CallSites(w, ro.L)
		if !closed || len(sites) != 1 || sites[0].Parent() != ro.P || len(sites[0].Call.Args) != len(ro.L.Params) {
			c.Unk("plugin/anchor", "anchor: the lookup helper is entered from the signature-processing function by exactly one static call", w.FnPos(ro.L),
				fmt.Sprintf("closed call-site list=%v, sites=%d (a lookup reached through several calls or levels is not followed)", closed, len(sites)))
			return nil
		}
		ro.lcall = sites[0]
	}
	// GetMetadata on the object that was looked up (whatever the static interface type of the variable holding it)
	obj := map[ssa.Value]bool{}
	for _, r := range *ro.getCall.Referrers() {
		if e, ok := r.(*ssa.Extract); ok && e.Index == 0 {
			for v := range c02Conversions(e) {
				obj[v] = true
			}
		}
	}
	for _, ci := range allCalls(ro.L) {
		call, ok := ci.(*ssa.Call)
		if !ok || !call.Call.IsInvoke() || call.Call.Method.Name() != "GetMetadata" {
			continue
		}
		if obj[call.Call.Value] {
			ro.mdCalls = append(ro.mdCalls, call)
		}
	}
	return ro
}

// c02Conversions: v and the interface conversions of v (the same dynamic value under another static type).
func c02Conversions(v ssa.Value) map[ssa.Value]bool {
	out := map[ssa.Value]bool{v: true}
	work := []ssa.Value{v}
	for len(work) > 0 {
		x := work[len(work)-1]
		work = work[:len(work)-1]
		if x.Referrers() == nil {
			continue
		}
		for _, r := range *x.Referrers() {
			switch y := r.(type) {
			case *ssa.ChangeInterface:
				if !out[y] {
					out[y] = true
					work = append(work, y)
				}
			case *ssa.ChangeType:
				if !out[y] {
					out[y] = true
					work = append(work, y)
				}
			}
		}
	}
	return out
}

// c02Unconv strips interface conversions.
func c02Unconv(v ssa.Value) ssa.Value {
	for {
		switch x := v.(type) {
		case *ssa.ChangeInterface:
			v = x.X
		case *ssa.ChangeType:
			v = x.X
		default:
			return v
		}
	}
}

// ---------- values across helper boundaries ---------------------------------------------------------------------------
//
// c02Leaves answers "which values can v be?" without stopping at function boundaries of the module:
//   - a phi is any of its edges;
//   - result k of a static call of a module function is operand k of one of the callee's returns — for a callee whose last
//     result is an error only the returns the gate engine classifies success-capable (next to a provably non-nil error the
//     other results are not used by a caller that fails on that error, which the boundary obligations require);
//   - a parameter of a function with a closed call-site list (unexported, never used as a value) is the argument at one of
//     its static call sites.
// Everything else is a leaf. ok=false: the expansion was cut short (depth), the answer is not a complete list.

func c02Leaves(w *World, v ssa.Value) ([]ssa.Value, bool) {
	seen := map[ssa.Value]bool{}
	var out []ssa.Value
	ok := true
	var rec func(v ssa.Value, depth int)
	rec = func(v ssa.Value, depth int) {
		if seen[v] {
			return
		}
		seen[v] = true
		if depth > 12 {
			ok = false
			return
		}
		switch x := v.(type) {
		case *ssa.Phi:
			for _, e := range x.Edges {
				rec(e, depth+1)
			}
			return
		case *ssa.ChangeInterface:
			rec(x.X, depth)
			return
		case *ssa.ChangeType:
			rec(x.X, depth)
			return
		case *ssa.Parameter:
			fn := x.Parent()
			sites, closed := c05CallSites(w, fn)
			idx := -1
			for i, q := range fn.Params {
				if q == x {
					idx = i
				}
			}
			if closed && len(sites) > 0 && idx >= 0 {
				for _, s := range sites {
					if idx >= len(s.Call.Args) {
						ok = false
						return
					}
					rec(s.Call.Args[idx], depth+1)
				}
				return
			}
		case *ssa.Extract, *ssa.Call:
			call := callOf(v)
			k := 0
			if e, isE := v.(*ssa.Extract); isE {
				k = e.Index
			}
			if call != nil {
				if g := staticCallee(call); g != nil && g.Blocks != nil && w.IsProductFn(g) {
					rets := c02ValueReturns(w, g)
					if c02ReturnsError(g) && !c02ErrChecked(w, call) {
						rets = nil // the caller may go on with what a failing exit delivered: the value stays opaque
					}
					if len(rets) > 0 {
						for _, r := range rets {
							if k >= len(r.Results) {
								ok = false
								return
							}
							rec(r.Results[k], depth+1)
						}
						return
					}
				}
			}
		}
		out = append(out, v)
	}
	rec(v, 0)
	return out, ok
}

func c02ReturnsError(g *ssa.Function) bool {
	res := g.Signature.Results()
	return res.Len() > 0 && isErrorType(res.At(res.Len()-1).Type())
}

var c02ErrCheckedMemo = map[*ssa.Call]bool{}

// c02ErrChecked: every exit of the caller that is reachable behind the call passes the `err == nil` edge of the call's
// error result (or returns that error): the caller does not go on with the other results of a failed call.
func c02ErrChecked(w *World, call *ssa.Call) bool {
	if r, ok := c02ErrCheckedMemo[call]; ok {
		return r
	}
	fi := w.Info(call.Parent())
	s := fi.summarizeFrom(Mode{Kind: mErr}, []state{{call.Block().Index, 0, -1}}, nil)
	ok := len(s.Exits) > 0
	want := "EQ(" + descTailErr(call) + ",nil)"
	for _, ex := range s.Exits {
		if _, h := ex.Checked[want]; !h {
			ok = false
		}
	}
	c02ErrCheckedMemo[call] = ok
	return ok
}

// c02ValueReturns: the returns of g that can deliver values to a caller that goes on.
func c02ValueReturns(w *World, g *ssa.Function) []*ssa.Return {
	var out []*ssa.Return
	res := g.Signature.Results()
	if n := res.Len(); n > 0 && isErrorType(res.At(n-1).Type()) {
		s := w.Summarize(g, Mode{Kind: mErr})
		if s == nil || !s.Complete {
			return nil
		}
		seen := map[*ssa.Return]bool{}
		for _, ex := range s.Exits {
			if !seen[ex.Ret] {
				seen[ex.Ret] = true
				out = append(out, ex.Ret)
			}
		}
		return out
	}
	for _, b := range g.Blocks {
		if r, ok := blockTerm(b).(*ssa.Return); ok {
			out = append(out, r)
		}
	}
	return out
}

// c02AppendCall: v is a call of the builtin append with an explicit element list.
func c02AppendCall(v ssa.Value) *ssa.Call {
	call, ok := v.(*ssa.Call)
	if !ok {
		return nil
	}
	if bi, ok := call.Call.Value.(*ssa.Builtin); !ok || bi.Name() != "append" || len(call.Call.Args) != 2 {
		return nil
	}
	return call
}

// c02EmptyList: v is a list without elements: the nil constant, `make([]T, 0, n)` or `x[:0]` (pre-sized or recycled
// storage: append onto it never reads what the storage held).
func c02EmptyList(v ssa.Value) bool {
	isZero := func(x ssa.Value) bool {
		k, ok := x.(*ssa.Const)
		return ok && k.Value != nil && k.Value.ExactString() == "0"
	}
	switch x := v.(type) {
	case *ssa.Const:
		return x.IsNil()
	case *ssa.MakeSlice:
		return isZero(x.Len)
	case *ssa.Slice:
		return x.High != nil && isZero(x.High) && (x.Low == nil || isZero(x.Low))
	}
	return false
}

// c02ElemBase: v is a load of an element of a slice; returns the slice.
func c02ElemBase(v ssa.Value) ssa.Value {
	switch x := v.(type) {
	case *ssa.UnOp:
		if x.Op == token.MUL {
			if ia, ok := x.X.(*ssa.IndexAddr); ok {
				return ia.X
			}
		}
	case *ssa.Index:
		return x.X
	}
	return nil
}

// ---------- the lookup boundary ----------------------------------------------------------------------------------------

// c02NilTest: cond (through negations) compares a value of vals with nil / with ""; reports what the edge `truth` says.
func c02EdgeSays(cond ssa.Value, truth bool, vals map[ssa.Value]bool, empty func(ssa.Value) bool) (isEmpty, ok bool) {
	for {
		u, isU := cond.(*ssa.UnOp)
		if !isU || u.Op != token.NOT {
			break
		}
		truth = !truth
		cond = u.X
	}
	bo, isB := cond.(*ssa.BinOp)
	if !isB || (bo.Op != token.EQL && bo.Op != token.NEQ) {
		return false, false
	}
	var o ssa.Value
	if empty(bo.Y) {
		o = bo.X
	} else if empty(bo.X) {
		o = bo.Y
	}
	if o == nil || !vals[o] {
		return false, false
	}
	return (bo.Op == token.EQL) == truth, true
}

func c02IsEmptyString(v ssa.Value) bool {
	k, ok := v.(*ssa.Const)
	return ok && k.Value != nil && constString(k) == `""`
}

// c02ExitResults: the operands of a success-capable exit. The engine splits a return whose operand is a phi of the return
// block by incoming edge (ExitSum.Pred): on that exit the phi IS the value of that edge — the single `return name, p, caps, nil`
// behind `if name != "" {…}` is two exits, one per side.
func c02ExitResults(ex *ExitSum) []ssa.Value {
	out := make([]ssa.Value, len(ex.Ret.Results))
	for i, v := range ex.Ret.Results {
		if p, ok := v.(*ssa.Phi); ok && p.Block() == ex.Ret.Block() && ex.Pred >= 0 && ex.Pred < len(p.Edges) {
			v = p.Edges[ex.Pred]
		}
		out[i] = v
	}
	return out
}

// c02Boundary establishes the edge sets "a plugin is named" / "no plugin is named" of P.
//
// L == P: the edges that compare the name handed to Manager.Get with "".
//
// L != P (the lookup is a helper, P calls it once): P cannot see the name test; it sees what the helper hands back. Three
// obligations make the helper's answer mean the same as the name test:
//
//	plugin/lookup-error    every success-capable exit of P after the call passes err == nil of the call: a lookup that
//	                       failed fails the verification (all the fail-closed gates decided inside L reach P only so);
//	plugin/lookup-results  every success-capable exit of L is either on the name == "" side of the name test and returns
//	                       the nil plugin object and the nil capability list, or on the name != "" side and returns the
//	                       object Manager.Get returned, on which GetMetadata has been invoked on every path to the exit
//	                       (an invoke on a nil interface does not return: the object is not nil), and the name itself;
//	(plugin/* gates)       are required on the exits of L with the name == "" edges removed, as they are on P when L == P.
//
// Given these, `plugin != nil` in P holds exactly on the executions on which the signature names a plugin, and
// `name != ""` on the handed-back name likewise; the edges of P testing those two SSA values (the Extracts of the call)
// are the precondition edges.
func c02Boundary(c *Ctx, ro *c02Roles) bool {
	w := c.W
	nameV := ro.getCall.Call.Args[1]
	nameD := desc(nameV)
	lfi := w.Info(ro.L)
	lNamed := lfi.edgesMatching(func(l string, _ *ssa.If, _ bool) bool { return l == "NE("+nameD+`,const:"")` })
	if ro.L == ro.P {
		ro.named = lNamed
		ro.unnamed = lfi.edgesMatching(func(l string, _ *ssa.If, _ bool) bool { return l == "EQ("+nameD+`,const:"")` })
		return true
	}
	pfi := w.Info(ro.P)
	// lookup-error
	sx := pfi.summarizeFrom(Mode{Kind: mErr}, []state{{ro.lcall.Block().Index, 0, -1}}, nil)
	c.Evals += sx.States
	c.requireOnExits("plugin", ro.P, sx.Exits, []Need{
		{Name: "lookup-error", What: "the plugin lookup helper returned err == nil", Subs: []string{"EQ(" + descTailErr(ro.lcall) + ",nil)"}},
	})
	// lookup-results
	rule := "boundary: every success-capable exit of the lookup helper is either on the name == \"\" side and returns a nil plugin object and no capabilities, or on the name != \"\" side and returns the object Manager.Get returned (on which GetMetadata was invoked) and the name"
	s := w.Summarize(ro.L, Mode{Kind: mErr})
	c.Evals += s.States
	if !s.Complete || len(s.Exits) == 0 {
		c.Unk("plugin/lookup-results", rule, w.FnPos(ro.L), "the lookup helper has no success-capable exit the engine can summarise")
		return false
	}
	getObj := map[ssa.Value]bool{}
	for _, r := range *ro.getCall.Referrers() {
		if e, ok := r.(*ssa.Extract); ok && e.Index == 0 {
			getObj[e] = true
		}
	}
	res := ro.L.Signature.Results()
	for k := 0; k < res.Len(); k++ {
		if c02IsCapsType(res.At(k).Type()) {
			if ro.capsIdx >= 0 {
				c.Unk("plugin/lookup-results", rule, w.FnPos(ro.L), "the lookup helper returns two capability lists")
				return false
			}
			ro.capsIdx = k
		}
	}
	type side struct {
		ex    *ExitSum
		named bool
	}
	var sides []side
	for _, ex := range s.Exits {
		_, n := ex.Checked["NE("+nameD+`,const:"")`]
		_, u := ex.Checked["EQ("+nameD+`,const:"")`]
		if n == u {
			c.Bad("plugin/lookup-results", rule, w.InstrPos(ex.Ret), "this success-capable exit of the lookup helper is not decided by the test of the plugin name against \"\"; facts: "+summarizeLabels(ex.Checked, 8))
			return false
		}
		sides = append(sides, side{ex, n})
	}
	// the result that carries the plugin object / the name: read off the named exits
	nameCand := map[int]int{}
	nN := 0
	for _, sd := range sides {
		if !sd.named {
			continue
		}
		nN++
		for k, r := range c02ExitResults(sd.ex) {
			if getObj[c02Unconv(r)] {
				if ro.pluginIdx >= 0 && ro.pluginIdx != k {
					c.Bad("plugin/lookup-results", rule, w.InstrPos(sd.ex.Ret), "the looked-up object is handed back in two results")
					return false
				}
				ro.pluginIdx = k
			}
			if r == nameV {
				nameCand[k]++
			}
		}
	}
	for k, n := range nameCand {
		if n == nN && (ro.nameIdx < 0 || k < ro.nameIdx) {
			ro.nameIdx = k
		}
	}
	if ro.pluginIdx < 0 {
		c.Bad("plugin/lookup-results", rule, w.FnPos(ro.L), "no exit of the lookup helper on the name != \"\" side hands back the object Manager.Get returned")
		return false
	}
	nNamed, nUnnamed := 0, 0
	for _, sd := range sides {
		rs := c02ExitResults(sd.ex)
		if sd.named {
			nNamed++
			if !getObj[c02Unconv(rs[ro.pluginIdx])] {
				c.Bad("plugin/lookup-results", rule, w.InstrPos(sd.ex.Ret), "with a plugin named the helper hands back "+desc(rs[ro.pluginIdx])+" instead of the object Manager.Get returned: the plugin named by the signature would not take part in the verification")
				return false
			}
			invoked := false
			for _, md := range ro.mdCalls {
				if _, h := hasLabel(sd.ex.Checked, "("+desc(md)+"#err,nil)"); h {
					invoked = true
				}
			}
			if !invoked {
				c.Bad("plugin/lookup-results", rule, w.InstrPos(sd.ex.Ret), "with a plugin named the object handed back is not known to be non-nil (no GetMetadata invoked on it on every path to this exit)")
				return false
			}
			if ro.nameIdx >= 0 && rs[ro.nameIdx] != nameV {
				c.Bad("plugin/lookup-results", rule, w.InstrPos(sd.ex.Ret), "with a plugin named the helper hands back a name other than the one it looked up: "+desc(rs[ro.nameIdx]))
				return false
			}
		} else {
			nUnnamed++
			if !isNilConst(rs[ro.pluginIdx]) {
				c.Bad("plugin/lookup-results", rule, w.InstrPos(sd.ex.Ret), "without a plugin named the helper hands back a plugin object that is not the nil constant: "+desc(rs[ro.pluginIdx]))
				return false
			}
			if ro.capsIdx >= 0 && !isNilConst(rs[ro.capsIdx]) {
				c.Bad("plugin/lookup-results", rule, w.InstrPos(sd.ex.Ret), "without a plugin named the helper hands back a capability list that is not the nil constant (native checks would be routed away to nobody): "+desc(rs[ro.capsIdx]))
				return false
			}
			if ro.nameIdx >= 0 && rs[ro.nameIdx] != nameV && !c02IsEmptyString(rs[ro.nameIdx]) {
				c.Bad("plugin/lookup-results", rule, w.InstrPos(sd.ex.Ret), "without a plugin named the helper hands back a name that is not \"\": "+desc(rs[ro.nameIdx]))
				return false
			}
		}
	}
	if nNamed == 0 {
		c.Bad("plugin/lookup-results", rule, w.FnPos(ro.L), "the lookup helper has no success-capable exit on the name != \"\" side")
		return false
	}
	c.OK("plugin/lookup-results", rule, w.FnPos(ro.L))
	// the precondition edges of P: tests of the handed-back plugin object against nil, of the handed-back name against ""
	plug, name := map[ssa.Value]bool{}, map[ssa.Value]bool{}
	for _, r := range *ro.lcall.Referrers() {
		if e, ok := r.(*ssa.Extract); ok {
			if e.Index == ro.pluginIdx {
				for v := range c02Conversions(e) {
					plug[v] = true
				}
			}
			if e.Index == ro.nameIdx {
				name[e] = true
			}
		}
	}
	ro.named, ro.unnamed = map[edgeKey]bool{}, map[edgeKey]bool{}
	for _, b := range ro.P.Blocks {
		iff, ok := blockTerm(b).(*ssa.If)
		if !ok || len(b.Succs) != 2 {
			continue
		}
		for j := 0; j < 2; j++ {
			empty, ok := c02EdgeSays(iff.Cond, j == 0, plug, isNilConst)
			if !ok {
				empty, ok = c02EdgeSays(iff.Cond, j == 0, name, c02IsEmptyString)
			}
			if !ok {
				continue
			}
			if empty {
				ro.unnamed[edgeKey{b.Index, j}] = true
			} else {
				ro.named[edgeKey{b.Index, j}] = true
			}
		}
	}
	return true
}

// ---------- labels of helpers in P's frame -----------------------------------------------------------------------------

// c02Lift: an edge selector over the graph of f whose labels are first rendered in P's frame (the helper's parameters
// replaced by the arguments of its single call site on P's tree — what the engine does when it composes summaries).
func (ro *c02Roles) lift(f *ssa.Function, sel EdgeSel) EdgeSel {
	return func(l string, iff *ssa.If, truth bool) bool {
		return sel(ro.fr.str(f, l), iff, truth)
	}
}

// ---------- capability lists -------------------------------------------------------------------------------------------

type c02Lists struct {
	ro     *c02Roles
	rv, ti string // the two verification capability constants
	seen   map[*ssa.Call]bool
	nApp   int
	why    string
}

// declared: every value the list can be is nil or was built by appending, onto such a list, elements of
// <GetMetadata response of the looked-up plugin>.Capabilities that passed `== revocation || == trusted identity`.
func (x *c02Lists) declared(v ssa.Value) bool {
	w := x.ro.w
	leaves, ok := c02Leaves(w, v)
	if !ok {
		x.why = "the origins of " + desc(v) + " could not be enumerated"
		return false
	}
	for _, leaf := range leaves {
		if c02EmptyList(leaf) {
			continue
		}
		a := c02AppendCall(leaf)
		if a == nil {
			x.why = "the list can be " + desc(leaf) + " (" + w.FnPos(leafFn(leaf)) + "), which is not built by filtering metadata.Capabilities"
			return false
		}
		if x.seen[a] {
			continue
		}
		x.seen[a] = true
		elems := appendedElems(a.Call.Args[1])
		if len(elems) == 0 {
			x.why = "append of a whole list at " + w.InstrPos(a)
			return false
		}
		for _, e := range elems {
			if !x.filteredMetadataCap(a, e) {
				return false
			}
		}
		if !x.declared(a.Call.Args[0]) {
			return false
		}
		x.nApp++
	}
	return true
}

func leafFn(v ssa.Value) *ssa.Function {
	if v.Parent() != nil {
		return v.Parent()
	}
	return nil
}

// filteredMetadataCap: e, appended by a, is an element of metadata.Capabilities of the looked-up plugin and the append is
// reachable only through `e == revocation` or `e == trusted identity`.
func (x *c02Lists) filteredMetadataCap(a *ssa.Call, e ssa.Value) bool {
	w := x.ro.w
	f := a.Parent()
	base := c02ElemBase(e)
	if base == nil {
		x.why = "appended element " + desc(e) + " is not an element of a list"
		return false
	}
	leaves, ok := c02Leaves(w, base)
	if !ok || len(leaves) == 0 {
		x.why = "the origins of " + desc(base) + " could not be enumerated"
		return false
	}
	for _, leaf := range leaves {
		u, isLoad := leaf.(*ssa.UnOp)
		good := false
		if isLoad && u.Op == token.MUL {
			if fa, isFa := u.X.(*ssa.FieldAddr); isFa && fieldName(fa.X.Type(), fa.Field) == "Capabilities" {
				if ex, isEx := fa.X.(*ssa.Extract); isEx && ex.Index == 0 {
					for _, md := range x.ro.mdCalls {
						if ex.Tuple == ssa.Value(md) {
							good = true
						}
					}
				}
			}
		}
		if !good {
			x.why = "the filtered list is " + desc(leaf) + ", not the Capabilities of the GetMetadata response of the plugin that was looked up"
			return false
		}
	}
	fi := w.Info(f)
	d := desc(e)
	cut := fi.edgesMatching(func(l string, _ *ssa.If, _ bool) bool {
		return l == "EQ("+d+fmt.Sprintf(",const:%q)", x.rv) || l == "EQ("+d+fmt.Sprintf(",const:%q)", x.ti)
	})
	if len(cut) != 2 || fi.reachHit(entryState(), cut, blocksOf(a)) {
		x.why = "the append at " + w.InstrPos(a) + " is reachable for a capability other than the two verification capabilities"
		return false
	}
	return true
}

// requestAppends: the append calls that can have built the list v (all of them, through the lists they extend).
func (x *c02Lists) requestAppends(v ssa.Value, out *[]*ssa.Call) bool {
	w := x.ro.w
	leaves, ok := c02Leaves(w, v)
	if !ok {
		return false
	}
	for _, leaf := range leaves {
		if c02EmptyList(leaf) {
			continue
		}
		a := c02AppendCall(leaf)
		if a == nil {
			x.why = "the request list can be " + desc(leaf)
			return false
		}
		if x.seen[a] {
			continue
		}
		x.seen[a] = true
		*out = append(*out, a)
		if !x.requestAppends(a.Call.Args[0], out) {
			return false
		}
	}
	return true
}

// sameList: every value `list` can be is a value `declared` can be (the list a helper ranges over is its parameter; the
// parameter is the caller's argument).
func c02SubsetOf(w *World, list, declared ssa.Value) bool {
	a, ok1 := c02Leaves(w, list)
	b, ok2 := c02Leaves(w, declared)
	if !ok1 || !ok2 || len(a) == 0 {
		return false
	}
	in := map[ssa.Value]bool{}
	for _, v := range b {
		in[v] = true
	}
	for _, v := range a {
		if !in[v] {
			return false
		}
	}
	return true
}

// ---------- accounting for critical attributes in a helper -------------------------------------------------------------

// c02AccountingLoops: the loops of f over <signer info>.SignedAttributes.ExtendedAttributes (rendered in P's frame) every
// completed iteration of which passes the false edge of .Critical and from whose body no success-capable exit is reachable
// without that edge.
func c02AccountingLoops(ro *c02Roles, f *ssa.Function) []sliceLoop {
	w := ro.w
	fi := w.Info(f)
	var out []sliceLoop
	for _, sl := range sliceLoops(f) {
		suffix := ".SignedAttributes.ExtendedAttributes"
		if f != ro.P {
			// in a helper the signer info is a parameter: what matters is what P hands in — the signer info of the envelope
			// content under verification, not some other (empty, fresh) one
			suffix = ".EnvelopeContent.SignerInfo.SignedAttributes.ExtendedAttributes"
		}
		if !strings.HasSuffix(ro.fr.str(f, desc(sl.X)), suffix) {
			continue
		}
		labels, ok := fi.mustPassBetween([]int{sl.Body.Index}, map[int]bool{sl.Header.Index: true})
		if !ok {
			continue
		}
		if _, h := hasLabel(labels, "F(", ".ExtendedAttributes[", ".Critical)"); !h {
			continue
		}
		cut := fi.edgesMatching(func(l string, _ *ssa.If, _ bool) bool {
			return strings.HasPrefix(l, "F(") && strings.Contains(l, ".ExtendedAttributes[") && strings.HasSuffix(l, ".Critical)")
		})
		if fi.successWitness(Mode{Kind: mErr}, []state{{sl.Body.Index, 0, -1}}, cut) != nil {
			continue
		}
		// nor by leaving the loop early: a success-capable exit reached from the body without coming back to the header
		// (`if !attr.Critical { return nil }`, a break) leaves the attributes behind the current one unlooked at
		back := map[edgeKey]bool{}
		cutInto(fi, sl.Header, back)
		if fi.successWitness(Mode{Kind: mErr}, []state{{sl.Body.Index, 0, -1}}, back) != nil {
			continue
		}
		out = append(out, sl)
	}
	return out
}

// c02AccountingCalls: the calls in P of a module function g with an error result such that every success-capable exit of g
// lies behind an accounting loop of g. P's success behind such a call is accounted for exactly when P requires the call's
// error to be nil: the caller cuts the `err == nil` edges of the call and does not count exits that return the call's
// error (a path on which the error is dropped stays open and is reported).
func c02AccountingCalls(ro *c02Roles) []*ssa.Call {
	w := ro.w
	var out []*ssa.Call
	for _, ci := range allCalls(ro.P) {
		call, ok := ci.(*ssa.Call)
		if !ok {
			continue
		}
		g := staticCallee(call)
		if g == nil || g.Blocks == nil || !w.IsProductFn(g) || g == ro.P {
			continue
		}
		res := g.Signature.Results()
		if res.Len() == 0 || !isErrorType(res.At(res.Len()-1).Type()) {
			continue
		}
		if s := ro.fr.subst(g); !s.ok {
			continue // entered from several places on the tree: the signer info it ranges over is not determined
		}
		loops := c02AccountingLoops(ro, g)
		if len(loops) == 0 {
			continue
		}
		gfi := w.Info(g)
		cut := map[edgeKey]bool{}
		for _, sl := range loops {
			cutInto(gfi, sl.Header, cut)
		}
		if gfi.successWitness(Mode{Kind: mErr}, entryState(), cut) == nil {
			out = append(out, call)
		}
	}
	return out
}

// c02CutAccounting adds to cut what makes P's paths behind an accounting call fail: the call's `err == nil` edges. The
// returned set is to be installed as FnInfo.ignoreTail while the witness search runs.
func c02CutAccounting(ro *c02Roles, fi *FnInfo, calls []*ssa.Call, cut map[edgeKey]bool) map[*ssa.Call]bool {
	tails := map[*ssa.Call]bool{}
	for _, call := range calls {
		tails[call] = true
		d := "EQ(" + descTailErr(call) + ",nil)"
		for e := range fi.edgesMatching(func(l string, _ *ssa.If, _ bool) bool { return l == d }) {
			cut[e] = true
		}
	}
	return tails
}

// ---------- a native check written as a stage helper --------------------------------------------------------------------

// c02StageCall: inner (the native check) is a call in a helper f of P. The call of f in P stands for the check when
//   - f is entered from P's tree by exactly one static call, and that call is in P (the routing guards of that call are
//     the routing guards of the check);
//   - the check lies on every path of f to a success-capable exit (inside the stage nothing routes around it);
//   - f reports through an error result and P goes on behind the call only if that error is nil (what the stage decides
//     — the gate on the result it filled in, rule b, which applies inside f as anywhere — reaches P).
//
// Returns the call of f in P, nil if the stage cannot be followed.
func c02StageCall(ro *c02Roles, inner *ssa.Call) *ssa.Call {
	w := ro.w
	f := inner.Parent()
	if !c02ReturnsError(f) {
		return nil
	}
	sites := ro.fr.sites[f]
	if len(sites) != 1 || sites[0] == nil || sites[0].Parent() != ro.P {
		return nil
	}
	if inner.Block().Index != 0 {
		fi := w.Info(f)
		cut := map[edgeKey]bool{}
		cutInto(fi, inner.Block(), cut)
		if fi.successWitness(Mode{Kind: mErr}, entryState(), cut) != nil {
			return nil
		}
	}
	if !c02ErrChecked(w, sites[0]) {
		return nil
	}
	return sites[0]
}
