package main

// C03, second pass: the authenticity (e) and scoping (d) obligations decided on SSA values and on the call tree instead of on
// the place where a statement sits or on the printed form of one expression.
//
//   - result objects: a validation result may be a composite literal or the value of a *result constructor* (a module function
//     that returns a fresh result whose error field holds one of its parameters); what an exit reports is decided on the value
//     that ends up in the error field (a constant nil, a provably non-nil value, a phi of such values split edge by edge, the
//     error of a call), see c03RefineExits;
//   - certificates: followed from signature.VerifyAuthenticity's argument up through parameters (closed call-site lists) and phis
//     to the loader call, see c03CertsFlow;
//   - trust stores: followed from the loader call up through parameters, captured variables and phis to the reads of the
//     TrustStores field of a statement, and that statement up to the selection call of the policy document (through selection
//     helpers and parameters), see c03StoresSources / c03StmtOrigins;
//   - a function that only forwards the loader's certificates and error is another loader layer (c03Forwards).
//
// Third pass: the load-error clause ("a listed store that cannot be loaded makes authenticity fail") decided wherever the nil
// test of the loader's error sits on the call chain, by class of rewrite:
//
//   - result created up front and filled in: a constructor of successful results (no error parameter, c03CtorOf0) or a literal
//     without Error, the error stored into the object afterwards; the object's validation type is decided on the object
//     (c03TypedAs), whoever built it;
//   - parameter widened: the loader's error is handed on, as it is, next to the certificates, and the callee decides
//     (c03HandedLoadErr = c03FailsOnParam on the callee's refined exits + c03NoBypass in the caller); the effect-site gate in front
//     of signature.VerifyAuthenticity is then found inside the callee, on the parameter (c03GatedByLoad); the callee may return a
//     result or an error, and may be a function literal that is only ever called (c03AnonOnlyCalled closes its call-site list);
//   - parameter narrowed: the envelope content is handed on, or held in a local, instead of the whole outcome
//     (c03EnvelopeContent).

import (
	"fmt"
	"go/token"
	"go/types"
	"regexp"
	"sort"
	"strings"

	"golang.org/x/tools/go/ssa"
)

const c03ResultType = "ngo.ValidationResult"

func c03IsResultPtr(t types.Type) bool {
	_, ok := t.Underlying().(*types.Pointer)
	return ok && namedOf(t) == c03ResultType
}

func c03IsCertSlice(t types.Type) bool {
	sl, ok := t.Underlying().(*types.Slice)
	return ok && namedOf(sl.Elem()) == "crypto/x509.Certificate"
}

func c03IsStatementType(t types.Type) bool {
	switch namedOf(t) {
	case "ngo/verifier/trustpolicy.OCITrustPolicy", "ngo/verifier/trustpolicy.TrustPolicy", "ngo/verifier/trustpolicy.BlobTrustPolicy":
		return true
	}
	return false
}

func c03ParamIndex(p *ssa.Parameter) int {
	if p.Parent() == nil {
		return -1
	}
	for i, q := range p.Parent().Params {
		if q == p {
			return i
		}
	}
	return -1
}

func c03CopyLabels(m map[string]string, more ...map[string]string) map[string]string {
	out := make(map[string]string, len(m))
	for k, v := range m {
		out[k] = v
	}
	for _, mm := range more {
		for k, v := range mm {
			if _, ok := out[k]; !ok {
				out[k] = v
			}
		}
	}
	return out
}

// ---------- closed call-site lists -------------------------------------------------------------------------------------

// c03CallSites returns the static call sites of g in the module. closed reports that these are all the ways g can be entered:
// g is unexported, is never used as a value (closure, method value, argument) and, if it is a method, no interface call in the
// module names a method of that name.
func c03CallSites(w *World, g *ssa.Function) (sites []ssa.CallInstruction, closed bool) {
	if g == nil || g.Blocks == nil || !w.IsProductFn(g) {
		return nil, false
	}
	closed = !token.IsExported(g.Name()) && (g.Parent() == nil || c03AnonOnlyCalled(g))
	for _, fn := range w.Funcs {
		for _, b := range fn.Blocks {
			for _, in := range b.Instrs {
				if mc, ok := in.(*ssa.MakeClosure); ok {
					if f, ok := mc.Fn.(*ssa.Function); ok && ((f == g && g.Parent() == nil) || (f.Synthetic != "" && g.Object() != nil && f.Object() == g.Object())) {
						closed = false
					}
					if mc.Fn == ssa.Value(g) && g.Parent() != nil {
						continue // what happens to the closure value is decided by c03AnonOnlyCalled
					}
				}
				ci, isCall := in.(ssa.CallInstruction)
				if isCall {
					cc := ci.Common()
					if cc.IsInvoke() && g.Signature.Recv() != nil && cc.Method.Name() == g.Name() {
						closed = false
					}
					for _, a := range cc.Args {
						if a == ssa.Value(g) {
							closed = false
						}
					}
					if cc.StaticCallee() == g {
						if fn.Synthetic != "" {
							closed = false // reached through a wrapper (bound method, thunk)
						}
						if len(cc.Args) != len(g.Params) {
							closed = false
						}
						sites = append(sites, ci)
					}
					continue
				}
				for _, op := range in.Operands(nil) {
					if op != nil && *op == ssa.Value(g) {
						closed = false
					}
				}
			}
		}
	}
	return sites, closed
}

// c03AnonOnlyCalled: the function literal g is only ever called: every closure value made of it (a literal can only be
// instantiated in its parent) is used as the callee of a call and nothing else (not stored, not passed on, not returned). Its
// static call sites are then all the ways it can be entered, exactly as for an unexported top-level function — the class
// "closure vs function". (A literal that captures nothing is the function value itself; uses of it other than calling are caught
// by the operand scan of c03CallSites.)
func c03AnonOnlyCalled(g *ssa.Function) bool {
	par := g.Parent()
	if par == nil {
		return false
	}
	for _, b := range par.Blocks {
		for _, in := range b.Instrs {
			mc, ok := in.(*ssa.MakeClosure)
			if !ok || mc.Fn != ssa.Value(g) || mc.Referrers() == nil {
				continue
			}
			for _, r := range *mc.Referrers() {
				switch y := r.(type) {
				case *ssa.DebugRef:
				case ssa.CallInstruction:
					if y.Common().Value != ssa.Value(mc) {
						return false
					}
					for _, a := range y.Common().Args {
						if a == ssa.Value(mc) {
							return false
						}
					}
				default:
					return false
				}
			}
		}
	}
	return true
}

// ---------- result objects ---------------------------------------------------------------------------------------------

// c03Ctor summarises a result constructor: on every exit it returns one fresh result object whose error field holds exactly the
// value of parameter errParam (stored unconditionally, once), and which nobody else has seen.
type c03Ctor struct {
	errParam int
	fields   map[string]ssa.Value // other fields: the Parameter (of the constructor) or Const stored, nil if stored more than once
}

func c03CtorOf(w *World, H *ssa.Function, depth int) *c03Ctor {
	if k := c03CtorOf0(w, H, depth); k != nil && k.errParam >= 0 {
		return k
	}
	return nil
}

// c03CtorOf0 also accepts a constructor of *successful* results (third pass: the result object is created up front and its error
// field is filled in later by the caller): the fresh object's error field is never stored by the constructor, so it is nil when
// the caller receives it; errParam is then -1. Whatever the caller stores into that field afterwards is the caller's business
// (the engine tracks such stores as the object's error cell; c03LoadErrorRecorded looks at the store itself).
func c03CtorOf0(w *World, H *ssa.Function, depth int) *c03Ctor {
	if H == nil || H.Blocks == nil || !w.IsProductFn(H) || depth > 2 {
		return nil
	}
	res := H.Signature.Results()
	if res.Len() != 1 || !c03IsResultPtr(res.At(0).Type()) {
		return nil
	}
	ef := errFieldOf(res.At(0).Type())
	if ef < 0 {
		return nil
	}
	var rets []*ssa.Return
	for _, b := range H.Blocks {
		if r, ok := blockTerm(b).(*ssa.Return); ok {
			rets = append(rets, r)
		}
	}
	if len(rets) == 0 {
		return nil
	}
	v := rets[0].Results[0]
	for _, r := range rets[1:] {
		if r.Results[0] != v {
			return nil
		}
	}
	out := &c03Ctor{errParam: -1, fields: map[string]ssa.Value{}}
	switch x := v.(type) {
	case *ssa.Alloc:
		if x.Referrers() == nil {
			return nil
		}
		nErr, nNil := 0, 0
		for _, r := range *x.Referrers() {
			switch y := r.(type) {
			case *ssa.Return, *ssa.DebugRef:
			case *ssa.FieldAddr:
				if y.Referrers() == nil {
					continue
				}
				name := fieldName(x.Type(), y.Field)
				for _, rr := range *y.Referrers() {
					switch z := rr.(type) {
					case *ssa.UnOp, *ssa.DebugRef:
					case *ssa.Store:
						if z.Addr != ssa.Value(y) {
							return nil // the address of a field escapes
						}
						if y.Field != ef {
							if _, dup := out.fields[name]; dup {
								out.fields[name] = nil
							} else {
								out.fields[name] = z.Val
							}
							continue
						}
						if isNilConst(z.Val) {
							nNil++ // `Error: nil` spelled out: the field stays nil, provided nothing else is stored
							continue
						}
						nErr++
						p, ok := z.Val.(*ssa.Parameter)
						if !ok {
							return nil
						}
						for _, rt := range rets {
							if !z.Block().Dominates(rt.Block()) {
								return nil // the store is conditional: a non-nil argument may still yield a nil error field
							}
						}
						out.errParam = c03ParamIndex(p)
					default:
						return nil
					}
				}
			default:
				return nil // the object escapes before it is returned
			}
		}
		if nErr > 1 || (nErr == 1 && (out.errParam < 0 || nNil > 0)) {
			return nil
		}
		return out
	case *ssa.Call:
		// a constructor that delegates to another one (newAuthenticityResult(o, err) = newValidationResult(o, TypeAuthenticity, err))
		H2 := staticCallee(x)
		k2 := c03CtorOf0(w, H2, depth+1)
		if k2 == nil || len(x.Call.Args) != len(H2.Params) {
			return nil
		}
		if x.Referrers() != nil {
			for _, r := range *x.Referrers() {
				switch r.(type) {
				case *ssa.Return, *ssa.DebugRef:
				default:
					return nil
				}
			}
		}
		if k2.errParam >= 0 && !isNilConst(x.Call.Args[k2.errParam]) {
			p, ok := x.Call.Args[k2.errParam].(*ssa.Parameter)
			if !ok {
				return nil
			}
			if out.errParam = c03ParamIndex(p); out.errParam < 0 {
				return nil
			}
		}
		for name, fv := range k2.fields {
			if q, isP := fv.(*ssa.Parameter); isP {
				if i := c03ParamIndex(q); i >= 0 && i < len(x.Call.Args) {
					out.fields[name] = x.Call.Args[i]
				}
			} else {
				out.fields[name] = fv
			}
		}
		return out
	}
	return nil
}

// c03CtorField: the value the constructor call stores into the named field, seen from the caller (a parameter of the
// constructor is replaced by the argument).
func c03CtorField(k *c03Ctor, call *ssa.Call, field string) ssa.Value {
	fv := k.fields[field]
	if p, ok := fv.(*ssa.Parameter); ok {
		if i := c03ParamIndex(p); i >= 0 && i < len(call.Call.Args) {
			return call.Call.Args[i]
		}
		return nil
	}
	return fv
}

// c03ErrStores inspects what the function does with the result object v besides returning it: the stores into its error field,
// and whether anything else could change that field (the object handed to a call, stored, or merged into a variable other than
// `from`, the phi through which we reached v).
func c03ErrStores(v ssa.Value, from ssa.Value) (stores []*ssa.Store, clean bool) {
	ef := errFieldOf(v.Type())
	if ef < 0 || v.Referrers() == nil {
		return nil, false
	}
	clean = true
	for _, r := range *v.Referrers() {
		switch y := r.(type) {
		case *ssa.Return, *ssa.DebugRef:
		case *ssa.Phi:
			if ssa.Value(y) != from {
				clean = false
			}
		case *ssa.FieldAddr:
			if y.Referrers() == nil {
				continue
			}
			for _, rr := range *y.Referrers() {
				switch z := rr.(type) {
				case *ssa.UnOp, *ssa.DebugRef:
				case *ssa.Store:
					if z.Addr != ssa.Value(y) {
						clean = false
					} else if y.Field == ef {
						stores = append(stores, z)
					}
				default:
					clean = false
				}
			}
		default:
			clean = false
		}
	}
	return stores, clean
}

// c03ResultErr: the value that the error field of the result object v holds when ret returns it, and the block in which that
// value was fixed. ok is false when this rule cannot tell (the engine's verdict on the exit stands).
func c03ResultErr(w *World, v ssa.Value, from ssa.Value, ret *ssa.Return) (ssa.Value, *ssa.BasicBlock, bool) {
	switch x := v.(type) {
	case *ssa.Call:
		H := staticCallee(x)
		k := c03CtorOf(w, H, 0)
		if k == nil || len(x.Call.Args) != len(H.Params) {
			return nil, nil, false
		}
		if st, clean := c03ErrStores(x, from); !clean || len(st) != 0 {
			return nil, nil, false
		}
		return x.Call.Args[k.errParam], x.Block(), true
	case *ssa.Alloc:
		if !c03IsResultPtr(x.Type()) {
			return nil, nil, false
		}
		st, clean := c03ErrStores(x, from)
		if !clean || len(st) != 1 || !st[0].Block().Dominates(ret.Block()) {
			return nil, nil, false
		}
		return st[0].Val, st[0].Block(), true
	}
	return nil, nil, false
}

// c03EdgeFacts: the facts that hold whenever block B is entered through its i-th predecessor edge: everything that must be
// passed to reach the predecessor, and the branch fact of the edge itself.
func c03EdgeFacts(fi *FnInfo, B *ssa.BasicBlock, i int) map[string]string {
	pred := B.Preds[i]
	out := map[string]string{}
	if pred.Index != 0 {
		if l, ok := fi.mustPassBetween([]int{0}, map[int]bool{pred.Index: true}); ok {
			out = c03CopyLabels(l)
		}
	}
	if iff, ok := blockTerm(pred).(*ssa.If); ok && len(pred.Succs) == 2 && pred.Succs[0] != pred.Succs[1] {
		for j, s := range pred.Succs {
			if s != B {
				continue
			}
			l := condLabel(iff.Cond, j == 0)
			site := fi.W.InstrPos(iff)
			out[l] = site
			if tw, ok := labelTwin(l); ok {
				out[tw] = site
			}
			if comp := fi.composeCond(iff.Cond, j == 0); comp != nil {
				for cl, cs := range comp.Checked {
					if _, ok := out[cl]; !ok {
						out[cl] = cs
					}
				}
			}
		}
	}
	return out
}

// c03NilWays: the ways in which the error value e (fixed in block at) may be nil, each with the facts that then hold; an empty
// list means e is never nil. A phi is split edge by edge: through edge i the value is the i-th operand and the facts of that edge
// hold (the phi's block dominates every use of the phi, so a path to the exit that sees the operand of edge i entered the block
// through that edge).
func c03NilWays(fi *FnInfo, e ssa.Value, at *ssa.BasicBlock, base map[string]string, depth int) []map[string]string {
	if depth > 4 || isNilConst(e) {
		return []map[string]string{base}
	}
	if fi.nonNil(e, at) {
		return nil
	}
	if p, ok := e.(*ssa.Phi); ok {
		var out []map[string]string
		for i, ed := range p.Edges {
			if ed == e {
				continue
			}
			pred := p.Block().Preds[i]
			if iff, isIf := blockTerm(pred).(*ssa.If); isIf && len(pred.Succs) == 2 && pred.Succs[0] != pred.Succs[1] {
				known := false
				for j, sc := range pred.Succs {
					if sc == p.Block() && condImpliesNonNil(iff.Cond, j == 0, ed) {
						known = true // the edge itself is the non-nil branch of a test of this very value
					}
				}
				if known {
					continue
				}
			}
			l := c03CopyLabels(base, c03EdgeFacts(fi, p.Block(), i))
			out = append(out, c03NilWays(fi, ed, pred, l, depth+1)...)
		}
		return out
	}
	l := c03CopyLabels(base)
	if call := callOf(e); call != nil && isErrorType(e.Type()) {
		// the exit reports success only if this call did
		l["EQ("+desc(e)+",nil)"] = fi.W.InstrPos(call)
		if ts := fi.W.summarizeCall(call, Mode{Kind: mErr}); ts != nil {
			for cl, cs := range ts.Checked {
				if _, ok := l[cl]; !ok {
					l[cl] = cs
				}
			}
		}
	}
	return []map[string]string{l}
}

func c03ResultWays(w *World, fi *FnInfo, v ssa.Value, from ssa.Value, ret *ssa.Return, base map[string]string, depth int) ([]map[string]string, bool) {
	if depth > 3 {
		return nil, false
	}
	if p, ok := v.(*ssa.Phi); ok {
		if st, clean := c03ErrStores(p, from); !clean || len(st) != 0 {
			return nil, false
		}
		var out []map[string]string
		for i, ed := range p.Edges {
			if ed == v {
				continue
			}
			l := c03CopyLabels(base, c03EdgeFacts(fi, p.Block(), i))
			ws, ok := c03ResultWays(w, fi, ed, p, ret, l, depth+1)
			if !ok {
				ws = []map[string]string{l} // cannot tell: through this edge the exit stays success-capable
			}
			out = append(out, ws...)
		}
		return out, true
	}
	e, eb, ok := c03ResultErr(w, v, from, ret)
	if !ok {
		return c03CalleeWays(w, v, from, base)
	}
	return c03NilWays(fi, e, eb, base, 0), true
}

var c03RefineBusy = map[*ssa.Function]bool{}

// c03CalleeWays: the result object v is what a module function H (not a constructor) returned, and this function does nothing
// to its error field. The ways in which that field may be nil are then the refined success-capable exits of H, with H's
// parameters replaced by the arguments of the call — the refinement composed through a forwarding layer (the engine composes
// H's unrefined summary only: it does not see that a single-exit H with an error local fails on one edge of the phi).
func c03CalleeWays(w *World, v ssa.Value, from ssa.Value, base map[string]string) ([]map[string]string, bool) {
	call, ok := v.(*ssa.Call)
	if !ok {
		return nil, false
	}
	H := staticCallee(call)
	if H == nil || H.Blocks == nil || !w.IsProductFn(H) || len(call.Call.Args) != len(H.Params) || c03RefineBusy[H] {
		return nil, false
	}
	if res := H.Signature.Results(); res.Len() != 1 || !c03IsResultPtr(res.At(0).Type()) {
		return nil, false
	}
	if st, clean := c03ErrStores(call, from); !clean || len(st) != 0 {
		return nil, false
	}
	mode := Mode{Kind: mObj, K: 0}
	s := w.Summarize(H, mode)
	if s == nil || !s.Complete {
		return nil, false
	}
	c03RefineBusy[H] = true
	exits := c03RefineExits(w, H, mode, s.Exits)
	delete(c03RefineBusy, H)
	names := make([]string, len(H.Params))
	descs := make([]string, len(H.Params))
	for i, p := range H.Params {
		names[i] = p.Name()
		descs[i] = desc(call.Call.Args[i])
	}
	out := []map[string]string{}
	for _, ex := range exits {
		l := c03CopyLabels(base)
		for k, site := range ex.Checked {
			k = substParams(k, names, descs)
			if _, have := l[k]; !have {
				l[k] = site
			}
		}
		out = append(out, l)
	}
	return out, true
}

// c03RefineExits re-decides the success-capable exits of a function that returns a result object (mode obj#K) on the value its
// error field holds. The engine treats the value of a result constructor as success-capable whatever error it was given and does
// not look into a phi stored into the field; here an exit whose error value is provably non-nil is a failing exit, and an exit
// whose error value is a phi is split into one exit per edge through which it may be nil, each carrying the facts of that edge.
// Soundness: an exit is dropped only if the object is fresh (literal or constructor value), nothing but this function's
// single dominating store / the constructor's unconditional store writes its error field, and the stored value is non-nil.
func c03RefineExits(w *World, fn *ssa.Function, mode Mode, exits []*ExitSum) []*ExitSum {
	if mode.Kind != mObj {
		return exits
	}
	fi := w.Info(fn)
	var out []*ExitSum
	for _, ex := range exits {
		if mode.K >= len(ex.Ret.Results) {
			out = append(out, ex)
			continue
		}
		v := ex.Ret.Results[mode.K]
		var from ssa.Value
		base := ex.Checked
		if p, ok := v.(*ssa.Phi); ok && p.Block() == ex.Ret.Block() && ex.Pred >= 0 && ex.Pred < len(p.Edges) {
			if st, clean := c03ErrStores(p, nil); !clean || len(st) != 0 {
				out = append(out, ex)
				continue
			}
			v, from = p.Edges[ex.Pred], p
		}
		ways, ok := c03ResultWays(w, fi, v, from, ex.Ret, base, 0)
		if !ok {
			out = append(out, ex)
			continue
		}
		for _, l := range ways {
			cp := *ex
			cp.Checked = l
			out = append(out, &cp)
		}
	}
	return out
}

// ---------- certificates: from the loader to VerifyAuthenticity -----------------------------------------------------------

// c03CertsFlow: v (a value of function fn) is exactly the certificate set returned by the call `load` of F: the extracted
// result itself, a phi of it (and nil: the empty set, which the empty-set rule makes a failure), or a parameter of a function
// with a closed call-site list every site of which passes such a value. via collects the calls of F through which the set is
// handed down (VerifyAuthenticity itself when it is called in F).
func c03CertsFlow(w *World, v ssa.Value, load *ssa.Call, certIdx int, hop *ssa.Call, hopParam *ssa.Parameter, via map[*ssa.Call]*ssa.Parameter, depth int) bool {
	if depth > 6 {
		return false
	}
	F := load.Parent()
	switch x := v.(type) {
	case *ssa.Extract:
		if x.Tuple == ssa.Value(load) && x.Index == certIdx {
			if hop != nil {
				via[hop] = hopParam
			}
			return true
		}
	case *ssa.Const:
		return x.IsNil()
	case *ssa.Phi:
		for _, e := range x.Edges {
			if e == v {
				continue
			}
			if !c03CertsFlow(w, e, load, certIdx, hop, hopParam, via, depth+1) {
				return false
			}
		}
		return len(x.Edges) > 0
	case *ssa.Parameter:
		g := x.Parent()
		sites, closed := c03CallSites(w, g)
		idx := c03ParamIndex(x)
		if !closed || len(sites) == 0 || idx < 0 {
			return false
		}
		for _, s := range sites {
			h, hp := hop, hopParam
			if call, ok := s.(*ssa.Call); ok && s.Parent() == F {
				h, hp = call, x
			}
			if !c03CertsFlow(w, s.Common().Args[idx], load, certIdx, h, hp, via, depth+1) {
				return false
			}
		}
		return true
	}
	return false
}

// c03Forwards: fn only forwards what the loader call returned: every exit returns, as its certificate result, the call's
// certificates (or nil), and a load error never reaches a success exit of fn. A caller of fn then sees exactly the loader's
// verdict, so fn is one more layer of the loader. Returns the index of the certificate result of fn.
func c03Forwards(w *World, fn *ssa.Function, call *ssa.Call, certIdx int) (int, bool) {
	res := fn.Signature.Results()
	if res.Len() < 2 || !isErrorType(res.At(res.Len()-1).Type()) {
		return -1, false
	}
	k := -1
	for i := 0; i < res.Len(); i++ {
		if c03IsCertSlice(res.At(i).Type()) {
			if k >= 0 {
				return -1, false
			}
			k = i
		}
	}
	if k < 0 {
		return -1, false
	}
	var fromCall func(v ssa.Value, depth int) bool
	fromCall = func(v ssa.Value, depth int) bool {
		if depth > 4 {
			return false
		}
		switch x := v.(type) {
		case *ssa.Const:
			return x.IsNil()
		case *ssa.Extract:
			return x.Tuple == ssa.Value(call) && x.Index == certIdx
		case *ssa.Phi:
			for _, e := range x.Edges {
				if e != v && !fromCall(e, depth+1) {
					return false
				}
			}
			return true
		}
		return false
	}
	n := 0
	for _, b := range fn.Blocks {
		r, ok := blockTerm(b).(*ssa.Return)
		if !ok {
			continue
		}
		if len(r.Results) != res.Len() || !fromCall(r.Results[k], 0) {
			return -1, false
		}
		n++
	}
	if n == 0 {
		return -1, false
	}
	fi := w.Info(fn)
	errD := descTailErr(call)
	cut := fi.edgesMatching(func(l string, _ *ssa.If, _ bool) bool { return l == "EQ("+errD+",nil)" })
	// an exit that returns the call's own error (`return load(...)`) is a failing exit whenever the call failed
	old := fi.ignoreTail
	fi.ignoreTail = map[*ssa.Call]bool{call: true}
	wit := fi.successWitness(Mode{Kind: mErr}, []state{{call.Block().Index, 0, -1}}, cut)
	fi.ignoreTail = old
	if wit != nil {
		return -1, false
	}
	return k, true
}

// ---------- trust stores: from the loader up to the statement ---------------------------------------------------------

// c03StoreSrc is one place the trust-store list handed to the loader comes from.
type c03StoreSrc struct {
	stmt  ssa.Value     // the statement whose TrustStores field is read (nil: not a statement field)
	fn    *ssa.Function // the function in which it is read
	pos   string
	other string // what it is instead
}

// c03VarStores: the values stored into a local variable that lives in memory (captured by a closure or address-taken); ok is
// false if the variable can be written in a way this rule does not see.
func c03VarStores(a *ssa.Alloc) (vals []ssa.Value, ok bool) {
	if a.Referrers() == nil {
		return nil, false
	}
	var visit func(addr ssa.Value, depth int) bool
	visit = func(addr ssa.Value, depth int) bool {
		if depth > 3 || addr.Referrers() == nil {
			return depth <= 3
		}
		for _, r := range *addr.Referrers() {
			switch y := r.(type) {
			case *ssa.UnOp, *ssa.DebugRef:
			case *ssa.Store:
				if y.Addr != addr {
					return false
				}
				vals = append(vals, y.Val)
			case *ssa.MakeClosure:
				f, isF := y.Fn.(*ssa.Function)
				if !isF {
					return false
				}
				for i, b := range y.Bindings {
					if b == addr && i < len(f.FreeVars) {
						if !visit(f.FreeVars[i], depth+1) {
							return false
						}
					}
				}
			default:
				return false
			}
		}
		return true
	}
	if !visit(a, 0) {
		return nil, false
	}
	return vals, len(vals) > 0
}

// c03FieldStoreVals: every value the module ever stores into field `field` of the unexported module struct type of base
// (composite literals included: they are field stores on a fresh object). The struct type is unexported and declared in the
// module, so nobody else can build or fill one; the field's address must never leave a load or a store. This follows a value
// through a "state struct" (a helper object that carries what used to be parameters) without tracking which object is which:
// the answer is the union over all objects of the type.
func c03FieldStoreVals(w *World, base types.Type, field int) ([]ssa.Value, bool) {
	tn := namedOf(base)
	t := base
	if p, ok := t.Underlying().(*types.Pointer); ok {
		t = p.Elem()
	}
	if a, ok := t.(*types.Alias); ok {
		t = types.Unalias(a)
	}
	n, ok := t.(*types.Named)
	if !ok || n.Obj().Pkg() == nil || !w.IsProductPkg(n.Obj().Pkg().Path()) || token.IsExported(n.Obj().Name()) {
		return nil, false
	}
	if _, isStruct := n.Underlying().(*types.Struct); !isStruct {
		return nil, false
	}
	var vals []ssa.Value
	for _, fn := range w.Funcs {
		for _, b := range fn.Blocks {
			for _, in := range b.Instrs {
				fa, ok := in.(*ssa.FieldAddr)
				if !ok || fa.Field != field || namedOf(fa.X.Type()) != tn || fa.Referrers() == nil {
					continue
				}
				for _, r := range *fa.Referrers() {
					switch y := r.(type) {
					case *ssa.UnOp, *ssa.DebugRef:
					case *ssa.Store:
						if y.Addr != ssa.Value(fa) {
							return nil, false
						}
						vals = append(vals, y.Val)
					default:
						return nil, false // the address of the field escapes
					}
				}
			}
		}
	}
	return vals, len(vals) > 0
}

// c03Bindings: the variables a free variable of a closure is bound to, at every place the closure is made.
func c03Bindings(fv *ssa.FreeVar) []ssa.Value {
	fn := fv.Parent()
	if fn == nil || fn.Parent() == nil {
		return nil
	}
	idx := -1
	for i, q := range fn.FreeVars {
		if q == fv {
			idx = i
		}
	}
	var out []ssa.Value
	for _, b := range fn.Parent().Blocks {
		for _, in := range b.Instrs {
			if mc, ok := in.(*ssa.MakeClosure); ok && mc.Fn == ssa.Value(fn) && idx >= 0 && idx < len(mc.Bindings) {
				out = append(out, mc.Bindings[idx])
			}
		}
	}
	return out
}

// c03StoresSources follows the trust-store list v upwards: through phis, through parameters of functions with a closed call-site
// list (to the argument at every site), through local variables kept in memory (to every value stored into them), until it is the
// TrustStores field of a statement, or something else.
func c03StoresSources(w *World, v ssa.Value, seen map[ssa.Value]bool, depth int) []c03StoreSrc {
	other := func(what string) []c03StoreSrc {
		pos := "-"
		if in, ok := v.(ssa.Instruction); ok {
			pos = w.InstrPos(in)
		} else if p, ok := v.(*ssa.Parameter); ok && p.Parent() != nil {
			pos = w.FnPos(p.Parent())
		}
		return []c03StoreSrc{{other: what, pos: pos}}
	}
	if depth > 8 {
		return other("a value followed too deep: " + trunc(desc(v), 80))
	}
	if seen[v] {
		return nil
	}
	seen[v] = true
	switch x := v.(type) {
	case *ssa.Field:
		if c03IsStatementType(x.X.Type()) && fieldName(x.X.Type(), x.Field) == "TrustStores" {
			return []c03StoreSrc{{stmt: x.X, fn: x.Parent(), pos: w.InstrPos(x)}}
		}
		if vals, ok := c03FieldStoreVals(w, x.X.Type(), x.Field); ok {
			var out []c03StoreSrc
			for _, sv := range vals {
				out = append(out, c03StoresSources(w, sv, seen, depth+1)...)
			}
			return out
		}
	case *ssa.UnOp:
		if x.Op != token.MUL {
			break
		}
		switch a := x.X.(type) {
		case *ssa.FieldAddr:
			if c03IsStatementType(a.X.Type()) && fieldName(a.X.Type(), a.Field) == "TrustStores" {
				return []c03StoreSrc{{stmt: a.X, fn: x.Parent(), pos: w.InstrPos(x)}}
			}
			// a field of a state struct: every value ever stored into that field
			if vals, ok := c03FieldStoreVals(w, a.X.Type(), a.Field); ok {
				var out []c03StoreSrc
				for _, sv := range vals {
					out = append(out, c03StoresSources(w, sv, seen, depth+1)...)
				}
				return out
			}
		case *ssa.Alloc:
			if vals, ok := c03VarStores(a); ok {
				var out []c03StoreSrc
				for _, sv := range vals {
					out = append(out, c03StoresSources(w, sv, seen, depth+1)...)
				}
				return out
			}
		case *ssa.FreeVar:
			var out []c03StoreSrc
			bs := c03Bindings(a)
			for _, b := range bs {
				al, isAl := b.(*ssa.Alloc)
				if !isAl {
					return other("a captured variable: " + trunc(desc(v), 80))
				}
				vals, ok := c03VarStores(al)
				if !ok {
					return other("a captured variable written in a way the rule does not follow: " + trunc(desc(v), 80))
				}
				for _, sv := range vals {
					out = append(out, c03StoresSources(w, sv, seen, depth+1)...)
				}
			}
			if len(bs) > 0 {
				return out
			}
		}
	case *ssa.Phi:
		var out []c03StoreSrc
		for _, e := range x.Edges {
			if e != v {
				out = append(out, c03StoresSources(w, e, seen, depth+1)...)
			}
		}
		return out
	case *ssa.Parameter:
		g := x.Parent()
		sites, closed := c03CallSites(w, g)
		idx := c03ParamIndex(x)
		if !closed || len(sites) == 0 || idx < 0 {
			return other("a parameter of " + fnName(g) + ", which can be called with any list")
		}
		var out []c03StoreSrc
		for _, s := range sites {
			out = append(out, c03StoresSources(w, s.Common().Args[idx], seen, depth+1)...)
		}
		return out
	}
	return other(trunc(desc(v), 120))
}

func c03IsSelection(name string) bool {
	if !strings.HasPrefix(name, "(*ngo/verifier/trustpolicy.") {
		return false
	}
	return strings.HasSuffix(name, ").GetApplicableTrustPolicy") || strings.HasSuffix(name, ").GetGlobalTrustPolicy")
}

// c03StmtOrigins follows a statement value upwards to the calls that produced it: through phis, dereferences and local copies,
// through parameters (closed call-site lists) and through the results of module helpers (every exit of the helper). sel collects
// the selection calls of the policy document reached, bad everything else a statement could come from.
func c03StmtOrigins(w *World, v ssa.Value, seen map[ssa.Value]bool, depth int, sel, bad *[]string) {
	if depth > 8 {
		*bad = append(*bad, "followed too deep: "+trunc(desc(v), 80))
		return
	}
	if seen[v] {
		return
	}
	seen[v] = true
	fromCall := func(call *ssa.Call, k int) {
		if c03IsSelection(calleeName(call)) {
			if k == 0 {
				*sel = append(*sel, calleeName(call))
			} else {
				*bad = append(*bad, "result "+fmt.Sprint(k)+" of "+calleeName(call))
			}
			return
		}
		H := staticCallee(call)
		if H == nil || H.Blocks == nil || !w.IsProductFn(H) {
			*bad = append(*bad, trunc(desc(call), 100))
			return
		}
		n := 0
		for _, b := range H.Blocks {
			if r, ok := blockTerm(b).(*ssa.Return); ok && k < len(r.Results) {
				n++
				c03StmtOrigins(w, r.Results[k], seen, depth+1, sel, bad)
			}
		}
		if n == 0 {
			*bad = append(*bad, "a helper without exits: "+fnName(H))
		}
	}
	switch x := v.(type) {
	case *ssa.Const:
		if x.IsNil() {
			return // no statement at all (the selection failed): nothing is read from it
		}
	case *ssa.Call:
		fromCall(x, 0)
		return
	case *ssa.Extract:
		if call, ok := x.Tuple.(*ssa.Call); ok {
			fromCall(call, x.Index)
			return
		}
	case *ssa.Phi:
		for _, e := range x.Edges {
			if e != v {
				c03StmtOrigins(w, e, seen, depth+1, sel, bad)
			}
		}
		return
	case *ssa.UnOp:
		if x.Op == token.MUL {
			if al, ok := x.X.(*ssa.Alloc); ok {
				if vals, ok := c03VarStores(al); ok {
					for _, sv := range vals {
						c03StmtOrigins(w, sv, seen, depth+1, sel, bad)
					}
					return
				}
				break
			}
			if fa, isField := x.X.(*ssa.FieldAddr); isField {
				if vals, ok := c03FieldStoreVals(w, fa.X.Type(), fa.Field); ok {
					for _, sv := range vals {
						c03StmtOrigins(w, sv, seen, depth+1, sel, bad)
					}
					return
				}
				break
			}
			if _, isIdx := x.X.(*ssa.IndexAddr); isIdx {
				break
			}
			c03StmtOrigins(w, x.X, seen, depth+1, sel, bad) // *p: a copy of the statement p points to
			return
		}
	case *ssa.Alloc:
		// the address of a local copy of a statement
		if vals, ok := c03VarStores(x); ok {
			for _, sv := range vals {
				c03StmtOrigins(w, sv, seen, depth+1, sel, bad)
			}
			return
		}
	case *ssa.Parameter:
		g := x.Parent()
		sites, closed := c03CallSites(w, g)
		idx := c03ParamIndex(x)
		if !closed || len(sites) == 0 || idx < 0 {
			*bad = append(*bad, "a parameter of "+fnName(g)+", which can be called with any statement")
			return
		}
		for _, s := range sites {
			c03StmtOrigins(w, s.Common().Args[idx], seen, depth+1, sel, bad)
		}
		return
	}
	*bad = append(*bad, trunc(desc(v), 120))
}

// c03StmtBase strips the loads between a field access and the statement value it is applied to.
func c03StmtBase(v ssa.Value) ssa.Value {
	for {
		u, ok := v.(*ssa.UnOp)
		if !ok || u.Op != token.MUL {
			return v
		}
		switch u.X.(type) {
		case *ssa.FieldAddr, *ssa.IndexAddr, *ssa.Alloc, *ssa.FreeVar, *ssa.Global:
			return v
		}
		v = u.X
	}
}

// c03StmtFieldOf: v is (the address of, or a load of) a field of a statement: returns the statement and the field name.
func c03StmtFieldOf(v ssa.Value) (ssa.Value, string, bool) {
	if u, ok := v.(*ssa.UnOp); ok && u.Op == token.MUL {
		v = u.X
	}
	switch x := v.(type) {
	case *ssa.FieldAddr:
		if c03IsStatementType(x.X.Type()) {
			return x.X, fieldName(x.X.Type(), x.Field), true
		}
	case *ssa.Field:
		if c03IsStatementType(x.X.Type()) {
			return x.X, fieldName(x.X.Type(), x.Field), true
		}
	}
	return nil, "", false
}

// c03Scoping: per-statement scoping, decided on values. The list handed to the loader call `load` (argument storesIdx) must be,
// on every way into the loader, the TrustStores field of a statement S; S must be what a selection method of the policy
// document returned (whatever helpers and parameters it travelled through); and in the function T that takes the statement apart,
// every statement field handed to module code is a field of that same S — name, trust stores, trusted identities and
// signatureVerification are all handed on (or the statement is handed on whole).
func c03Scoping(c *Ctx, load *ssa.Call, storesIdx int, tag string) {
	w := c.W
	F := load.Parent()
	ruleL := "per-statement scoping: the trust-store list the " + tag + "loader receives is, on every way into it, the TrustStores field of a policy statement (followed through parameters, captured variables and phis)"
	keyL := "scoping/loader-gets-statement-stores"
	if tag != "" {
		keyL = "scoping/" + strings.TrimSpace(tag) + "-loader-gets-statement-stores"
	}
	if storesIdx < 0 || storesIdx >= len(load.Call.Args) {
		c.Unk(keyL, ruleL, w.InstrPos(load), "anchor: the stores argument of the loader call was not found")
		return
	}
	srcs := c03StoresSources(w, load.Call.Args[storesIdx], map[ssa.Value]bool{}, 0)
	c.Evals += len(srcs)
	var others []string
	for _, s := range srcs {
		if s.stmt == nil {
			others = append(others, s.other+" ("+s.pos+")")
		}
	}
	if len(srcs) == 0 {
		c.Unk("scoping/one-statement", "anchor: the statement whose trust stores are loaded", w.FnPos(F), "no source of the loader's trust-store list found")
		return
	}
	if !c.Check(len(others) == 0, keyL, ruleL, w.InstrPos(load), "the list also comes from: "+strings.Join(uniq(sortStrings(others)), "; ")) {
		// the statement-field sources are still checked below
	}
	rule := "per-statement scoping: name, trust stores, trusted identities and signatureVerification handed to the signature processing are fields of the single statement returned by the policy selection"
	for _, s := range srcs {
		if s.stmt == nil {
			continue
		}
		T := s.fn
		c.SeenFn(T.String())
		key := "scoping/one-statement/" + fnName(T)
		S := c03StmtBase(s.stmt)
		var sel, bad []string
		c03StmtOrigins(w, S, map[ssa.Value]bool{}, 0, &sel, &bad)
		c.Evals++
		if len(bad) > 0 || len(sel) == 0 {
			c.Bad(key, rule, s.pos, fmt.Sprintf("the statement %s whose trust stores are loaded is not (only) the result of the policy selection: selection calls %v, other origins %v",
				trunc(desc(S), 100), uniq(sortStrings(sel)), uniq(sortStrings(bad))))
			continue
		}
		// fields handed to module code in T
		have := map[string]bool{}
		var foreign []string
		_, whole := S.(*ssa.Parameter)
		for _, ci := range allCalls(T) {
			g := staticCallee(ci)
			if g != nil && !w.IsProductFn(g) {
				continue // logging, formatting
			}
			if ci.Common().IsInvoke() {
				if p := ci.Common().Method.Pkg(); p == nil || !w.IsProductPkg(p.Path()) {
					continue
				}
			}
			for _, a := range callArgs(ci) {
				if c03IsStatementType(a.Type()) && c03StmtBase(a) == S {
					whole = true
					continue
				}
				base, name, ok := c03StmtFieldOf(a)
				if !ok {
					continue
				}
				if c03StmtBase(base) == S {
					have[name] = true
				} else {
					switch name {
					case "Name", "TrustStores", "TrustedIdentities", "SignatureVerification":
						foreign = append(foreign, name+" of "+trunc(desc(base), 80))
					}
				}
			}
		}
		// Class "several parameters bundled into a struct / state struct" (fifth pass): a statement field is also handed to module
		// code when T stores it into a field of an object of an unexported module struct type (a parameter object filled by a
		// literal or field by field, the receiver's state): the type is unexported and declared in the module, so only module code
		// can read that field — the same "handed to module code" the call-argument form stands for. The clause itself is
		// unchanged and decided on the same values: every such store must be of a field of the selected statement S (a field of
		// any other statement stored anywhere by T — whatever the destination — is foreign), and all four fields (or the whole
		// statement) must leave T one way or the other. Where the bundled list ends up is not decided here: the loader's list is
		// followed upwards through the object's field by c03StoresSources (union over everything the module stores into it).
		for _, b := range T.Blocks {
			for _, in := range b.Instrs {
				st, isSt := in.(*ssa.Store)
				if !isSt {
					continue
				}
				c.Evals++
				toModuleObj := false
				if fa, isFA := st.Addr.(*ssa.FieldAddr); isFA && c03ObjType(w, fa.X.Type()) != nil {
					toModuleObj = true
				}
				if c03IsStatementType(st.Val.Type()) && c03StmtBase(st.Val) == S {
					if toModuleObj {
						whole = true
					}
					continue
				}
				base, name, ok := c03StmtFieldOf(st.Val)
				if !ok {
					continue
				}
				if c03StmtBase(base) == S {
					if toModuleObj {
						have[name] = true
					}
				} else {
					switch name {
					case "Name", "TrustStores", "TrustedIdentities", "SignatureVerification":
						foreign = append(foreign, name+" of "+trunc(desc(base), 80)+" (stored)")
					}
				}
			}
		}
		have["TrustStores"] = true
		var missing []string
		for _, f := range []string{"Name", "TrustStores", "TrustedIdentities", "SignatureVerification"} {
			if !have[f] && !whole {
				missing = append(missing, f)
			}
		}
		var got []string
		for f := range have {
			got = append(got, f)
		}
		sort.Strings(got)
		c.Check(len(foreign) == 0 && len(missing) == 0, key, rule, s.pos,
			fmt.Sprintf("statement %s; fields of it handed on: %v; not handed on: %v; fields of another statement handed on: %v", trunc(desc(S), 100), got, missing, foreign))
	}
}

// ---------- authenticity ----------------------------------------------------------------------------------------------------

// c03IsLoadErr: v is the error result of the loader call itself (the SSA value, not a copy that went through memory).
func c03IsLoadErr(v ssa.Value, load *ssa.Call, loadErr string) bool {
	if e, ok := v.(*ssa.Extract); ok && e.Tuple == ssa.Value(load) && isErrorType(e.Type()) {
		return true
	}
	return desc(v) == loadErr
}

// c03VerdictMode: the mode under which the engine reads the verdict of a function that returns a validation result or an error.
func c03VerdictMode(H *ssa.Function) (Mode, bool) {
	res := H.Signature.Results()
	if res.Len() == 1 && c03IsResultPtr(res.At(0).Type()) {
		return Mode{Kind: mObj, K: 0}, true
	}
	if res.Len() >= 1 && isErrorType(res.At(res.Len()-1).Type()) {
		return Mode{Kind: mErr}, true
	}
	return Mode{}, false
}

// c03FailsOnParam: the module function H reports a failure whenever its error parameter i is non-nil: every success-capable exit
// of H (an exit whose error / whose result's error field may be nil, refined on the value that ends up in the field) is reachable
// only through the passing edge of `param i == nil`. A result constructor is the trivial case (error field = parameter); a
// function that is handed the loader's error next to the certificates and decides itself is the general one.
func c03FailsOnParam(w *World, H *ssa.Function, i int) bool {
	if H == nil || H.Blocks == nil || !w.IsProductFn(H) || i < 0 || i >= len(H.Params) || !isErrorType(H.Params[i].Type()) {
		return false
	}
	mode, ok := c03VerdictMode(H)
	if !ok {
		return false
	}
	s := w.Summarize(H, mode)
	if s == nil || !s.Complete {
		return false
	}
	want := "EQ(" + desc(H.Params[i]) + ",nil)"
	for _, ex := range c03RefineExits(w, H, mode, s.Exits) {
		if !labelHas(ex.Checked, want) {
			return false
		}
	}
	return true
}

// c03TypedAs: the result object v has the validation type ta: a literal / fresh object whose Type field is only ever stored with
// that constant, the value of a result constructor given that constant, the result of a module function all of whose exits return
// such an object, or a phi of such values.
func c03TypedAs(w *World, v ssa.Value, ta string, depth int) bool {
	if depth > 4 {
		return false
	}
	switch x := v.(type) {
	case *ssa.Alloc:
		if !c03IsResultPtr(x.Type()) || x.Referrers() == nil {
			return false
		}
		n := 0
		for _, r := range *x.Referrers() {
			fa, ok := r.(*ssa.FieldAddr)
			if !ok || fieldName(x.Type(), fa.Field) != "Type" || fa.Referrers() == nil {
				continue
			}
			for _, rr := range *fa.Referrers() {
				switch z := rr.(type) {
				case *ssa.UnOp, *ssa.DebugRef:
				case *ssa.Store:
					if z.Addr != ssa.Value(fa) || !c03IsConstString(z.Val, ta) {
						return false
					}
					n++
				default:
					return false
				}
			}
		}
		return n > 0
	case *ssa.Phi:
		for _, e := range x.Edges {
			if e != v && !c03TypedAs(w, e, ta, depth+1) {
				return false
			}
		}
		return len(x.Edges) > 0
	case *ssa.Call:
		H := staticCallee(x)
		if H == nil || H.Blocks == nil || !w.IsProductFn(H) {
			return false
		}
		if k := c03CtorOf0(w, H, 0); k != nil && len(x.Call.Args) == len(H.Params) {
			return c03IsConstString(c03CtorField(k, x, "Type"), ta)
		}
		return c03ReturnsTyped(w, H, ta, depth+1)
	}
	return false
}

func c03ReturnsTyped(w *World, H *ssa.Function, ta string, depth int) bool {
	res := H.Signature.Results()
	if res.Len() != 1 || !c03IsResultPtr(res.At(0).Type()) {
		return false
	}
	n := 0
	for _, b := range H.Blocks {
		if r, ok := blockTerm(b).(*ssa.Return); ok {
			if len(r.Results) != 1 || !c03TypedAs(w, r.Results[0], ta, depth) {
				return false
			}
			n++
		}
	}
	return n > 0
}

// c03NoBypass: every path from the load to an exit of its function on which the loader's error may be non-nil (the passing edge
// of a nil test of that error is never taken) goes through the block of x.
func c03NoBypass(load *ssa.Call, x ssa.Instruction, loadErr string) bool {
	if x.Parent() != load.Parent() {
		return false
	}
	if x.Block() == load.Block() {
		return true // x uses a result of the load: it comes after it
	}
	pass := "EQ(" + loadErr + ",nil)"
	seen := map[*ssa.BasicBlock]bool{load.Block(): true}
	stack := []*ssa.BasicBlock{load.Block()}
	for len(stack) > 0 {
		b := stack[len(stack)-1]
		stack = stack[:len(stack)-1]
		t := blockTerm(b)
		if _, isRet := t.(*ssa.Return); isRet {
			return false
		}
		iff, isIf := t.(*ssa.If)
		for j, sc := range b.Succs {
			if isIf && len(b.Succs) == 2 && b.Succs[0] != b.Succs[1] {
				l := condLabel(iff.Cond, j == 0)
				if tw, ok := labelTwin(l); l == pass || (ok && tw == pass) {
					continue
				}
			}
			if sc == x.Block() || seen[sc] {
				continue
			}
			seen[sc] = true
			stack = append(stack, sc)
		}
	}
	return true
}

// c03HandedLoadErr: the call hands the loader's error, as it is, to a module function that fails whenever that parameter is
// non-nil (c03FailsOnParam), and when the load failed the call cannot be bypassed (c03NoBypass). The value of the call (an
// error, or a validation result) is then a failure whenever the load failed: the class "parameter widened" — the function that
// used to get the certificates only now gets the load error too and decides itself.
func c03HandedLoadErr(w *World, call *ssa.Call, load *ssa.Call, loadErr string) bool {
	H := staticCallee(call)
	if H == nil || H.Blocks == nil || !w.IsProductFn(H) || len(call.Call.Args) != len(H.Params) || call.Parent() != load.Parent() {
		return false
	}
	for i, a := range call.Call.Args {
		if c03IsLoadErr(a, load, loadErr) && c03FailsOnParam(w, H, i) && c03NoBypass(load, call, loadErr) {
			return true
		}
	}
	return false
}

// c03CarriesLoadErr: val (used by the instruction at) is non-nil whenever the load failed: it is the loader's error on a path
// where that error is non-nil, an error local filled in with it on the failing branch, or the verdict of a module function that
// was handed the loader's error and fails on it.
func c03CarriesLoadErr(fi *FnInfo, val ssa.Value, at ssa.Instruction, load *ssa.Call, loadErr string) bool {
	isErrOfLoad := func(v ssa.Value) bool { return c03IsLoadErr(v, load, loadErr) }
	if isErrOfLoad(val) && labelHas(fi.GuardsOf(at), "NE("+loadErr+",nil)") {
		return true
	}
	// an error local filled in on the failing branch: a phi one edge of which is the loader's error and is entered only when
	// that error is non-nil
	if ph, ok := val.(*ssa.Phi); ok {
		for i, e := range ph.Edges {
			if !isErrOfLoad(e) {
				continue
			}
			if labelHas(c03EdgeFacts(fi, ph.Block(), i), "NE("+loadErr+",nil)") {
				return true
			}
		}
	}
	if call := callOf(val); call != nil && isErrorType(val.Type()) {
		return c03HandedLoadErr(fi.W, call, load, loadErr)
	}
	return false
}

func c03IsConstString(v ssa.Value, s string) bool {
	k, ok := v.(*ssa.Const)
	return ok && constString(k) == fmt.Sprintf("%q", s)
}

// c03LoadErrorRecorded: in F, the loader's error becomes the Error of an authenticity-typed validation result: a composite
// literal / object whose Error field is stored with it (the object may have been created up front, by a literal or by a
// constructor of successful results), the value of a result constructor called with it, or the result of a module function
// that is handed the loader's error and fails on it (c03HandedLoadErr) and returns authenticity-typed results only.
func c03LoadErrorRecorded(w *World, F *ssa.Function, load *ssa.Call, loadErr, ta string) bool {
	fi := w.Info(F)
	for _, b := range F.Blocks {
		for _, in := range b.Instrs {
			switch x := in.(type) {
			case *ssa.Store:
				fa, isFa := x.Addr.(*ssa.FieldAddr)
				if !isFa || !c03IsResultPtr(fa.X.Type()) || fieldName(fa.X.Type(), fa.Field) != "Error" {
					continue
				}
				if !c03CarriesLoadErr(fi, x.Val, x, load, loadErr) {
					continue
				}
				// the same object has Type authenticity: its Type field is stored with the constant, or it is the value of a
				// constructor that was given the authenticity type
				switch fa.X.(type) {
				case *ssa.Alloc, *ssa.Call:
					if c03TypedAs(w, fa.X, ta, 0) {
						return true
					}
				}
			case *ssa.Call:
				H := staticCallee(x)
				if H == nil || len(x.Call.Args) != len(H.Params) {
					continue
				}
				if k := c03CtorOf(w, H, 0); k != nil {
					if c03CarriesLoadErr(fi, x.Call.Args[k.errParam], x, load, loadErr) && c03IsConstString(c03CtorField(k, x, "Type"), ta) {
						return true
					}
					continue
				}
				if c03IsResultPtr(x.Type()) && c03HandedLoadErr(w, x, load, loadErr) && c03ReturnsTyped(w, H, ta, 0) {
					return true
				}
			}
		}
	}
	return false
}

// c03TowardVerify: the calls of R through which control can reach signature.VerifyAuthenticity: the call of it, or a call of a
// module function in whose call tree it is called.
func c03TowardVerify(w *World, R *ssa.Function) (out []*ssa.Call, ok bool) {
	ok = true
	for _, ci := range allCalls(R) {
		toward := isCallTo(ci, "core/signature.VerifyAuthenticity")
		if g := staticCallee(ci); !toward && g != nil && g != R && w.IsProductFn(g) {
			for _, f := range w.moduleCallees(g) {
				if len(findCalls(f, "core/signature.VerifyAuthenticity")) > 0 {
					toward = true
				}
			}
		}
		if !toward {
			continue
		}
		call, isCall := ci.(*ssa.Call)
		if !isCall {
			ok = false // go / defer: not on a path the guards describe
			continue
		}
		out = append(out, call)
	}
	return out, ok
}

// c03GatedByLoad: the call `at` of fn is evaluated only when the loader's error is nil. Either the call itself sits behind the
// passing edge of `err == nil` in fn (err: the loader's error in fn's frame), or the loader's error is handed on to the callee
// as an argument and, inside the callee, every call through which signature.VerifyAuthenticity can be reached is so gated on the
// corresponding parameter (recursively). The effect-site gate is thereby decided at the call of VerifyAuthenticity, wherever the
// nil test of the loader's error sits on the call chain down to it.
func c03GatedByLoad(w *World, fn *ssa.Function, at *ssa.Call, isErr func(ssa.Value) bool, errD string, depth int) (bool, map[string]string) {
	g := w.Info(fn).GuardsOf(at)
	if labelHas(g, "EQ("+errD+",nil)") {
		return true, g
	}
	R := staticCallee(at)
	if depth > 3 || R == nil || R == fn || R.Blocks == nil || !w.IsProductFn(R) || len(at.Call.Args) != len(R.Params) {
		return false, g
	}
	inner, ok := c03TowardVerify(w, R)
	if !ok || len(inner) == 0 {
		return false, g
	}
	for i, a := range at.Call.Args {
		if !isErr(a) {
			continue
		}
		p := R.Params[i]
		all := true
		for _, d := range inner {
			if ok, _ := c03GatedByLoad(w, R, d, func(v ssa.Value) bool { return v == ssa.Value(p) }, desc(p), depth+1); !ok {
				all = false
				break
			}
		}
		if all {
			return true, g
		}
	}
	return false, g
}

// c03Authenticity: the certificates returned by the loader call `load` (result certIdx) are exactly what
// signature.VerifyAuthenticity receives; an empty set, a verification error and a load error are failing results.
func c03Authenticity(c *Ctx, load *ssa.Call, certIdx int) {
	w := c.W
	F := load.Parent()
	loadErr := descTailErr(load)
	rule := "provenance: signature.VerifyAuthenticity receives exactly the certificates the scheme-typed loader returned for the applicable statement's stores"
	type vaSite struct {
		call *ssa.Call
		fn   *ssa.Function
	}
	var vas []vaSite
	for _, f := range w.moduleCallees(F) {
		for _, ci := range findCalls(f, "core/signature.VerifyAuthenticity") {
			if call, ok := ci.(*ssa.Call); ok {
				vas = append(vas, vaSite{call, f})
			}
		}
	}
	if len(vas) == 0 {
		c.Bad("authenticity/verify-call", rule, w.FnPos(F), "signature.VerifyAuthenticity is not called on the authenticity path")
		return
	}
	ta, _ := w.constString("verifier/trustpolicy", "TypeAuthenticity")
	c.Evals++
	c.Check(c03LoadErrorRecorded(w, F, load, loadErr, ta), "authenticity/load-error-is-failure",
		"a loader error is stored as the Error of an authenticity-typed validation result (it is never ignored)", w.InstrPos(load), "no authenticity result carries the loader's error")
	for _, vs := range vas {
		va, vaFn := vs.call, vs.fn
		c.SeenFn(vaFn.String())
		certD := desc(va.Call.Args[1])
		via := map[*ssa.Call]*ssa.Parameter{}
		var hop *ssa.Call
		if vaFn == F {
			hop = va
		}
		ok := c03CertsFlow(w, va.Call.Args[1], load, certIdx, hop, nil, via, 0)
		c.Evals++
		c.Check(ok, "authenticity/certs-from-loader", rule, w.InstrPos(va), "the certificates given to VerifyAuthenticity are "+certD+", not (only) the loader's result")
		// first argument: the verified signer info
		siD := desc(va.Call.Args[0])
		okSI := strings.HasSuffix(siD, ".EnvelopeContent.SignerInfo") || c03SignerInfoOfEnvelope(w, va.Call.Args[0], 0)
		c.Check(okSI, "authenticity/signer-info", "provenance: VerifyAuthenticity is applied to the verified envelope's SignerInfo", w.InstrPos(va), "first argument is "+siD)
		var hops []*ssa.Call
		for vc := range via {
			hops = append(hops, vc)
		}
		sort.Slice(hops, func(i, j int) bool { return hops[i].Pos() < hops[j].Pos() })
		for _, vc := range hops {
			gated, g := c03GatedByLoad(w, F, vc, func(v ssa.Value) bool { return c03IsLoadErr(v, load, loadErr) }, loadErr, 0)
			c.Evals++
			c.Check(gated, "authenticity/only-after-successful-load", "effect-site gate: authenticity is evaluated only after the stores were loaded without error (the nil test of the loader's error guards the call that hands the certificates on, or the error is handed on with them and guards the way to signature.VerifyAuthenticity inside the callee)", w.InstrPos(vc), "guards: "+summarizeLabels(g, 6))
			// inside the function of F's that is handed the certificates (it calls VerifyAuthenticity itself or through helpers, whose
			// must-pass facts the engine composes into its exits with the parameters replaced by the arguments): an empty set and a
			// verification error are failing results
			R, cp := staticCallee(vc), via[vc]
			if cp == nil || R == nil || R == F {
				continue
			}
			c.SeenFn(R.String())
			mode := Mode{Kind: mErr}
			if R.Signature.Results().Len() == 1 && c03IsResultPtr(R.Signature.Results().At(0).Type()) {
				mode = Mode{Kind: mObj, K: 0}
			}
			s := w.Summarize(R, mode)
			c.Evals += s.States
			exits := c03RefineExits(w, R, mode, s.Exits)
			pd := desc(cp)
			c.requireOnExits("authenticity", R, exits, []Need{
				{Name: "empty-set-fails", What: "len(trusted certificates) >= 1", Alt: [][]string{{"GE(len(" + pd + "),const:1)"}, {"GT(len(" + pd + "),const:0)"}, {"NE(len(" + pd + "),const:0)"}}},
				{Name: "verify-error-fails", What: "signature.VerifyAuthenticity err == nil", Subs: []string{"EQ(call:core/signature.VerifyAuthenticity(", "#err,nil)"}},
			})
		}
	}
}

// c03SchemeProvenance: v is the verified envelope's signing scheme — read from the envelope's SignerInfo (c03SchemeOfEnvelope), or a
// parameter of a function with a closed call-site list every site of which passes such a value, or a phi of such values.
func c03SchemeProvenance(w *World, v ssa.Value, depth int) bool {
	if depth > 4 {
		return false
	}
	if strings.HasSuffix(desc(v), ".SignerInfo.SignedAttributes.SigningScheme") || c03SchemeOfEnvelope(w, v) {
		return true
	}
	switch x := v.(type) {
	case *ssa.Phi:
		for _, e := range x.Edges {
			if e != v && !c03SchemeProvenance(w, e, depth+1) {
				return false
			}
		}
		return len(x.Edges) > 0
	case *ssa.Parameter:
		if namedOf(x.Type()) != "core/signature.SigningScheme" {
			return false
		}
		sites, closed := c03CallSites(w, x.Parent())
		idx := c03ParamIndex(x)
		if !closed || len(sites) == 0 || idx < 0 {
			return false
		}
		for _, s := range sites {
			if !c03SchemeProvenance(w, s.Common().Args[idx], depth+1) {
				return false
			}
		}
		return true
	}
	return false
}

// c03OnTimestampPath: fn parses the countersignature token itself, or is a helper every caller of which is on the timestamp path.
func c03OnTimestampPath(w *World, fn *ssa.Function, depth int) bool {
	if len(findCalls(fn, "tspclient.ParseSignedToken")) > 0 {
		return true
	}
	if depth > 2 {
		return false
	}
	sites, closed := c03CallSites(w, fn)
	if !closed || len(sites) == 0 {
		return false
	}
	for _, s := range sites {
		if !c03OnTimestampPath(w, s.Parent(), depth+1) {
			return false
		}
	}
	return true
}

// c03TableMapping: v is `table[scheme]` (comma-ok form) where table is a package-level map of the module that is initialised by
// a constant literal and never written afterwards, and scheme is a parameter of the function. Returns the literal's entries
// (scheme -> store type) and the label that holds when the lookup found an entry. A table is the switch written as data: the
// constant that reaches the loader for scheme s is table[s], and a scheme without entry is rejected by the ok test.
func c03TableMapping(w *World, v ssa.Value) (entries map[string]string, okLabel string, ok bool) {
	ex, isEx := v.(*ssa.Extract)
	if !isEx || ex.Index != 0 {
		return nil, "", false
	}
	lk, isLk := ex.Tuple.(*ssa.Lookup)
	if !isLk || !lk.CommaOk {
		return nil, "", false
	}
	ld, isLd := lk.X.(*ssa.UnOp)
	if !isLd || ld.Op != token.MUL {
		return nil, "", false
	}
	g, isG := ld.X.(*ssa.Global)
	if !isG || g.Pkg == nil || !w.IsProductPkg(g.Pkg.Pkg.Path()) {
		return nil, "", false
	}
	if _, isP := lk.Index.(*ssa.Parameter); !isP {
		return nil, "", false
	}
	// never written: one store (the package initialiser), every load is only looked up / ranged over / measured
	stores := 0
	for _, fn := range w.Funcs {
		for _, b := range fn.Blocks {
			for _, in := range b.Instrs {
				switch x := in.(type) {
				case *ssa.Store:
					if x.Addr == ssa.Value(g) {
						stores++
						if fn.Name() != "init" || fn.Synthetic == "" {
							return nil, "", false
						}
					}
					if x.Val == ssa.Value(g) {
						return nil, "", false
					}
				case *ssa.UnOp:
					if x.Op != token.MUL || x.X != ssa.Value(g) || x.Referrers() == nil {
						continue
					}
					for _, r := range *x.Referrers() {
						switch y := r.(type) {
						case *ssa.Lookup:
							if y.X != ssa.Value(x) {
								return nil, "", false
							}
						case *ssa.Range, *ssa.DebugRef:
						case *ssa.Call:
							if bi, isB := y.Call.Value.(*ssa.Builtin); !isB || bi.Name() != "len" {
								return nil, "", false
							}
						default:
							return nil, "", false
						}
					}
				default:
					for _, op := range in.Operands(nil) {
						if op != nil && *op == ssa.Value(g) {
							return nil, "", false // the address of the table is taken
						}
					}
				}
			}
		}
	}
	if stores != 1 {
		return nil, "", false
	}
	rel := strings.TrimPrefix(strings.TrimPrefix(g.Pkg.Pkg.Path(), modPath), "/")
	init, pp := w.pkgVarInit(rel, g.Name())
	if init == nil {
		return nil, "", false
	}
	lit, isLit := mapLiteral(pp, init)
	if !isLit || len(lit) == 0 {
		return nil, "", false
	}
	return lit, "T(ok(" + desc(lk) + "))", true
}

// c03FromLoadResult: the second operand of an append is the certificate slice the load call returned, or a list of elements of
// that slice (the certificates appended one by one).
func c03FromLoadResult(v ssa.Value, L *ssa.Call) bool {
	isRes := func(x ssa.Value) bool {
		e, ok := x.(*ssa.Extract)
		return ok && e.Tuple == ssa.Value(L) && e.Index == 0
	}
	if isRes(v) {
		return true
	}
	sl, ok := v.(*ssa.Slice)
	if !ok || sl.Low != nil || sl.High != nil {
		return false
	}
	al, ok := sl.X.(*ssa.Alloc)
	if !ok {
		return false
	}
	els := orderedLitElems(al)
	if len(els) == 0 {
		return false
	}
	for _, e := range els {
		ld, ok := e.(*ssa.UnOp)
		if !ok || ld.Op != token.MUL {
			return false
		}
		ia, ok := ld.X.(*ssa.IndexAddr)
		if !ok || !isRes(ia.X) {
			return false
		}
	}
	return true
}

// c03EnvelopeContent: v is the envelope content recorded in the verification outcome (the one the integrity step verified):
// read from the EnvelopeContent field of an outcome; the very value this function stores into that field (held in a local
// instead of being re-read); a phi of such values; or a parameter of envelope-content type of a function with a closed call-site
// list every site of which passes such a value. The narrowed parameter names the same object the wide one (the outcome) gave
// access to, so VerifyAuthenticity is applied to the same SignerInfo.
func c03EnvelopeContent(w *World, v ssa.Value, depth int) bool {
	if depth > 4 || namedOf(v.Type()) != "core/signature.EnvelopeContent" {
		return false
	}
	if ld, ok := v.(*ssa.UnOp); ok && ld.Op == token.MUL {
		if _, isFA := ld.X.(*ssa.FieldAddr); !isFA {
			return c03EnvelopeContent(w, ld.X, depth+1) // *p: a copy of the content p points to
		}
	}
	if strings.HasSuffix(desc(v), ".EnvelopeContent") {
		return true
	}
	// stored into the outcome's EnvelopeContent field by this very function
	if v.Referrers() != nil {
		for _, r := range *v.Referrers() {
			st, ok := r.(*ssa.Store)
			if !ok || st.Val != v {
				continue
			}
			if fa, ok := st.Addr.(*ssa.FieldAddr); ok && namedOf(fa.X.Type()) == "ngo.VerificationOutcome" && fieldName(fa.X.Type(), fa.Field) == "EnvelopeContent" {
				return true
			}
		}
	}
	switch x := v.(type) {
	case *ssa.Phi:
		for _, e := range x.Edges {
			if e != v && !c03EnvelopeContent(w, e, depth+1) {
				return false
			}
		}
		return len(x.Edges) > 0
	case *ssa.Parameter:
		sites, closed := c03CallSites(w, x.Parent())
		idx := c03ParamIndex(x)
		if !closed || len(sites) == 0 || idx < 0 {
			return false
		}
		for _, s := range sites {
			if !c03EnvelopeContent(w, s.Common().Args[idx], depth+1) {
				return false
			}
		}
		return true
	}
	return false
}

// ---------- fourth pass: the loader's inputs as values (parameter, or field of a parameter object) --------------------------
//
// Class "parameter object / function -> method": what used to be the loader's parameters (wanted type, trust-store list, store
// implementation) may travel in a struct — the receiver or an options argument, by value or by pointer. The obligations on the
// loader are stated on *inputs*: an input of a function is a parameter of it, or a field of a parameter object that holds, when
// it is read, what the caller put there. At a call site the input's argument is the corresponding call argument, or the value the
// caller stored into that field of the object it hands over (c03InputArg). Everything that was decided on "parameter i of G /
// argument i of the call" is decided on (input of G / argument of the input) instead; the obligations themselves are unchanged.

type c03Input struct {
	param *ssa.Parameter
	field int // -1: the parameter itself; otherwise the field of the parameter object
}

func (in c03Input) valid() bool { return in.param != nil }

func (in c03Input) of(fn *ssa.Function) bool { return in.param != nil && in.param.Parent() == fn }

// c03SpilledParam: a is the memory cell of a by-value parameter (go/ssa keeps a struct parameter whose fields are selected in a
// cell): it is stored exactly once, in the entry block, with the parameter, no field or element of it is ever written, and its
// address does not leave loads (singleStore). Reading the cell, or a field of it, anywhere in the function yields the parameter
// (its field) as the caller passed it.
func c03SpilledParam(a *ssa.Alloc) *ssa.Parameter {
	p, ok := singleStore(a).(*ssa.Parameter)
	if !ok || p.Parent() != a.Parent() || a.Referrers() == nil {
		return nil
	}
	for _, r := range *a.Referrers() {
		if st, isSt := r.(*ssa.Store); isSt && st.Addr == ssa.Value(a) && (len(a.Parent().Blocks) == 0 || st.Block() != a.Parent().Blocks[0]) {
			return nil // a copy taken later: a read before the copy would see the zero value
		}
	}
	return p
}

// c03ObjType: the unexported module struct type t (or *t) names; nil otherwise. Only module code can build or fill such an object.
func c03ObjType(w *World, t types.Type) *types.Named {
	if p, ok := t.Underlying().(*types.Pointer); ok {
		t = p.Elem()
	}
	n, ok := types.Unalias(t).(*types.Named)
	if !ok || n.Obj().Pkg() == nil || !w.IsProductPkg(n.Obj().Pkg().Path()) || token.IsExported(n.Obj().Name()) {
		return nil
	}
	if _, isStruct := n.Underlying().(*types.Struct); !isStruct {
		return nil
	}
	return n
}

// c03FieldSetOnlyOnFresh: in the whole module, field `field` of the unexported struct type of t is only ever written on an object
// the writing function has just created itself (the base of the field address is a local allocation), and the field's address
// never leaves a load or a store. No function then changes the field of an object it was handed by pointer: while a callee runs,
// the field holds what the creator stored before the call.
func c03FieldSetOnlyOnFresh(w *World, t types.Type, field int) bool {
	n := c03ObjType(w, t)
	if n == nil {
		return false
	}
	tn := namedOf(n)
	for _, fn := range w.Funcs {
		for _, b := range fn.Blocks {
			for _, in := range b.Instrs {
				fa, ok := in.(*ssa.FieldAddr)
				if !ok || fa.Field != field || namedOf(fa.X.Type()) != tn || fa.Referrers() == nil {
					continue
				}
				for _, r := range *fa.Referrers() {
					switch y := r.(type) {
					case *ssa.UnOp, *ssa.DebugRef:
					case *ssa.Store:
						if y.Addr != ssa.Value(fa) {
							return false
						}
						if _, fresh := fa.X.(*ssa.Alloc); !fresh {
							return false
						}
					default:
						return false
					}
				}
			}
		}
	}
	return true
}

// c03InputOf: v, read somewhere in its function, is an input of that function: a parameter; a field of a by-value parameter
// object (the parameter itself, or its never-written memory cell); or a field of a parameter object received by pointer, when
// nobody writes that field through a pointer (c03FieldSetOnlyOnFresh). Value-preserving conversions are looked through.
func c03InputOf(w *World, v ssa.Value) (c03Input, bool) {
	switch x := v.(type) {
	case *ssa.ChangeType:
		return c03InputOf(w, x.X)
	case *ssa.Convert:
		// string <-> named string type only
		if bs, ok := x.X.Type().Underlying().(*types.Basic); ok && bs.Info()&types.IsString != 0 {
			if bd, ok := x.Type().Underlying().(*types.Basic); ok && bd.Info()&types.IsString != 0 {
				return c03InputOf(w, x.X)
			}
		}
	case *ssa.Parameter:
		return c03Input{x, -1}, true
	case *ssa.Field:
		if p, ok := x.X.(*ssa.Parameter); ok {
			return c03Input{p, x.Field}, true
		}
		if ld, ok := x.X.(*ssa.UnOp); ok && ld.Op == token.MUL {
			if a, ok := ld.X.(*ssa.Alloc); ok {
				if p := c03SpilledParam(a); p != nil {
					return c03Input{p, x.Field}, true
				}
			}
		}
	case *ssa.UnOp:
		if x.Op != token.MUL {
			break
		}
		switch a := x.X.(type) {
		case *ssa.Alloc:
			if p := c03SpilledParam(a); p != nil {
				return c03Input{p, -1}, true
			}
		case *ssa.FieldAddr:
			switch b := a.X.(type) {
			case *ssa.Alloc:
				if p := c03SpilledParam(b); p != nil {
					return c03Input{p, a.Field}, true
				}
			case *ssa.Parameter:
				if c03FieldSetOnlyOnFresh(w, b.Type(), a.Field) {
					return c03Input{b, a.Field}, true
				}
			}
		}
	}
	return c03Input{}, false
}

// c03ElemOfInput: v is an element of a list input of fn (`list[i]`, the element variable of a range over the list).
func c03ElemOfInput(w *World, fn *ssa.Function, v ssa.Value) (c03Input, string, bool) {
	var list ssa.Value
	switch x := v.(type) {
	case *ssa.UnOp:
		if ia, ok := x.X.(*ssa.IndexAddr); ok && x.Op == token.MUL {
			list = ia.X
		}
	case *ssa.Index:
		list = x.X
	}
	if list == nil {
		return c03Input{}, "", false
	}
	if _, isSlice := list.Type().Underlying().(*types.Slice); !isSlice {
		return c03Input{}, "", false
	}
	in, ok := c03InputOf(w, list)
	if !ok || !in.of(fn) {
		return c03Input{}, "", false
	}
	return in, desc(list), true
}

func c03Precedes(a, b ssa.Instruction) bool {
	if a.Block() != b.Block() {
		return a.Block().Dominates(b.Block())
	}
	for _, in := range a.Block().Instrs {
		if in == a {
			return true
		}
		if in == b {
			return false
		}
	}
	return false
}

// c03ObjectField: the value field `field` of the parameter object obj holds when it is handed over at `at`. The object is a local
// of the calling function, built there: every use of it is a field store / field load, a load of the whole object (handing it over
// by value) or — only if nobody writes the field through a pointer — a call it is handed to by pointer; the field is stored
// exactly once and that store comes before the hand-over on every path (it dominates it). Or the object is the value of an
// *object constructor*: a module function every exit of which returns one such fresh object, the field stored from a parameter of
// the constructor (then: the argument of the constructor call) or a constant.
func c03ObjectField(w *World, obj ssa.Value, field int, at ssa.Instruction, depth int) (ssa.Value, bool) {
	if depth > 2 {
		return nil, false
	}
	var al *ssa.Alloc
	byPtr := false
	switch x := obj.(type) {
	case *ssa.UnOp:
		if x.Op == token.MUL {
			al, _ = x.X.(*ssa.Alloc)
			at = x // the copy that is handed over is taken here
		}
	case *ssa.Alloc:
		al, byPtr = x, true
	case *ssa.Call:
		return c03CtorObjectField(w, x, field, depth)
	}
	if al == nil || al.Parent() != at.Parent() || al.Referrers() == nil || c03ObjType(w, al.Type().Underlying().(*types.Pointer).Elem()) == nil {
		return nil, false
	}
	var st *ssa.Store
	for _, r := range *al.Referrers() {
		switch y := r.(type) {
		case *ssa.DebugRef:
		case *ssa.UnOp:
		case *ssa.FieldAddr:
			if y.Referrers() == nil {
				continue
			}
			for _, rr := range *y.Referrers() {
				switch z := rr.(type) {
				case *ssa.UnOp, *ssa.DebugRef:
				case *ssa.Store:
					if z.Addr != ssa.Value(y) {
						return nil, false
					}
					if y.Field == field {
						if st != nil {
							return nil, false
						}
						st = z
					}
				default:
					return nil, false
				}
			}
		case ssa.CallInstruction:
			if !byPtr || !c03FieldSetOnlyOnFresh(w, al.Type(), field) {
				return nil, false
			}
		default:
			return nil, false
		}
	}
	if st == nil || !c03Precedes(st, at) {
		return nil, false
	}
	return st.Val, true
}

// c03CtorObjectField: call is a call of an object constructor (see c03ObjectField); the field's value seen from the caller.
func c03CtorObjectField(w *World, call *ssa.Call, field int, depth int) (ssa.Value, bool) {
	H := staticCallee(call)
	if H == nil || H.Blocks == nil || !w.IsProductFn(H) || len(call.Call.Args) != len(H.Params) || H.Signature.Results().Len() != 1 {
		return nil, false
	}
	var out ssa.Value
	n := 0
	for _, b := range H.Blocks {
		r, ok := blockTerm(b).(*ssa.Return)
		if !ok {
			continue
		}
		if len(r.Results) != 1 {
			return nil, false
		}
		fv, ok := c03ObjectField(w, r.Results[0], field, r, depth+1)
		if !ok {
			return nil, false
		}
		if p, isP := fv.(*ssa.Parameter); isP {
			i := c03ParamIndex(p)
			if p.Parent() != H || i < 0 {
				return nil, false
			}
			fv = call.Call.Args[i]
		} else if _, isK := fv.(*ssa.Const); !isK {
			return nil, false
		}
		if n > 0 && fv != out {
			if ka, okA := fv.(*ssa.Const); !okA {
				return nil, false
			} else if kb, okB := out.(*ssa.Const); !okB || constString(ka) != constString(kb) {
				return nil, false
			}
		}
		out = fv
		n++
	}
	return out, n > 0
}

// c03InputArg: what the call of the input's function passes for the input: the argument, or the value the field of the handed-over
// parameter object holds (c03ObjectField).
func c03InputArg(w *World, call *ssa.Call, in c03Input) (ssa.Value, bool) {
	idx := c03ParamIndex(in.param)
	if idx < 0 || in.param.Parent() == nil || len(call.Call.Args) != len(in.param.Parent().Params) || staticCallee(call) != in.param.Parent() {
		return nil, false
	}
	a := call.Call.Args[idx]
	if in.field < 0 {
		return a, true
	}
	return c03ObjectField(w, a, in.field, call, 0)
}

// c03AfterColon: v is "the part of s after the first ':'": the second result of strings.Cut(s, ":"), or s[i+1:] with
// i = strings.Index(s, ":") / IndexByte(s, ':') / IndexRune(s, ':') of the same s. Returns s.
func c03AfterColon(v ssa.Value) ssa.Value {
	isColon := func(k ssa.Value) bool {
		c, ok := k.(*ssa.Const)
		if !ok || c.Value == nil {
			return false
		}
		s := constString(c)
		return s == `":"` || s == "58"
	}
	switch x := v.(type) {
	case *ssa.Extract:
		call, ok := x.Tuple.(*ssa.Call)
		if ok && x.Index == 1 && calleeName(call) == "strings.Cut" && len(call.Call.Args) == 2 && isColon(call.Call.Args[1]) {
			return call.Call.Args[0]
		}
	case *ssa.Slice:
		bo, ok := x.Low.(*ssa.BinOp)
		if !ok || x.High != nil || x.Max != nil || bo.Op != token.ADD {
			return nil
		}
		if k, isK := bo.Y.(*ssa.Const); !isK || constString(k) != "1" {
			return nil
		}
		call, ok := bo.X.(*ssa.Call)
		if !ok || len(call.Call.Args) != 2 || !isColon(call.Call.Args[1]) {
			return nil
		}
		switch calleeName(call) {
		case "strings.Index", "strings.IndexByte", "strings.IndexRune":
			if call.Call.Args[0] == x.X || desc(call.Call.Args[0]) == desc(x.X) {
				return x.X
			}
		}
	}
	return nil
}

var c03ReName = regexp.MustCompile(`^call:strings\.Cut\((param:[A-Za-z0-9_]+)(\[.*\])?,const:":"\)#1$`)

// c03NameSubject: the store name handed to GetCertificates is the part after the first ':' of a listed entry; the entry is an
// element of a list input of G (list, listD: its printed form) or — per-entry loader — a parameter of G (entry). Decided on the
// SSA value; the printed form (which the engine also produces when the cut is made by a transparent helper) must agree, and is
// the fallback: the parameter it mentions is looked up in G.
func c03NameSubject(w *World, G *ssa.Function, name ssa.Value, nameD string) (list c03Input, listD string, entry *ssa.Parameter, ok bool) {
	if s := c03AfterColon(name); s != nil && nameD == "call:strings.Cut("+desc(s)+`,const:":")#1` {
		if p, isP := s.(*ssa.Parameter); isP && p.Parent() == G {
			return c03Input{}, "", p, true
		}
		if in, d, isEl := c03ElemOfInput(w, G, s); isEl {
			return in, d, nil, true
		}
	}
	m := c03ReName.FindStringSubmatch(nameD)
	if m == nil {
		return c03Input{}, "", nil, false
	}
	for _, p := range G.Params {
		if "param:"+p.Name() == m[1] {
			if m[2] != "" {
				return c03Input{p, -1}, m[1], nil, true
			}
			return c03Input{}, "", p, true
		}
	}
	return c03Input{}, "", nil, false
}

// ---------- fifth pass: the parts of a listed entry as values, whoever cut it ---------------------------------------------------
//
// Class "extract-helper at a different boundary / several results bundled into a struct / result built by a constructor": the
// split of a listed entry `<type>:<name>` and the separator test may live in a parse helper that hands back the two parts — as
// several results, as a struct (by value or by pointer), next to an error or an ok flag, with guard clauses or a single exit. The
// loader obligations are stated on *parts*: a value is part k of the entry s (k = 0: what precedes the first ':', 1: what follows
// it) when it is that result of strings.Cut(s, ":") (or the equivalent Index + slice), or when it is a component (result i, field
// f) of the value of a call of a module helper H and on every success-capable exit of H that component is part k of one and the
// same parameter of H, for which the call passes s. Such a part is only meaningful when the helper succeeded: the helper's verdict
// (err == nil / ok) is a *gate* that must guard every use, and what every success-capable exit of the helper must have passed (in
// particular: separator found) holds behind the gate — composed into the caller's frame like the engine does for `err == nil`.
// Since strings.Cut is a function of its argument, "part 0 of s" and "part 1 of s" belong to the same split whoever computed them.

type c03Part struct {
	s     ssa.Value         // the string that was cut, a value of the function the part is used in
	k     int               // 0: before the first ':', 1: after it
	gates []string          // labels (that function's frame) that must guard a use: the helper calls that delivered the part succeeded
	facts map[string]string // what holds whenever the gates are passed (composed from the helpers' success-capable exits)
}

func c03StripConv(v ssa.Value) ssa.Value {
	for {
		switch x := v.(type) {
		case *ssa.ChangeType:
			v = x.X
			continue
		case *ssa.Convert:
			if bs, ok := x.X.Type().Underlying().(*types.Basic); ok && bs.Info()&types.IsString != 0 {
				if bd, ok := x.Type().Underlying().(*types.Basic); ok && bd.Info()&types.IsString != 0 {
					v = x.X
					continue
				}
			}
		}
		return v
	}
}

func c03IsColonConst(k ssa.Value) bool {
	c, ok := k.(*ssa.Const)
	if !ok || c.Value == nil {
		return false
	}
	s := constString(c)
	return s == `":"` || s == "58"
}

// c03BeforeColon: v is "the part of s before the first ':'": the first result of strings.Cut(s, ":"), or s[:i] with
// i = strings.Index(s, ":") / IndexByte / IndexRune of the same s. Returns s.
func c03BeforeColon(v ssa.Value) ssa.Value {
	switch x := v.(type) {
	case *ssa.Extract:
		call, ok := x.Tuple.(*ssa.Call)
		if ok && x.Index == 0 && calleeName(call) == "strings.Cut" && len(call.Call.Args) == 2 && c03IsColonConst(call.Call.Args[1]) {
			return call.Call.Args[0]
		}
	case *ssa.Slice:
		if x.Low != nil || x.Max != nil || x.High == nil {
			return nil
		}
		call, ok := x.High.(*ssa.Call)
		if !ok || len(call.Call.Args) != 2 || !c03IsColonConst(call.Call.Args[1]) {
			return nil
		}
		switch calleeName(call) {
		case "strings.Index", "strings.IndexByte", "strings.IndexRune":
			if call.Call.Args[0] == x.X || desc(call.Call.Args[0]) == desc(x.X) {
				return x.X
			}
		}
	}
	return nil
}

// c03ResultComponent: v is component (result i, field f; f < 0: the result itself) of the value of the call hc — read directly,
// through the local the result was assigned to (stored once, before the read, no field of it written), or through the pointer
// the call returned (byPtr).
func c03ResultComponent(v ssa.Value) (hc *ssa.Call, i, f int, byPtr, ok bool) {
	whole := func(x ssa.Value) (*ssa.Call, int, bool) {
		switch y := x.(type) {
		case *ssa.Call:
			if _, isTuple := y.Type().(*types.Tuple); !isTuple {
				return y, 0, true
			}
		case *ssa.Extract:
			if call, isCall := y.Tuple.(*ssa.Call); isCall {
				return call, y.Index, true
			}
		}
		return nil, 0, false
	}
	// the local a result was assigned to
	cell := func(a *ssa.Alloc, at ssa.Instruction) (*ssa.Call, int, bool) {
		sv := singleStore(a)
		if sv == nil || a.Referrers() == nil {
			return nil, 0, false
		}
		for _, r := range *a.Referrers() {
			if st, isSt := r.(*ssa.Store); isSt && st.Addr == ssa.Value(a) && !c03Precedes(st, at) {
				return nil, 0, false
			}
		}
		return whole(sv)
	}
	if c, k, isW := whole(v); isW {
		return c, k, -1, false, true
	}
	switch x := v.(type) {
	case *ssa.Field:
		if c, k, isW := whole(x.X); isW {
			return c, k, x.Field, false, true
		}
		if ld, isLd := x.X.(*ssa.UnOp); isLd && ld.Op == token.MUL {
			if a, isA := ld.X.(*ssa.Alloc); isA {
				if c, k, isC := cell(a, ld); isC {
					return c, k, x.Field, false, true
				}
			}
		}
	case *ssa.UnOp:
		if x.Op != token.MUL {
			break
		}
		switch a := x.X.(type) {
		case *ssa.Alloc:
			if c, k, isC := cell(a, x); isC {
				return c, k, -1, false, true
			}
		case *ssa.FieldAddr:
			if al, isA := a.X.(*ssa.Alloc); isA {
				if c, k, isC := cell(al, x); isC {
					return c, k, a.Field, false, true
				}
			}
			if c, k, isW := whole(a.X); isW {
				return c, k, a.Field, true, true
			}
		}
	}
	return nil, 0, 0, false, false
}

// c03ReturnedField: the value field f of the object rv holds when `ret` returns it (entered through the edge from `pred` when the
// exit is split edge by edge, pred == nil otherwise). rv is a load of a local object of an unexported module struct type (returned
// by value) or the address of such an object created in this function (returned by pointer): every use of the object's address
// is a field store / field load, a load of the whole object, or a return; the field is stored exactly once and that store comes
// before the return on every path that takes this exit (it dominates the return, or the block the edge comes from).
func c03ReturnedField(w *World, rv ssa.Value, f int, ret *ssa.Return, pred *ssa.BasicBlock) (ssa.Value, bool) {
	var al *ssa.Alloc
	var at ssa.Instruction = ret
	if ld, ok := rv.(*ssa.UnOp); ok && ld.Op == token.MUL {
		al, _ = ld.X.(*ssa.Alloc)
		at = ld // the copy that is returned is taken here
	} else {
		al, _ = rv.(*ssa.Alloc)
	}
	if al == nil || al.Parent() != ret.Parent() || al.Referrers() == nil || c03ObjType(w, al.Type().Underlying().(*types.Pointer).Elem()) == nil {
		return nil, false
	}
	var st *ssa.Store
	for _, r := range *al.Referrers() {
		switch y := r.(type) {
		case *ssa.DebugRef, *ssa.UnOp, *ssa.Return:
		case *ssa.FieldAddr:
			if y.Referrers() == nil {
				continue
			}
			for _, rr := range *y.Referrers() {
				switch z := rr.(type) {
				case *ssa.UnOp, *ssa.DebugRef:
				case *ssa.Store:
					if z.Addr != ssa.Value(y) {
						return nil, false
					}
					if y.Field == f {
						if st != nil {
							return nil, false
						}
						st = z
					}
				default:
					return nil, false
				}
			}
		default:
			return nil, false
		}
	}
	if st == nil {
		return nil, false
	}
	if c03Precedes(st, at) {
		return st.Val, true
	}
	if pred != nil && at.Block() == ret.Block() && (st.Block() == pred || st.Block().Dominates(pred)) {
		return st.Val, true
	}
	return nil, false
}

// c03HelperExit is one success-capable way out of a helper: the values it returns and the facts that hold on every path to it
// (helper's frame). A return whose operands are phis of its own block is split edge by edge (single exit with locals).
type c03HelperExit struct {
	ret   *ssa.Return
	pred  *ssa.BasicBlock // the edge this exit is entered through when the return is split edge by edge, nil otherwise
	vals  []ssa.Value
	facts map[string]string
}

// c03HelperExits: the success-capable exits of the module helper called by hc, and the label that, in the caller's frame, says
// that the helper succeeded (the gate): `err == nil` when the helper's last result is an error, the flag itself when it is a
// bool; "" when the helper has no verdict (every exit then counts).
func c03HelperExits(w *World, hc *ssa.Call) (H *ssa.Function, gate string, exits []c03HelperExit, ok bool) {
	H = staticCallee(hc)
	if H == nil || H.Blocks == nil || !w.IsProductFn(H) || len(hc.Call.Args) != len(H.Params) {
		return nil, "", nil, false
	}
	rs := H.Signature.Results()
	n := rs.Len()
	if n == 0 {
		return nil, "", nil, false
	}
	verdict := 0 // 1: error, 2: bool
	if n > 1 {
		if isErrorType(rs.At(n - 1).Type()) {
			verdict = 1
			gate = "EQ(" + res(hc, n-1) + ",nil)"
		} else if isBoolType(rs.At(n - 1).Type()) {
			verdict = 2
			gate = "T(" + res(hc, n-1) + ")"
		}
	}
	hfi := w.Info(H)
	for _, b := range H.Blocks {
		r, isR := blockTerm(b).(*ssa.Return)
		if !isR || len(r.Results) != n {
			continue
		}
		split := false
		for _, rv := range r.Results {
			if p, isPhi := rv.(*ssa.Phi); isPhi && p.Block() == b {
				split = true
			}
		}
		preds := []int{-1}
		if split {
			preds = preds[:0]
			for i := range b.Preds {
				preds = append(preds, i)
			}
		}
		for _, pi := range preds {
			ex := c03HelperExit{ret: r, facts: map[string]string{}}
			for _, rv := range r.Results {
				if p, isPhi := rv.(*ssa.Phi); isPhi && p.Block() == b && pi >= 0 {
					rv = p.Edges[pi]
				}
				ex.vals = append(ex.vals, rv)
			}
			switch verdict {
			case 1:
				if cl, _, _, _ := hfi.classify(r, state{b.Index, 0, pi}, Mode{Kind: mErr}); cl == clFail {
					continue
				}
			case 2:
				if k, isK := ex.vals[n-1].(*ssa.Const); isK && constString(k) == "false" {
					continue
				}
			}
			if pi >= 0 {
				ex.pred = b.Preds[pi]
				ex.facts = c03EdgeFacts(hfi, b, pi)
			} else if b.Index != 0 {
				if l, reach := hfi.mustPassBetween([]int{0}, map[int]bool{b.Index: true}); reach {
					ex.facts = c03CopyLabels(l)
				} else {
					continue // unreachable exit
				}
			}
			exits = append(exits, ex)
		}
	}
	return H, gate, exits, len(exits) > 0
}

// c03PartOf: v is part k of the entry s (see the class comment above). Soundness of the helper case: the part is read from the
// value the call returned; on every exit of the helper that can deliver a success verdict the component is part k of the helper's
// parameter p (decided recursively, the helper's own gates being facts of that exit), so whenever the caller has passed the gate
// the component is part k of the argument passed for p, and the facts common to those exits hold. Exits that cannot deliver a
// success verdict do not matter because the gate must guard the use.
func c03PartOf(w *World, v ssa.Value, depth int) (c03Part, bool) {
	if depth > 2 {
		return c03Part{}, false
	}
	v = c03StripConv(v)
	if s := c03AfterColon(v); s != nil {
		return c03Part{s: s, k: 1}, true
	}
	if s := c03BeforeColon(v); s != nil {
		return c03Part{s: s, k: 0}, true
	}
	hc, i, f, byPtr, ok := c03ResultComponent(v)
	if !ok {
		return c03Part{}, false
	}
	H, gate, exits, ok := c03HelperExits(w, hc)
	if !ok {
		return c03Part{}, false
	}
	if byPtr && (f < 0 || !c03FieldSetOnlyOnFresh(w, H.Signature.Results().At(i).Type(), f)) {
		return c03Part{}, false // somebody may write the field through the pointer after the helper returned
	}
	names := make([]string, len(H.Params))
	descs := make([]string, len(H.Params))
	for j, p := range H.Params {
		names[j] = p.Name()
		descs[j] = desc(hc.Call.Args[j])
	}
	out := c03Part{k: -1}
	pidx := -1
	var common map[string]string
	for _, ex := range exits {
		if i >= len(ex.vals) {
			return c03Part{}, false
		}
		rv := ex.vals[i]
		if f >= 0 {
			fv, okF := c03ReturnedField(w, rv, f, ex.ret, ex.pred)
			if !okF {
				return c03Part{}, false
			}
			rv = fv
		}
		pt, okP := c03PartOf(w, rv, depth+1)
		if !okP {
			return c03Part{}, false
		}
		p, isP := c03StripConv(pt.s).(*ssa.Parameter)
		if !isP || p.Parent() != H || c03ParamIndex(p) < 0 {
			return c03Part{}, false
		}
		for _, g := range pt.gates {
			if !labelHas(ex.facts, g) {
				return c03Part{}, false // the inner helper's verdict is not tested on the way to this exit
			}
		}
		if (pidx >= 0 && pidx != c03ParamIndex(p)) || (out.k >= 0 && out.k != pt.k) {
			return c03Part{}, false // exits disagree on what they deliver
		}
		pidx, out.k = c03ParamIndex(p), pt.k
		facts := map[string]string{}
		for l, site := range c03CopyLabels(ex.facts, pt.facts) {
			facts[substParams(l, names, descs)] = site
		}
		if common == nil {
			common = facts
		} else {
			for l := range common {
				if _, both := facts[l]; !both {
					delete(common, l)
				}
			}
		}
	}
	if pidx < 0 || out.k < 0 {
		return c03Part{}, false
	}
	out.s = hc.Call.Args[pidx]
	if gate != "" {
		out.gates = []string{gate}
	}
	out.facts = common
	return out, true
}

// c03SameEntry: two parts were cut from the same listed entry.
func c03SameEntry(a, b ssa.Value) bool {
	a, b = c03StripConv(a), c03StripConv(b)
	return a == b || desc(a) == desc(b)
}

// c03TypeFilterOnValues: the load L is reached only when the loader's wanted-type input equals part 0 of the entry the name was
// cut from, decided on values and paths: once the edges on which a comparison `input == part0(entry)` (either order, == or !=,
// the part delivered under gates that guard L) turns out equal are removed, L must be unreachable — every path to L passes such an
// edge. This is the must-pass rule of loader/type-filter without its dependence on how the comparison is printed (prefix held in
// a struct field or a local).
func c03TypeFilterOnValues(w *World, fi *FnInfo, L *ssa.Call, typeIn c03Input, entry ssa.Value, guards map[string]string) bool {
	isPair := func(a, b ssa.Value) bool {
		in, ok := c03InputOf(w, a)
		if !ok || in != typeIn {
			return false
		}
		pt, ok := c03PartOf(w, b, 0)
		if !ok || pt.k != 0 || !c03SameEntry(pt.s, entry) {
			return false
		}
		for _, g := range pt.gates {
			if !labelHas(guards, g) {
				return false
			}
		}
		return true
	}
	cut := fi.edgesMatching(func(_ string, iff *ssa.If, truth bool) bool {
		cond := iff.Cond
		neg := false
		for {
			u, ok := cond.(*ssa.UnOp)
			if !ok || u.Op != token.NOT {
				break
			}
			neg, cond = !neg, u.X
		}
		bo, ok := cond.(*ssa.BinOp)
		if !ok || (bo.Op != token.EQL && bo.Op != token.NEQ) {
			return false
		}
		equal := (bo.Op == token.EQL) == truth
		if neg {
			equal = !equal
		}
		return equal && (isPair(bo.X, bo.Y) || isPair(bo.Y, bo.X))
	})
	return len(cut) > 0 && !fi.reachHit(entryState(), cut, map[int]bool{L.Block().Index: true})
}
