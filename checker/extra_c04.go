package main

// Helpers of rule set C04 that decide its obligations across static module calls:
//   - frames: a function reached from the identity verifier through a chain of static calls, with the
//     substitution that renders a label of that function in the verifier's own frame;
//   - element flow: which values can ever be an element of the identity list handed to the subset test
//     (through phis, append, helper results, parameters and a list variable filled in through a pointer);
//   - interprocedural cut: an edge counts as a gate also when it is the success edge of a module call that
//     cannot succeed without passing a gate itself.

import (
	"fmt"
	"go/constant"
	"go/token"
	"go/types"
	"regexp"
	"strings"

	"golang.org/x/tools/go/ssa"
)

// ---- frames --------------------------------------------------------------------

// c04Frame is a function in the call tree of the identity verifier, together with the call that enters it.
// The verdict of the verifier depends on a helper only through the calls on such a chain, so everything is
// decided per chain (other callers of a helper take no part in the verifier's answer).
type c04Frame struct {
	fn     *ssa.Function
	call   *ssa.Call // the call in parent.fn that enters fn (nil: the root)
	parent *c04Frame
	depth  int
}

const c04MaxDepth = 5

// child: the frame of the static module callee of call (nil: external, dynamic, closure, recursive or too deep).
func (f *c04Frame) child(w *World, call *ssa.Call) *c04Frame {
	g := staticCallee(call)
	if g == nil || g.Blocks == nil || !w.IsProductFn(g) || g.Parent() != nil || f.depth >= c04MaxDepth {
		return nil
	}
	if len(call.Call.Args) != len(g.Params) {
		return nil
	}
	for p := f; p != nil; p = p.parent {
		if p.fn == g {
			return nil
		}
	}
	return &c04Frame{fn: g, call: call, parent: f, depth: f.depth + 1}
}

// up renders a label / value description of f.fn in the frame of the root: the parameters of every function on
// the chain are replaced by the arguments of the call that entered it (as summarizeCall does for one level).
func (f *c04Frame) up(d string) string {
	for g := f; g.parent != nil; g = g.parent {
		args := g.call.Call.Args
		names := make([]string, len(args))
		descs := make([]string, len(args))
		for i, p := range g.fn.Params {
			names[i] = p.Name()
			descs[i] = desc(args[i])
		}
		d = substParams(d, names, descs)
	}
	return d
}

// upValue: the value a parameter of f.fn stands for in the parent frame.
func (f *c04Frame) upValue(p *ssa.Parameter) (*c04Frame, ssa.Value, bool) {
	if f.parent == nil {
		return nil, nil, false
	}
	for i, q := range f.fn.Params {
		if q == p {
			return f.parent, f.call.Call.Args[i], true
		}
	}
	return nil, nil, false
}

// guardsUp: the facts (in the root frame) every path passes from the entry of the root to the instruction:
// the guards of the instruction in its function and of every call on the chain in its caller.
func (f *c04Frame) guardsUp(w *World, in ssa.Instruction) map[string]bool {
	out := map[string]bool{}
	for g := f; g != nil; g = g.parent {
		for l := range w.Info(g.fn).GuardsOf(in) {
			out[g.up(l)] = true
		}
		if g.call == nil {
			break
		}
		in = g.call
	}
	return out
}

// c04Frames: the call tree below root (static module calls), not entering the functions of stop.
func c04Frames(w *World, root *ssa.Function, stop map[*ssa.Function]bool) []*c04Frame {
	var out []*c04Frame
	var rec func(f *c04Frame)
	rec = func(f *c04Frame) {
		out = append(out, f)
		if len(out) > 300 || stop[f.fn] {
			return
		}
		for _, ci := range allCalls(f.fn) {
			if call, ok := ci.(*ssa.Call); ok {
				if ch := f.child(w, call); ch != nil {
					rec(ch)
				}
			}
		}
	}
	rec(&c04Frame{fn: root})
	return out
}

// ---- element flow --------------------------------------------------------------

type c04Val struct {
	f *c04Frame
	v ssa.Value
}

type c04FlowKey struct {
	call *ssa.Call
	v    ssa.Value
	kind int
}

// c04Flow collects, for a map value used as the subset argument, every value that can be that map: when the
// argument is an element of a list, every value ever put into the list (flow-insensitive, hence a superset of
// what the list holds at the time of the test). Anything the walk cannot follow is recorded in unknown, and
// the rule that uses the flow fails on it.
type c04Flow struct {
	w       *World
	seen    map[c04FlowKey]bool
	origins []c04Val
	unknown []string
}

func (fl *c04Flow) visit(f *c04Frame, v ssa.Value, kind int) bool {
	k := c04FlowKey{f.call, v, kind}
	if fl.seen[k] {
		return false
	}
	fl.seen[k] = true
	return true
}

func (fl *c04Flow) unk(f *c04Frame, v ssa.Value, why string) {
	site := "-"
	if in, ok := v.(ssa.Instruction); ok {
		site = fl.w.InstrPos(in)
	}
	fl.unknown = append(fl.unknown, fmt.Sprintf("%s (%s at %s)", why, trunc(desc(v), 80), site))
}

// elem: v is the map itself.
func (fl *c04Flow) elem(f *c04Frame, v ssa.Value) {
	if !fl.visit(f, v, 0) {
		return
	}
	switch x := v.(type) {
	case *ssa.UnOp:
		if x.Op == token.MUL {
			if ia, ok := x.X.(*ssa.IndexAddr); ok {
				if _, isSlice := ia.X.Type().Underlying().(*types.Slice); isSlice {
					fl.list(f, ia.X)
					return
				}
			}
		}
	case *ssa.Phi:
		for _, e := range x.Edges {
			fl.elem(f, e)
		}
		return
	case *ssa.ChangeType:
		fl.elem(f, x.X)
		return
	case *ssa.Parameter:
		if pf, pv, ok := f.upValue(x); ok {
			fl.elem(pf, pv)
		} else {
			fl.unk(f, v, "a parameter of the entry function")
		}
		return
	}
	fl.origins = append(fl.origins, c04Val{f, v})
}

// list: v is a slice; its elements are collected.
func (fl *c04Flow) list(f *c04Frame, v ssa.Value) {
	if !fl.visit(f, v, 1) {
		return
	}
	// an element written in place is not followed
	if refs := v.Referrers(); refs != nil {
		for _, r := range *refs {
			if ia, ok := r.(*ssa.IndexAddr); ok && addrWritten(ia, 0) {
				fl.unk(f, ia, "an element of the list is written in place")
			}
		}
	}
	switch x := v.(type) {
	case *ssa.Const:
		if !x.IsNil() {
			fl.unk(f, v, "constant list")
		}
	case *ssa.MakeSlice:
		// make(T, 0, n) holds nothing; make(T, n) holds n nil maps, and a nil identity is contained in every subject
		if k, ok := x.Len.(*ssa.Const); !ok || k.Value == nil || k.Value.Kind() != constant.Int || constant.Sign(k.Value) != 0 {
			fl.unk(f, v, "list made with a length other than constant 0 (it holds nil maps)")
		}
	case *ssa.Phi:
		for _, e := range x.Edges {
			fl.list(f, e)
		}
	case *ssa.ChangeType:
		fl.list(f, x.X)
	case *ssa.Convert:
		fl.list(f, x.X)
	case *ssa.Slice:
		if _, isSlice := x.X.Type().Underlying().(*types.Slice); isSlice {
			fl.list(f, x.X) // a sub-slice holds a subset of the elements
		} else {
			fl.unk(f, v, "slice of an array")
		}
	case *ssa.Call:
		if bi, ok := x.Call.Value.(*ssa.Builtin); ok {
			if bi.Name() != "append" || len(x.Call.Args) == 0 {
				fl.unk(f, v, "builtin other than append")
				return
			}
			fl.list(f, x.Call.Args[0])
			if len(x.Call.Args) > 1 {
				if els, ok := c04VarargElems(x.Call.Args[1]); ok {
					for _, e := range els {
						fl.elem(f, e)
					}
				} else {
					fl.list(f, x.Call.Args[1])
				}
			}
			return
		}
		fl.result(f, x, 0, v)
	case *ssa.Extract:
		if call, ok := x.Tuple.(*ssa.Call); ok {
			fl.result(f, call, x.Index, v)
		} else {
			fl.unk(f, v, "not followed")
		}
	case *ssa.Parameter:
		if pf, pv, ok := f.upValue(x); ok {
			fl.list(pf, pv)
		} else {
			fl.unk(f, v, "a parameter of the entry function")
		}
	case *ssa.UnOp:
		if x.Op == token.MUL {
			fl.cell(f, x.X)
		} else {
			fl.unk(f, v, "not followed")
		}
	default:
		fl.unk(f, v, "not followed")
	}
}

// result: the k-th result of a static module call — what the callee returns there.
func (fl *c04Flow) result(f *c04Frame, call *ssa.Call, k int, v ssa.Value) {
	ch := f.child(fl.w, call)
	if ch == nil {
		fl.unk(f, v, "result of a call that is not a static module call")
		return
	}
	for _, b := range ch.fn.Blocks {
		if r, ok := blockTerm(b).(*ssa.Return); ok && k < len(r.Results) {
			fl.list(ch, r.Results[k])
		}
	}
}

// cell: addr is the address of a list variable; the lists stored into it are collected (in this function and in
// every module callee the address is handed to, e.g. a pointer receiver that appends).
func (fl *c04Flow) cell(f *c04Frame, addr ssa.Value) {
	switch x := addr.(type) {
	case *ssa.Alloc:
		fl.cellUses(f, x)
	case *ssa.Parameter:
		if pf, pv, ok := f.upValue(x); ok {
			fl.cell(pf, pv)
		} else {
			fl.unk(f, addr, "a pointer parameter of the entry function")
		}
	default:
		fl.unk(f, addr, "list held in memory that is not a local variable")
	}
}

func (fl *c04Flow) cellUses(f *c04Frame, addr ssa.Value) {
	if !fl.visit(f, addr, 2) {
		return
	}
	refs := addr.Referrers()
	if refs == nil {
		return
	}
	for _, r := range *refs {
		switch x := r.(type) {
		case *ssa.Store:
			if x.Addr == addr && x.Val != addr {
				fl.list(f, x.Val)
			} else {
				fl.unk(f, addr, "the address of the list variable is stored")
			}
		case *ssa.UnOp, *ssa.DebugRef:
			// a read
		case *ssa.Call:
			ch := f.child(fl.w, x)
			if ch == nil {
				fl.unk(f, x, "the address of the list variable is handed to a call that is not a static module call")
				continue
			}
			for i, a := range x.Call.Args {
				if a == addr {
					fl.cellUses(ch, ch.fn.Params[i])
				}
			}
		default:
			if onlyFormatted(r, 0) {
				continue // rendered into a log line / message: a read
			}
			fl.unk(f, addr, fmt.Sprintf("the address of the list variable is used by %T", r))
		}
	}
}

// c04VarargElems: the values of the argument list `append(s, a, b)` builds (false: `append(s, t...)`).
func c04VarargElems(v ssa.Value) ([]ssa.Value, bool) {
	sl, ok := v.(*ssa.Slice)
	if !ok || sl.Low != nil || sl.High != nil {
		return nil, false
	}
	al, ok := sl.X.(*ssa.Alloc)
	if !ok || al.Comment != "varargs" {
		return nil, false
	}
	var out []ssa.Value
	for _, r := range *al.Referrers() {
		ia, ok := r.(*ssa.IndexAddr)
		if !ok {
			continue
		}
		for _, rr := range *ia.Referrers() {
			if st, ok := rr.(*ssa.Store); ok && st.Addr == ia {
				out = append(out, st.Val)
			}
		}
	}
	return out, true
}

// ---- interprocedural cut -------------------------------------------------------

// c04CondCall: cond evaluating to truth means "this call succeeded" (nil error / the boolean answer truth).
func c04CondCall(cond ssa.Value, truth bool) (*ssa.Call, Mode, bool) {
	switch x := cond.(type) {
	case *ssa.UnOp:
		if x.Op == token.NOT {
			return c04CondCall(x.X, !truth)
		}
	case *ssa.BinOp:
		var o ssa.Value
		if isNilConst(x.Y) {
			o = x.X
		} else if isNilConst(x.X) {
			o = x.Y
		} else {
			return nil, Mode{}, false
		}
		if !((x.Op == token.EQL && truth) || (x.Op == token.NEQ && !truth)) || !isErrorType(o.Type()) {
			return nil, Mode{}, false
		}
		if c := callOf(o); c != nil {
			return c, Mode{Kind: mErr}, true
		}
	case *ssa.Call:
		if b, ok := x.Type().Underlying().(*types.Basic); ok && b.Kind() == types.Bool {
			return x, Mode{Kind: mBool, Want: truth}, true
		}
	}
	return nil, Mode{}, false
}

// c04Selected: the fact of a label is one of the selected facts (both spellings of a symmetric fact; a
// disjunction when each of its alternatives is selected).
func c04Selected(l string, sel func(string) bool) bool {
	if sel(l) {
		return true
	}
	if tw, ok := labelTwin(l); ok && sel(tw) {
		return true
	}
	if strings.HasPrefix(l, "OR(") {
		_, alts := splitTopArgs(l)
		if len(alts) == 0 {
			return false
		}
		for _, a := range alts {
			if !c04Selected(a, sel) {
				return false
			}
		}
		return true
	}
	return false
}

// c04Cut: the If edges of f.fn that can only be passed when a selected fact (a label in the root frame) holds:
// the edge carries the fact itself, or it is the success edge of a static module call that has no success exit
// once the edges selected in the callee (by the same rule, with the callee's parameters replaced by the
// arguments) are removed. A check moved into a helper therefore gates the caller exactly as the inline check did.
func c04Cut(w *World, f *c04Frame, sel func(string) bool) map[edgeKey]bool {
	out := map[edgeKey]bool{}
	for _, b := range f.fn.Blocks {
		iff, ok := blockTerm(b).(*ssa.If)
		if !ok || len(b.Succs) != 2 {
			continue
		}
		for j := 0; j < 2; j++ {
			truth := j == 0
			if c04Selected(f.up(condLabel(iff.Cond, truth)), sel) {
				out[edgeKey{b.Index, j}] = true
				continue
			}
			if c04TupleBoolSelected(w, f, iff.Cond, truth, sel) {
				out[edgeKey{b.Index, j}] = true
				continue
			}
			call, mode, ok := c04CondCall(iff.Cond, truth)
			if !ok {
				continue
			}
			ch := f.child(w, call)
			if ch == nil {
				continue
			}
			if w.Info(ch.fn).successWitness(mode, entryState(), c04Cut(w, ch, sel)) == nil {
				out[edgeKey{b.Index, j}] = true
			}
		}
	}
	return out
}

// ---- the textual roles of an identity string -----------------------------------

// c04Roles: the label forms (root frame) that state the facts of one identity X = identities[i]:
//
//	separator present:  found of strings.Cut(X, ":")  |  strings.Contains(X, ":")
//	kind is x509:       Cut(X, ":")#0 == K            |  found of strings.CutPrefix(X, K+":")  |  strings.HasPrefix(X, K+":")
//	value:              Cut(X, ":")#1                 |  CutPrefix(X, K+":")#0                 |  strings.TrimPrefix(X, K+":")
//
// with K the constant internal/trustpolicy.X509Subject. The second and third columns are the first one said
// differently only because K contains no ':' — then "the part before the first ':' is K" is "X starts with K:",
// and what follows that prefix is what follows the first ':' (CutPrefix#0 / TrimPrefix are the value only under
// the x509 fact, which is why every use of the value is required to stand under it). If K contained a ':' only the
// strings.Cut column is accepted.
type c04Roles struct {
	sep, other, is, nonEmpty, parsed, value *regexp.Regexp
}

func newC04Roles(identsParam, kind, parserName string) *c04Roles {
	X := `param:` + regexp.QuoteMeta(identsParam) + `\[[^\]\[(),]+\]`
	q := func(s string) string { return regexp.QuoteMeta(fmt.Sprintf("const:%q", s)) }
	colon, K, KP := q(":"), q(kind), q(kind+":")
	cut := `call:strings\.Cut\(` + X + `,` + colon + `\)`
	sep := []string{cut + `#2`, `call:strings\.Contains\(` + X + `,` + colon + `\)`}
	is := []string{`EQ\(` + cut + `#0,` + K + `\)`}
	other := []string{`NE\(` + cut + `#0,` + K + `\)`}
	value := []string{cut + `#1`}
	if !strings.Contains(kind, ":") {
		cp := `call:strings\.CutPrefix\(` + X + `,` + KP + `\)`
		hp := `call:strings\.HasPrefix\(` + X + `,` + KP + `\)`
		is = append(is, `T\(`+cp+`#1\)`, `T\(`+hp+`\)`)
		other = append(other, `F\(`+cp+`#1\)`, `F\(`+hp+`\)`)
		value = append(value, cp+`#0`, `call:strings\.TrimPrefix\(`+X+`,`+KP+`\)`)
	}
	alt := func(xs []string) string { return `(?:` + strings.Join(xs, `|`) + `)` }
	V := alt(value)
	return &c04Roles{
		sep:      regexp.MustCompile(`^T\(` + alt(sep) + `\)$`),
		is:       regexp.MustCompile(`^` + alt(is) + `$`),
		other:    regexp.MustCompile(`^` + alt(other) + `$`),
		nonEmpty: regexp.MustCompile(`^(?:NE\(` + V + `,const:""\)|NE\(len\(` + V + `\),const:0\))$`),
		parsed:   regexp.MustCompile(`^EQ\(call:` + regexp.QuoteMeta(parserName) + `\(` + V + `\)#err,nil\)$`),
		value:    regexp.MustCompile(`^` + V + `$`),
	}
}

// identityOf: the identity X a value / fact is about (the `param:ids[...]` inside the rendering).
func (r *c04Roles) identityOf(identsParam, d string) string {
	m := regexp.MustCompile(`param:` + regexp.QuoteMeta(identsParam) + `\[[^\]\[(),]+\]`).FindString(d)
	return m
}

// ---- CFG helpers ---------------------------------------------------------------

// c04EdgeFacts: the facts of the If edges that dominate the CFG edge pred -> blk (the edge itself when pred
// branches, and every single-predecessor step of the dominator chain of pred). Dominance — not "some edge every
// path passes" — because the facts are used for values of the current loop iteration.
func c04EdgeFacts(pred, blk *ssa.BasicBlock) map[string]bool {
	out := map[string]bool{}
	add := func(p, d *ssa.BasicBlock) {
		iff, ok := blockTerm(p).(*ssa.If)
		if !ok || len(p.Succs) != 2 || p.Succs[0] == p.Succs[1] {
			return
		}
		for j, s := range p.Succs {
			if s == d {
				l := condLabel(iff.Cond, j == 0)
				out[l] = true
				if tw, ok := labelTwin(l); ok {
					out[tw] = true
				}
			}
		}
	}
	add(pred, blk)
	for d, n := pred, 0; d != nil && n < 64; d, n = d.Idom(), n+1 {
		if len(d.Preds) == 1 {
			add(d.Preds[0], d)
		}
	}
	return out
}

// c04LitAlloc: v is a local array/slice literal (`[]T{...}`, `[...]T{...}`) — the Alloc that holds its elements.
func c04LitAlloc(v ssa.Value) *ssa.Alloc {
	switch x := v.(type) {
	case *ssa.Slice:
		if al, ok := x.X.(*ssa.Alloc); ok && x.Low == nil && x.High == nil && al.Comment == "slicelit" {
			return al
		}
	case *ssa.UnOp:
		if al, ok := x.X.(*ssa.Alloc); ok && x.Op == token.MUL && al.Comment == "complit" {
			return al
		}
	case *ssa.Alloc:
		if x.Comment == "complit" {
			return x
		}
	}
	return nil
}

// c04LitConstOnly: the literal's array is written only by the constant-index element stores of the literal
// (one store per element) and otherwise only read.
func c04LitConstOnly(al *ssa.Alloc) bool {
	for _, r := range *al.Referrers() {
		switch x := r.(type) {
		case *ssa.IndexAddr:
			if _, isK := x.Index.(*ssa.Const); isK {
				n := 0
				for _, rr := range *x.Referrers() {
					if _, ok := rr.(*ssa.Store); ok {
						n++
					}
				}
				if n > 1 {
					return false
				}
			} else if addrWritten(x, 0) {
				return false
			}
		case *ssa.UnOp, *ssa.Slice, *ssa.DebugRef:
		default:
			return false
		}
	}
	return true
}

// c04LeavesEarly: a witness path from the body of the loop to a success exit of the function that does not take
// the loop's own exit edge (header, no further element) — i.e. the loop is left by a break / goto while elements
// remain. nil: success is reached only after the loop ran out of elements.
func c04LeavesEarly(fi *FnInfo, l *sliceLoop) []string {
	cut := map[edgeKey]bool{}
	for j, s := range l.Header.Succs {
		if s == l.Exit && s != l.Body {
			cut[edgeKey{l.Header.Index, j}] = true
		}
	}
	return fi.successWitness(Mode{Kind: mErr}, []state{{l.Body.Index, 0, -1}}, cut)
}

// c04HasLabel: a whole label with that beginning and that end.
func c04HasLabel(labels map[string]string, prefix, suffix string) bool {
	for l := range labels {
		if strings.HasPrefix(l, prefix) && strings.HasSuffix(l, suffix) && len(l) >= len(prefix)+len(suffix) {
			return true
		}
	}
	return false
}

// c04TupleBoolSelected: cond is the boolean component k of the result tuple of a static module call
// (`kind, value, ok := split(x)`; `if !ok`). The edge on which it evaluates to truth is passed only if the callee
// returned truth there; when at every return that can do so the returned component is a value whose being truth
// is a selected fact (rendered with the callee's parameters replaced by the arguments), passing the edge implies
// a selected fact — the helper only hands the answer of the test through.
func c04TupleBoolSelected(w *World, f *c04Frame, cond ssa.Value, truth bool, sel func(string) bool) bool {
	for {
		u, ok := cond.(*ssa.UnOp)
		if !ok || u.Op != token.NOT {
			break
		}
		cond, truth = u.X, !truth
	}
	ex, ok := cond.(*ssa.Extract)
	if !ok {
		return false
	}
	call, ok := ex.Tuple.(*ssa.Call)
	if !ok {
		return false
	}
	if b, isB := ex.Type().Underlying().(*types.Basic); !isB || b.Kind() != types.Bool {
		return false
	}
	ch := f.child(w, call)
	if ch == nil {
		return false
	}
	n := 0
	for _, b := range ch.fn.Blocks {
		r, ok := blockTerm(b).(*ssa.Return)
		if !ok || ex.Index >= len(r.Results) {
			continue
		}
		l := condLabel(r.Results[ex.Index], truth)
		if l == "FALSE" {
			continue // this return delivers the other answer
		}
		if !c04Selected(ch.up(l), sel) {
			return false
		}
		n++
	}
	return n > 0
}
