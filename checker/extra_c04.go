package main

// Helpers of rule set C04 that decide its obligations across static module calls:
//   - frames: a function reached from the identity verifier through a chain of static calls, with the
//     substitution that renders a label of that function in the verifier's own frame;
//   - element flow: which values can ever be an element of the identity list handed to the subset test
//     (through phis, append, helper results, parameters and a list variable filled in through a pointer);
//   - interprocedural cut: an edge counts as a gate also when it is the success edge of a module call that
//     cannot succeed without passing a gate itself;
//   - (third pass) constant lists by origin (local literal, package-level variable never written, argument, result of
//     a function), the mandatory attribute types as a must-pass fact of the success exits (c04MandCovered), and the
//     DN parser decided over its call tree (frames linked by "a failure below fails the parse", c04LinkFrames).

import (
	"fmt"
	"go/constant"
	"go/token"
	"go/types"
	"regexp"
	"strings"

	"golang.org/x/tools/go/ssa"
)

// ---- frames --------------------------------------------------------------------

// c04Frame is a function in the call tree of the identity verifier, together with the call that enters it.
// The verdict of the verifier depends on a helper only through the calls on such a chain, so everything is
// decided per chain (other callers of a helper take no part in the verifier's answer).
type c04Frame struct {
	fn     *ssa.Function
	call   *ssa.Call // the call in parent.fn that enters fn (nil: the root)
	parent *c04Frame
	depth  int
}

const c04MaxDepth = 5

// child: the frame of the static module callee of call (nil: external, dynamic, closure, recursive or too deep).
func (f *c04Frame) child(w *World, call *ssa.Call) *c04Frame {
	g := staticCallee(call)
	if g == nil || g.Blocks == nil || !w.IsProductFn(g) || g.Parent() != nil || f.depth >= c04MaxDepth {
		return nil
	}
	if len(call.Call.Args) != len(g.Params) {
		return nil
	}
	for p := f; p != nil; p = p.parent {
		if p.fn == g {
			return nil
		}
	}
	return &c04Frame{fn: g, call: call, parent: f, depth: f.depth + 1}
}

// up renders a label / value description of f.fn in the frame of the root: the parameters of every function on
// the chain are replaced by the arguments of the call that entered it (as summarizeCall does for one level).
func (f *c04Frame) up(d string) string {
	for g := f; g.parent != nil; g = g.parent {
		args := g.call.Call.Args
		names := make([]string, len(args))
		descs := make([]string, len(args))
		for i, p := range g.fn.Params {
			names[i] = p.Name()
			descs[i] = desc(args[i])
		}
		d = substParams(d, names, descs)
	}
	return d
}

// upValue: the value a parameter of f.fn stands for in the parent frame.
func (f *c04Frame) upValue(p *ssa.Parameter) (*c04Frame, ssa.Value, bool) {
	if f.parent == nil {
		return nil, nil, false
	}
	for i, q := range f.fn.Params {
		if q == p {
			return f.parent, f.call.Call.Args[i], true
		}
	}
	return nil, nil, false
}

// guardsUp: the facts (in the root frame) every path passes from the entry of the root to the instruction:
// the guards of the instruction in its function and of every call on the chain in its caller.
func (f *c04Frame) guardsUp(w *World, in ssa.Instruction) map[string]bool {
	out := map[string]bool{}
	for g := f; g != nil; g = g.parent {
		for l := range w.Info(g.fn).GuardsOf(in) {
			out[g.up(l)] = true
		}
		if g.call == nil {
			break
		}
		in = g.call
	}
	return out
}

// c04Frames: the call tree below root (static module calls), not entering the functions of stop.
func c04Frames(w *World, root *ssa.Function, stop map[*ssa.Function]bool) []*c04Frame {
	var out []*c04Frame
	var rec func(f *c04Frame)
	rec = func(f *c04Frame) {
		out = append(out, f)
		if len(out) > 300 || stop[f.fn] {
			return
		}
		for _, ci := range allCalls(f.fn) {
			if call, ok := ci.(*ssa.Call); ok {
				if ch := f.child(w, call); ch != nil {
					rec(ch)
				}
			}
		}
	}
	rec(&c04Frame{fn: root})
	return out
}

// ---- element flow --------------------------------------------------------------

type c04Val struct {
	f *c04Frame
	v ssa.Value
}

type c04FlowKey struct {
	call *ssa.Call
	v    ssa.Value
	kind int
}

// c04Flow collects, for a map value used as the subset argument, every value that can be that map: when the
// argument is an element of a list, every value ever put into the list (flow-insensitive, hence a superset of
// what the list holds at the time of the test). Anything the walk cannot follow is recorded in unknown, and
// the rule that uses the flow fails on it.
type c04Flow struct {
	w       *World
	seen    map[c04FlowKey]bool
	origins []c04Val
	unknown []string
}

func (fl *c04Flow) visit(f *c04Frame, v ssa.Value, kind int) bool {
	k := c04FlowKey{f.call, v, kind}
	if fl.seen[k] {
		return false
	}
	fl.seen[k] = true
	return true
}

func (fl *c04Flow) unk(f *c04Frame, v ssa.Value, why string) {
	site := "-"
	if in, ok := v.(ssa.Instruction); ok {
		site = fl.w.InstrPos(in)
	}
	fl.unknown = append(fl.unknown, fmt.Sprintf("%s (%s at %s)", why, trunc(desc(v), 80), site))
}

// elem: v is the map itself.
func (fl *c04Flow) elem(f *c04Frame, v ssa.Value) {
	if !fl.visit(f, v, 0) {
		return
	}
	switch x := v.(type) {
	case *ssa.UnOp:
		if x.Op == token.MUL {
			if ia, ok := x.X.(*ssa.IndexAddr); ok {
				if _, isSlice := ia.X.Type().Underlying().(*types.Slice); isSlice {
					fl.list(f, ia.X)
					return
				}
			}
		}
	case *ssa.Phi:
		for _, e := range x.Edges {
			fl.elem(f, e)
		}
		return
	case *ssa.ChangeType:
		fl.elem(f, x.X)
		return
	case *ssa.Parameter:
		if pf, pv, ok := f.upValue(x); ok {
			fl.elem(pf, pv)
		} else {
			fl.unk(f, v, "a parameter of the entry function")
		}
		return
	}
	fl.origins = append(fl.origins, c04Val{f, v})
}

// list: v is a slice; its elements are collected.
func (fl *c04Flow) list(f *c04Frame, v ssa.Value) {
	if !fl.visit(f, v, 1) {
		return
	}
	// an element written in place is not followed
	if refs := v.Referrers(); refs != nil {
		for _, r := range *refs {
			if ia, ok := r.(*ssa.IndexAddr); ok && addrWritten(ia, 0) {
				fl.unk(f, ia, "an element of the list is written in place")
			}
		}
	}
	switch x := v.(type) {
	case *ssa.Const:
		if !x.IsNil() {
			fl.unk(f, v, "constant list")
		}
	case *ssa.MakeSlice:
		// make(T, 0, n) holds nothing; make(T, n) holds n nil maps, and a nil identity is contained in every subject
		if k, ok := x.Len.(*ssa.Const); !ok || k.Value == nil || k.Value.Kind() != constant.Int || constant.Sign(k.Value) != 0 {
			fl.unk(f, v, "list made with a length other than constant 0 (it holds nil maps)")
		}
	case *ssa.Phi:
		for _, e := range x.Edges {
			fl.list(f, e)
		}
	case *ssa.ChangeType:
		fl.list(f, x.X)
	case *ssa.Convert:
		fl.list(f, x.X)
	case *ssa.Slice:
		if _, isSlice := x.X.Type().Underlying().(*types.Slice); isSlice {
			fl.list(f, x.X) // a sub-slice holds a subset of the elements
		} else {
			fl.unk(f, v, "slice of an array")
		}
	case *ssa.Call:
		if bi, ok := x.Call.Value.(*ssa.Builtin); ok {
			if bi.Name() != "append" || len(x.Call.Args) == 0 {
				fl.unk(f, v, "builtin other than append")
				return
			}
			fl.list(f, x.Call.Args[0])
			if len(x.Call.Args) > 1 {
				if els, ok := c04VarargElems(x.Call.Args[1]); ok {
					for _, e := range els {
						fl.elem(f, e)
					}
				} else {
					fl.list(f, x.Call.Args[1])
				}
			}
			return
		}
		fl.result(f, x, 0, v)
	case *ssa.Extract:
		if call, ok := x.Tuple.(*ssa.Call); ok {
			fl.result(f, call, x.Index, v)
		} else {
			fl.unk(f, v, "not followed")
		}
	case *ssa.Parameter:
		if pf, pv, ok := f.upValue(x); ok {
			fl.list(pf, pv)
		} else {
			fl.unk(f, v, "a parameter of the entry function")
		}
	case *ssa.UnOp:
		if x.Op == token.MUL {
			fl.cell(f, x.X)
		} else {
			fl.unk(f, v, "not followed")
		}
	default:
		fl.unk(f, v, "not followed")
	}
}

// result: the k-th result of a static module call — what the callee returns there.
func (fl *c04Flow) result(f *c04Frame, call *ssa.Call, k int, v ssa.Value) {
	ch := f.child(fl.w, call)
	if ch == nil {
		fl.unk(f, v, "result of a call that is not a static module call")
		return
	}
	for _, b := range ch.fn.Blocks {
		if r, ok := blockTerm(b).(*ssa.Return); ok && k < len(r.Results) {
			fl.list(ch, r.Results[k])
		}
	}
}

// cell: addr is the address of a list variable; the lists stored into it are collected (in this function and in
// every module callee the address is handed to, e.g. a pointer receiver that appends).
func (fl *c04Flow) cell(f *c04Frame, addr ssa.Value) {
	switch x := addr.(type) {
	case *ssa.Alloc:
		fl.cellUses(f, x)
	case *ssa.Parameter:
		if pf, pv, ok := f.upValue(x); ok {
			fl.cell(pf, pv)
		} else {
			fl.unk(f, addr, "a pointer parameter of the entry function")
		}
	default:
		fl.unk(f, addr, "list held in memory that is not a local variable")
	}
}

func (fl *c04Flow) cellUses(f *c04Frame, addr ssa.Value) {
	if !fl.visit(f, addr, 2) {
		return
	}
	refs := addr.Referrers()
	if refs == nil {
		return
	}
	for _, r := range *refs {
		switch x := r.(type) {
		case *ssa.Store:
			if x.Addr == addr && x.Val != addr {
				fl.list(f, x.Val)
			} else {
				fl.unk(f, addr, "the address of the list variable is stored")
			}
		case *ssa.UnOp, *ssa.DebugRef:
			// a read
		case *ssa.Call:
			ch := f.child(fl.w, x)
			if ch == nil {
				fl.unk(f, x, "the address of the list variable is handed to a call that is not a static module call")
				continue
			}
			for i, a := range x.Call.Args {
				if a == addr {
					fl.cellUses(ch, ch.fn.Params[i])
				}
			}
		default:
			if onlyFormatted(r, 0) {
				continue // rendered into a log line / message: a read
			}
			fl.unk(f, addr, fmt.Sprintf("the address of the list variable is used by %T", r))
		}
	}
}

// c04VarargElems: the values of the argument list `append(s, a, b)` builds (false: `append(s, t...)`).
func c04VarargElems(v ssa.Value) ([]ssa.Value, bool) {
	sl, ok := v.(*ssa.Slice)
	if !ok || sl.Low != nil || sl.High != nil {
		return nil, false
	}
	al, ok := sl.X.(*ssa.Alloc)
	if !ok || al.Comment != "varargs" {
		return nil, false
	}
	var out []ssa.Value
	for _, r := range *al.Referrers() {
		ia, ok := r.(*ssa.IndexAddr)
		if !ok {
			continue
		}
		for _, rr := range *ia.Referrers() {
			if st, ok := rr.(*ssa.Store); ok && st.Addr == ia {
				out = append(out, st.Val)
			}
		}
	}
	return out, true
}

// ---- interprocedural cut -------------------------------------------------------

// c04CondCall: cond evaluating to truth means "this call succeeded" (nil error / the boolean answer truth).
func c04CondCall(cond ssa.Value, truth bool) (*ssa.Call, Mode, bool) {
	switch x := cond.(type) {
	case *ssa.UnOp:
		if x.Op == token.NOT {
			return c04CondCall(x.X, !truth)
		}
	case *ssa.BinOp:
		var o ssa.Value
		if isNilConst(x.Y) {
			o = x.X
		} else if isNilConst(x.X) {
			o = x.Y
		} else {
			return nil, Mode{}, false
		}
		if !((x.Op == token.EQL && truth) || (x.Op == token.NEQ && !truth)) || !isErrorType(o.Type()) {
			return nil, Mode{}, false
		}
		if c := callOf(o); c != nil {
			return c, Mode{Kind: mErr}, true
		}
	case *ssa.Call:
		if b, ok := x.Type().Underlying().(*types.Basic); ok && b.Kind() == types.Bool {
			return x, Mode{Kind: mBool, Want: truth}, true
		}
	}
	return nil, Mode{}, false
}

// c04Selected: the fact of a label is one of the selected facts (both spellings of a symmetric fact; a
// disjunction when each of its alternatives is selected).
func c04Selected(l string, sel func(string) bool) bool {
	if sel(l) {
		return true
	}
	if tw, ok := labelTwin(l); ok && sel(tw) {
		return true
	}
	if strings.HasPrefix(l, "OR(") {
		_, alts := splitTopArgs(l)
		if len(alts) == 0 {
			return false
		}
		for _, a := range alts {
			if !c04Selected(a, sel) {
				return false
			}
		}
		return true
	}
	return false
}

// c04Cut: the If edges of f.fn that can only be passed when a selected fact (a label in the root frame) holds:
// the edge carries the fact itself, or it is the success edge of a static module call that has no success exit
// once the edges selected in the callee (by the same rule, with the callee's parameters replaced by the
// arguments) are removed. A check moved into a helper therefore gates the caller exactly as the inline check did.
func c04Cut(w *World, f *c04Frame, sel func(string) bool) map[edgeKey]bool {
	out := map[edgeKey]bool{}
	for _, b := range f.fn.Blocks {
		iff, ok := blockTerm(b).(*ssa.If)
		if !ok || len(b.Succs) != 2 {
			continue
		}
		for j := 0; j < 2; j++ {
			truth := j == 0
			if c04Selected(f.up(condLabel(iff.Cond, truth)), sel) {
				out[edgeKey{b.Index, j}] = true
				continue
			}
			if c04TupleBoolSelected(w, f, iff.Cond, truth, sel) {
				out[edgeKey{b.Index, j}] = true
				continue
			}
			call, mode, ok := c04CondCall(iff.Cond, truth)
			if !ok {
				continue
			}
			ch := f.child(w, call)
			if ch == nil {
				continue
			}
			if w.Info(ch.fn).successWitness(mode, entryState(), c04Cut(w, ch, sel)) == nil {
				out[edgeKey{b.Index, j}] = true
			}
		}
	}
	return out
}

// ---- the textual roles of an identity string -----------------------------------

// c04Roles: the label forms (root frame) that state the facts of one identity X = identities[i]:
//
//	separator present:  found of strings.Cut(X, ":")  |  strings.Contains(X, ":")
//	kind is x509:       Cut(X, ":")#0 == K            |  found of strings.CutPrefix(X, K+":")  |  strings.HasPrefix(X, K+":")
//	value:              Cut(X, ":")#1                 |  CutPrefix(X, K+":")#0                 |  strings.TrimPrefix(X, K+":")
//
// with K the constant internal/trustpolicy.X509Subject. The second and third columns are the first one said
// differently only because K contains no ':' — then "the part before the first ':' is K" is "X starts with K:",
// and what follows that prefix is what follows the first ':' (CutPrefix#0 / TrimPrefix are the value only under
// the x509 fact, which is why every use of the value is required to stand under it). If K contained a ':' only the
// strings.Cut column is accepted.
type c04Roles struct {
	sep, other, is, nonEmpty, parsed, value *regexp.Regexp
}

func newC04Roles(identsParam, kind, parserName string) *c04Roles {
	X := `param:` + regexp.QuoteMeta(identsParam) + `\[[^\]\[(),]+\]`
	q := func(s string) string { return regexp.QuoteMeta(fmt.Sprintf("const:%q", s)) }
	colon, K, KP := q(":"), q(kind), q(kind+":")
	cut := `call:strings\.Cut\(` + X + `,` + colon + `\)`
	sep := []string{cut + `#2`, `call:strings\.Contains\(` + X + `,` + colon + `\)`}
	is := []string{`EQ\(` + cut + `#0,` + K + `\)`}
	other := []string{`NE\(` + cut + `#0,` + K + `\)`}
	value := []string{cut + `#1`}
	if !strings.Contains(kind, ":") {
		cp := `call:strings\.CutPrefix\(` + X + `,` + KP + `\)`
		hp := `call:strings\.HasPrefix\(` + X + `,` + KP + `\)`
		is = append(is, `T\(`+cp+`#1\)`, `T\(`+hp+`\)`)
		other = append(other, `F\(`+cp+`#1\)`, `F\(`+hp+`\)`)
		value = append(value, cp+`#0`, `call:strings\.TrimPrefix\(`+X+`,`+KP+`\)`)
	}
	alt := func(xs []string) string { return `(?:` + strings.Join(xs, `|`) + `)` }
	V := alt(value)
	return &c04Roles{
		sep:      regexp.MustCompile(`^T\(` + alt(sep) + `\)$`),
		is:       regexp.MustCompile(`^` + alt(is) + `$`),
		other:    regexp.MustCompile(`^` + alt(other) + `$`),
		nonEmpty: regexp.MustCompile(`^(?:NE\(` + V + `,const:""\)|NE\(len\(` + V + `\),const:0\))$`),
		parsed:   regexp.MustCompile(`^EQ\(call:` + regexp.QuoteMeta(parserName) + `\(` + V + `\)#err,nil\)$`),
		value:    regexp.MustCompile(`^` + V + `$`),
	}
}

// identityOf: the identity X a value / fact is about (the `param:ids[...]` inside the rendering).
func (r *c04Roles) identityOf(identsParam, d string) string {
	m := regexp.MustCompile(`param:` + regexp.QuoteMeta(identsParam) + `\[[^\]\[(),]+\]`).FindString(d)
	return m
}

// ---- CFG helpers ---------------------------------------------------------------

// c04EdgeFacts: the facts of the If edges that dominate the CFG edge pred -> blk (the edge itself when pred
// branches, and every single-predecessor step of the dominator chain of pred). Dominance — not "some edge every
// path passes" — because the facts are used for values of the current loop iteration.
func c04EdgeFacts(pred, blk *ssa.BasicBlock) map[string]bool {
	out := map[string]bool{}
	add := func(p, d *ssa.BasicBlock) {
		iff, ok := blockTerm(p).(*ssa.If)
		if !ok || len(p.Succs) != 2 || p.Succs[0] == p.Succs[1] {
			return
		}
		for j, s := range p.Succs {
			if s == d {
				l := condLabel(iff.Cond, j == 0)
				out[l] = true
				if tw, ok := labelTwin(l); ok {
					out[tw] = true
				}
			}
		}
	}
	add(pred, blk)
	for d, n := pred, 0; d != nil && n < 64; d, n = d.Idom(), n+1 {
		if len(d.Preds) == 1 {
			add(d.Preds[0], d)
		}
	}
	return out
}

// c04LitAlloc: v is a local array/slice literal (`[]T{...}`, `[...]T{...}`) — the Alloc that holds its elements.
func c04LitAlloc(v ssa.Value) *ssa.Alloc {
	switch x := v.(type) {
	case *ssa.Slice:
		if al, ok := x.X.(*ssa.Alloc); ok && x.Low == nil && x.High == nil && (al.Comment == "slicelit" || al.Comment == "varargs") {
			return al
		}
	case *ssa.UnOp:
		if al, ok := x.X.(*ssa.Alloc); ok && x.Op == token.MUL && al.Comment == "complit" {
			return al
		}
	case *ssa.Alloc:
		if x.Comment == "complit" {
			return x
		}
	}
	return nil
}

// c04LitConstOnly: the literal's array is written only by the constant-index element stores of the literal
// (one store per element) and otherwise only read.
func c04LitConstOnly(al *ssa.Alloc) bool {
	for _, r := range *al.Referrers() {
		switch x := r.(type) {
		case *ssa.IndexAddr:
			if _, isK := x.Index.(*ssa.Const); isK {
				n := 0
				for _, rr := range *x.Referrers() {
					if _, ok := rr.(*ssa.Store); ok {
						n++
					}
				}
				if n > 1 {
					return false
				}
			} else if addrWritten(x, 0) {
				return false
			}
		case *ssa.UnOp, *ssa.Slice, *ssa.DebugRef:
		default:
			return false
		}
	}
	return true
}

// c04HasLabel: a whole label with that beginning and that end.
func c04HasLabel(labels map[string]string, prefix, suffix string) bool {
	for l := range labels {
		if strings.HasPrefix(l, prefix) && strings.HasSuffix(l, suffix) && len(l) >= len(prefix)+len(suffix) {
			return true
		}
	}
	return false
}

// c04TupleBoolSelected: cond is the boolean component k of the result tuple of a static module call
// (`kind, value, ok := split(x)`; `if !ok`). The edge on which it evaluates to truth is passed only if the callee
// returned truth there; when at every return that can do so the returned component is a value whose being truth
// is a selected fact (rendered with the callee's parameters replaced by the arguments), passing the edge implies
// a selected fact — the helper only hands the answer of the test through.
func c04TupleBoolSelected(w *World, f *c04Frame, cond ssa.Value, truth bool, sel func(string) bool) bool {
	for {
		u, ok := cond.(*ssa.UnOp)
		if !ok || u.Op != token.NOT {
			break
		}
		cond, truth = u.X, !truth
	}
	ex, ok := cond.(*ssa.Extract)
	if !ok {
		return false
	}
	call, ok := ex.Tuple.(*ssa.Call)
	if !ok {
		return false
	}
	if b, isB := ex.Type().Underlying().(*types.Basic); !isB || b.Kind() != types.Bool {
		return false
	}
	ch := f.child(w, call)
	if ch == nil {
		return false
	}
	n := 0
	for _, b := range ch.fn.Blocks {
		r, ok := blockTerm(b).(*ssa.Return)
		if !ok || ex.Index >= len(r.Results) {
			continue
		}
		l := condLabel(r.Results[ex.Index], truth)
		if l == "FALSE" {
			continue // this return delivers the other answer
		}
		if !c04Selected(ch.up(l), sel) {
			return false
		}
		n++
	}
	return n > 0
}

// ---- constant lists ------------------------------------------------------------

// c04SameValue: a is the value v (possibly behind a representation-preserving conversion).
func c04SameValue(a, v ssa.Value) bool {
	for i := 0; i < 4; i++ {
		if a == v {
			return true
		}
		ct, ok := a.(*ssa.ChangeType)
		if !ok {
			return false
		}
		a = ct.X
	}
	return false
}

// c04Returned marks a slice value made fresh by every call of its function (a literal): returning it shares it with
// that caller only, whose uses of the call result are checked in turn.
type c04Returned struct{ ssa.Value }

// c04SliceReadOnly: the slice value is only read where it is used in this function: indexed without a store through
// the element address, measured, rendered into a message, or handed to a module function / slices.Contains /
// slices.Index that only reads its parameter in turn. (A slice shares its backing array, so a write through any
// use would change the list for everybody.)
func c04SliceReadOnly(w *World, v ssa.Value, depth int) bool {
	if depth > 4 {
		return false
	}
	retOK := false
	if r, ok := v.(c04Returned); ok {
		v, retOK = r.Value, true
	}
	refs := v.Referrers()
	if refs == nil {
		return true
	}
	for _, r := range *refs {
		switch x := r.(type) {
		case *ssa.Return:
			if !retOK {
				return false
			}
		case *ssa.IndexAddr:
			if addrWritten(x, 0) {
				return false
			}
		case *ssa.Index, *ssa.DebugRef:
		case *ssa.Call:
			if bi, ok := x.Call.Value.(*ssa.Builtin); ok {
				if bi.Name() == "len" || bi.Name() == "cap" {
					continue
				}
				return false
			}
			g := staticCallee(x)
			if g == nil {
				return false
			}
			if n := calleeName(x); n == "slices.Contains" || n == "slices.Index" {
				continue
			}
			if g.Blocks == nil || !w.IsProductFn(g) || len(g.Params) != len(x.Call.Args) {
				return false
			}
			for i, a := range x.Call.Args {
				if a == v && !c04SliceReadOnly(w, g.Params[i], depth+1) {
					return false
				}
			}
		default:
			if !onlyFormatted(r, 0) {
				return false
			}
		}
	}
	return true
}

// c04GlobalInit: the package-level variable g is given its value exactly once in the module, by its package
// initialiser (one store of a literal, or the element stores go/ssa emits when it builds an array literal in
// place), and is everywhere else in the module only read: loaded as a whole (an array load is a copy; a slice load
// must be read-only in the sense of c04SliceReadOnly), or indexed without a store through the element address. Its
// address is never handed out. Only variables that nothing outside the module can reach (unexported, or of an
// internal package) qualify. Returned: the element values of the literal, in order.
func c04GlobalInit(w *World, g *ssa.Global) ([]ssa.Value, string) {
	if g.Pkg == nil || !w.IsProductPkg(g.Pkg.Pkg.Path()) {
		return nil, "not a variable of the module"
	}
	if token.IsExported(g.Name()) && !strings.Contains(g.Pkg.Pkg.Path()+"/", "/internal/") {
		return nil, "exported variable of a public package (can be assigned from outside the module)"
	}
	gt := g.Type().(*types.Pointer).Elem().Underlying()
	_, isSlice := gt.(*types.Slice)
	var whole ssa.Value
	inPlace := map[int64]ssa.Value{}
	for _, fn := range w.Funcs {
		isInit := fn.Parent() == nil && fn.Synthetic != "" && fn.Name() == "init" && fn.Pkg == g.Pkg
		for _, b := range fn.Blocks {
			for _, in := range b.Instrs {
				uses := false
				for _, op := range in.Operands(nil) {
					if op != nil && *op == ssa.Value(g) {
						uses = true
					}
				}
				if !uses {
					continue
				}
				switch x := in.(type) {
				case *ssa.Store:
					if x.Addr != ssa.Value(g) || x.Val == ssa.Value(g) {
						return nil, "its address is stored"
					}
					if !isInit || whole != nil {
						return nil, "assigned outside its declaration (" + w.InstrPos(x) + ")"
					}
					whole = x.Val
				case *ssa.UnOp:
					if x.Op != token.MUL {
						return nil, "used by " + x.String()
					}
					if isSlice && !c04SliceReadOnly(w, x, 0) {
						return nil, "a use of the list may write an element (" + w.InstrPos(x) + ")"
					}
				case *ssa.IndexAddr:
					if isInit {
						// an element store of the literal built in place
						k, isK := x.Index.(*ssa.Const)
						refs := x.Referrers()
						if isK && k.Value != nil && refs != nil && len(*refs) == 1 {
							if st, ok := (*refs)[0].(*ssa.Store); ok && st.Addr == ssa.Value(x) {
								if n, exact := constant.Int64Val(k.Value); exact {
									if _, dup := inPlace[n]; !dup {
										inPlace[n] = st.Val
										continue
									}
								}
							}
						}
					}
					if addrWritten(x, 0) {
						return nil, "an element is written or its address handed out (" + w.InstrPos(x) + ")"
					}
				case *ssa.Slice:
					// arr[:] shares the elements of the array
					if x.X != ssa.Value(g) || !c04SliceReadOnly(w, x, 0) {
						return nil, "an element may be written through a slice of the variable (" + w.InstrPos(x) + ")"
					}
				case *ssa.DebugRef:
				default:
					return nil, fmt.Sprintf("its address is used by %T (%s)", in, w.InstrPos(in))
				}
			}
		}
	}
	switch {
	case whole != nil && len(inPlace) == 0:
		al := c04LitAlloc(whole)
		if al == nil {
			return nil, "not initialised by a literal"
		}
		els := orderedLitElems(al)
		if els == nil || !c04LitConstOnly(al) {
			return nil, "literal with an element that is not set once by a constant index"
		}
		return els, ""
	case whole == nil && len(inPlace) > 0:
		arr, ok := gt.(*types.Array)
		if !ok || arr.Len() != int64(len(inPlace)) {
			return nil, "array literal that leaves elements unset"
		}
		out := make([]ssa.Value, arr.Len())
		for i := range out {
			out[i] = inPlace[int64(i)]
			if out[i] == nil {
				return nil, "array literal that leaves elements unset"
			}
		}
		return out, ""
	}
	return nil, "no initialiser, or more than one"
}

// c04StringConsts: the values are all string constants.
func c04StringConsts(els []ssa.Value) ([]string, string) {
	var out []string
	for _, e := range els {
		k, ok := e.(*ssa.Const)
		if !ok || k.Value == nil || k.Value.Kind() != constant.String {
			return nil, "list with an element that is not a string constant"
		}
		out = append(out, constant.StringVal(k.Value))
	}
	return out, ""
}

// c04LitConsts: the elements of a literal, when all are string constants set once.
func c04LitConsts(al *ssa.Alloc) ([]string, string) {
	els := orderedLitElems(al)
	if els == nil || !c04LitConstOnly(al) {
		return nil, "literal with an element that is not set once by a constant index"
	}
	return c04StringConsts(els)
}

// c04ConstList: the string constants a list value (slice, array, pointer to array) holds whenever it is read, when
// the program text decides that:
//
//   - a local literal `[]string{..}` / `[...]string{..}` whose elements are constants and are never overwritten;
//   - a package-level variable holding such a literal that is never written after its declaration (c04GlobalInit):
//     hoisting the list out of the function does not change what the loop ranges over;
//   - a parameter, when the function is a frame of a call tree: what the caller passes at that call;
//   - the result of a static module function all of whose returns are such lists with the same elements.
//
// nil + reason when not decided.
func c04ConstList(w *World, f *c04Frame, v ssa.Value, depth int) ([]string, string) {
	if depth > 4 {
		return nil, "too deep"
	}
	if al := c04LitAlloc(v); al != nil {
		if sl, ok := v.(*ssa.Slice); ok && !c04SliceReadOnly(w, c04Returned{sl}, 0) {
			return nil, "an element of the literal may be overwritten"
		}
		return c04LitConsts(al)
	}
	switch x := v.(type) {
	case *ssa.Global:
		// the uses of the variable are the uses of the literal: checked by c04GlobalInit
		els, why := c04GlobalInit(w, x)
		if els == nil {
			return nil, "package-level list " + desc(x) + ": " + why
		}
		return c04StringConsts(els)
	case *ssa.UnOp:
		if g, ok := x.X.(*ssa.Global); ok && x.Op == token.MUL {
			return c04ConstList(w, f, g, depth)
		}
	case *ssa.ChangeType:
		return c04ConstList(w, f, x.X, depth)
	case *ssa.Slice:
		// arr[:] of a package-level array
		if g, ok := x.X.(*ssa.Global); ok && x.Low == nil && x.High == nil {
			if !c04SliceReadOnly(w, x, 0) {
				return nil, "an element may be written through the slice of " + desc(g)
			}
			return c04ConstList(w, f, g, depth)
		}
	case *ssa.Parameter:
		if f != nil {
			if !c04SliceReadOnly(w, x, 0) {
				return nil, "the list parameter may be written"
			}
			if pf, pv, ok := f.upValue(x); ok {
				return c04ConstList(w, pf, pv, depth+1)
			}
		}
		return nil, "a parameter of the entry function"
	case *ssa.Call:
		g := staticCallee(x)
		if g == nil || g.Blocks == nil || !w.IsProductFn(g) || g.Signature.Results().Len() != 1 {
			return nil, "result of a call that is not a static module call"
		}
		if _, isSlice := x.Type().Underlying().(*types.Slice); isSlice && !c04SliceReadOnly(w, x, 0) {
			return nil, "an element of the returned list may be overwritten"
		}
		var out []string
		n := 0
		for _, b := range g.Blocks {
			r, ok := blockTerm(b).(*ssa.Return)
			if !ok || len(r.Results) != 1 {
				continue
			}
			els, why := c04ConstList(w, nil, r.Results[0], depth+1)
			if els == nil {
				return nil, why
			}
			if n > 0 && strings.Join(els, "\x00") != strings.Join(out, "\x00") {
				return nil, "the function returns different lists"
			}
			out = els
			n++
		}
		if n == 0 {
			return nil, "no return"
		}
		return out, ""
	}
	return nil, "not a literal of string constants, nor a package-level variable holding one (" + trunc(desc(v), 60) + ")"
}

// ---- the mandatory attribute types ---------------------------------------------

// c04MapWrites: the instructions of f.fn that may change the map value M (a store of an entry, delete / clear, a call
// of a module function that does so with its parameter, a call the walk cannot look into). aliased: M is copied
// somewhere the walk does not follow (a variable, a field, a closure, a phi): then a write may happen anywhere.
func c04MapWrites(w *World, f *c04Frame, M ssa.Value) (writes []ssa.Instruction, aliased bool) {
	refs := M.Referrers()
	if refs == nil {
		return nil, false
	}
	for _, r := range *refs {
		switch x := r.(type) {
		case *ssa.Lookup, *ssa.Range, *ssa.Return, *ssa.DebugRef:
		case *ssa.MapUpdate:
			if x.Map == M {
				writes = append(writes, x)
			} else {
				aliased = true
			}
		case *ssa.ChangeType:
			ws, al := c04MapWrites(w, f, x)
			writes = append(writes, ws...)
			aliased = aliased || al
		case *ssa.Call:
			if bi, ok := x.Call.Value.(*ssa.Builtin); ok {
				if bi.Name() != "len" {
					writes = append(writes, x)
				}
				continue
			}
			if isFormattingCall(x) {
				continue
			}
			ch := f.child(w, x)
			if ch == nil {
				writes = append(writes, x)
				continue
			}
			for i, a := range x.Call.Args {
				if a == M {
					ws, al := c04MapWrites(w, ch, ch.fn.Params[i])
					if len(ws) > 0 || al {
						writes = append(writes, x)
					}
				}
			}
		default:
			if !onlyFormatted(r, 0) {
				aliased = true
			}
		}
	}
	return writes, aliased
}

// c04NonEmptyKey: the branch condition evaluating to truth states that the entry of M under some key is present with a
// non-empty value (`M[k] != ""`, `len(M[k]) > 0`) or, as the rule has always accepted, present (`_, ok := M[k]; ok`).
// Returned: that lookup. It is identified as an SSA value (a lookup in M itself, not in a map that prints alike).
func c04NonEmptyKey(cond ssa.Value, truth bool, M ssa.Value) *ssa.Lookup {
	label := condLabel(cond, truth)
	var found *ssa.Lookup
	var walk func(v ssa.Value, depth int)
	walk = func(v ssa.Value, depth int) {
		if depth > 5 || found != nil {
			return
		}
		switch x := v.(type) {
		case *ssa.UnOp:
			if x.Op == token.NOT {
				walk(x.X, depth+1)
			}
		case *ssa.BinOp:
			walk(x.X, depth+1)
			walk(x.Y, depth+1)
		case *ssa.Call:
			if bi, ok := x.Call.Value.(*ssa.Builtin); ok && bi.Name() == "len" && len(x.Call.Args) == 1 {
				walk(x.Call.Args[0], depth+1)
			}
		case *ssa.Extract:
			walk(x.Tuple, depth+1)
		case *ssa.Lookup:
			if !c04SameValue(x.X, M) {
				return
			}
			d := desc(x)
			for _, l := range []string{"NE(" + d + `,const:"")`, "NE(len(" + d + "),const:0)", "T(ok(" + d + "))"} {
				if label == l {
					found = x
				}
			}
		}
	}
	walk(cond, 0)
	return found
}

// c04UnitStep: the index of the loop starts at the first element and advances by one (the loops go/ssa builds for
// `range` over a slice or array, and `for i := 0; i < len(x); i++`). Returned: the index value the body uses.
func c04UnitStep(l *sliceLoop) ssa.Value {
	iff, ok := blockTerm(l.Header).(*ssa.If)
	if !ok {
		return nil
	}
	bo, ok := iff.Cond.(*ssa.BinOp)
	if !ok || bo.Op != token.LSS {
		return nil
	}
	isInt := func(v ssa.Value, n int64) bool {
		k, ok := v.(*ssa.Const)
		if !ok || k.Value == nil || k.Value.Kind() != constant.Int {
			return false
		}
		m, exact := constant.Int64Val(k.Value)
		return exact && m == n
	}
	plusOne := func(v ssa.Value) ssa.Value {
		if a, ok := v.(*ssa.BinOp); ok && a.Op == token.ADD && isInt(a.Y, 1) {
			return a.X
		}
		return nil
	}
	var phi *ssa.Phi
	var first int64
	var next ssa.Value
	if p, ok := bo.X.(*ssa.Phi); ok {
		phi, first = p, 0 // i := 0; i < n; i++
	} else if p, ok := plusOne(bo.X).(*ssa.Phi); ok {
		phi, first, next = p, -1, bo.X // range: i = phi(-1, i+1) + 1
	}
	if phi == nil || phi.Block() != l.Header {
		return nil
	}
	in := loopBlocks(l.Header)
	for i, e := range phi.Edges {
		if in[phi.Block().Preds[i].Index] {
			if next != nil && e != next {
				return nil
			}
			if next == nil && plusOne(e) != ssa.Value(phi) {
				return nil
			}
		} else if !isInt(e, first) {
			return nil
		}
	}
	return bo.X
}

// c04ElemOf: v is the element of the loop's list at the loop's index.
func c04ElemOf(v ssa.Value, l *sliceLoop, idx ssa.Value) bool {
	for i := 0; i < 3; i++ {
		switch x := v.(type) {
		case *ssa.ChangeType:
			v = x.X
			continue
		case *ssa.Index:
			return x.Index == idx && (x.X == l.X || desc(x.X) == desc(l.X))
		case *ssa.UnOp:
			if ia, ok := x.X.(*ssa.IndexAddr); ok && x.Op == token.MUL {
				return ia.Index == idx && (ia.X == l.X || desc(ia.X) == desc(l.X))
			}
		}
		return false
	}
	return false
}

// c04Succ: what "the function succeeded" means to the caller that branches on its answer: an engine mode (nil
// error / the single boolean result being Want), or — tuple — component k of the result tuple being truth
// (`field, ok := firstMissing(m)`; `if !ok`).
type c04Succ struct {
	mode  Mode
	tuple bool
	k     int
	truth bool
}

// witness: a path from the start states to an exit that can be a success, avoiding the cut edges (nil: none). For a
// tuple component every return that does not deliver the constant opposite answer counts as a possible success
// (plain CFG reachability: coarser than the engine's, so it can only find more exits).
func (s c04Succ) witness(fi *FnInfo, starts []state, cut map[edgeKey]bool) []string {
	if !s.tuple {
		return fi.successWitness(s.mode, starts, cut)
	}
	targets := map[int]bool{}
	for _, b := range fi.Fn.Blocks {
		r, ok := blockTerm(b).(*ssa.Return)
		if !ok || s.k >= len(r.Results) {
			continue
		}
		if condLabel(r.Results[s.k], s.truth) == "FALSE" {
			continue // this return delivers the other answer
		}
		targets[b.Index] = true
	}
	for _, st := range starts {
		if targets[st.b] {
			return []string{fmt.Sprintf("b%d %s", st.b, fi.blockPos(fi.Fn.Blocks[st.b]))}
		}
	}
	if fi.reachHit(starts, cut, targets) {
		return []string{"a return that can deliver the answer is reachable"}
	}
	return nil
}

// c04CondCallX: c04CondCall, and the boolean component of the result tuple of a call.
func c04CondCallX(cond ssa.Value, truth bool) (*ssa.Call, c04Succ, bool) {
	if call, mode, ok := c04CondCall(cond, truth); ok {
		return call, c04Succ{mode: mode}, true
	}
	for {
		u, ok := cond.(*ssa.UnOp)
		if !ok || u.Op != token.NOT {
			break
		}
		cond, truth = u.X, !truth
	}
	if ex, ok := cond.(*ssa.Extract); ok {
		if call, ok := ex.Tuple.(*ssa.Call); ok {
			if b, isB := ex.Type().Underlying().(*types.Basic); isB && b.Kind() == types.Bool {
				return call, c04Succ{tuple: true, k: ex.Index, truth: truth}, true
			}
		}
	}
	return nil, c04Succ{}, false
}

// c04LeavesEarlyMode: a witness path from the body of the loop to an exit of the function that is a success in the sense
// of succ and that does not take the loop's own exit edge (header, no further element) — i.e. the loop is left by a
// break / goto / return while elements remain. nil: success is reached only after the loop ran out of elements.
func c04LeavesEarlyMode(fi *FnInfo, l *sliceLoop, succ c04Succ) []string {
	cut := map[edgeKey]bool{}
	for j, s := range l.Header.Succs {
		if s == l.Exit && s != l.Body {
			cut[edgeKey{l.Header.Index, j}] = true
		}
	}
	return succ.witness(fi, []state{{l.Body.Index, 0, -1}}, cut)
}

// c04MandCovered decides which attribute types are known to have a (non-empty) value in the map M at every exit of
// f.fn that is a success in the sense of succ. M is a value of f.fn: the map the parser made, or the parameter through which a
// helper receives it. An attribute type K is covered when no success exit remains once the edges that witness K are
// removed, a witness being
//
//	(1) a branch edge that states M[K] != "" for the constant K;
//	(2) the entry of a loop over a list of constants that contains K (c04ConstList: a local literal, a package-level
//	    variable never written, what the caller passes), when the loop visits every element (starts at the first,
//	    advances by one), an iteration continues to the next only through a branch edge that states M[element] != "",
//	    and the function cannot succeed from inside the loop other than by running out of elements;
//	(3) the success edge of a call of a module function that is handed M and covers K for its parameter by the same
//	    rule (the check extracted into a helper; `if err := check(m); err != nil`, `if !complete(m)`,
//	    `if field, ok := firstMissing(m); !ok`).
//
// In each case no write to M may be reachable after the witness (what was seen non-empty stays), and M must not be
// aliased. The clause decided is the one the base shape decides with its loop over a local literal: a parse that
// succeeds returns a map in which each of the listed types has a value — where the list is written down and at which
// call boundary the test sits does not enter into it.
func c04MandCovered(w *World, f *c04Frame, M ssa.Value, succ c04Succ, notes *[]string) map[string]bool {
	have := map[string]bool{}
	fi := w.Info(f.fn)
	writes, aliased := c04MapWrites(w, f, M)
	if aliased {
		*notes = append(*notes, fnName(f.fn)+": the map is copied into a variable, field or closure")
		return have
	}
	// a write to M is reachable from the start of the block / after the instruction
	writeFromBlock := func(b *ssa.BasicBlock) bool {
		if len(writes) == 0 {
			return false
		}
		t := blocksOf(writes...)
		return t[b.Index] || fi.reachHit([]state{{b.Index, 0, -1}}, nil, t)
	}
	writeAfter := func(in ssa.Instruction) bool {
		for _, wr := range writes {
			if wr.Block() == in.Block() && instrIndex(wr) > instrIndex(in) {
				return true
			}
		}
		for _, s := range in.Block().Succs {
			if writeFromBlock(s) {
				return true
			}
		}
		return false
	}
	cuts := map[string]map[edgeKey]bool{}
	add := func(k string, e edgeKey) {
		if cuts[k] == nil {
			cuts[k] = map[edgeKey]bool{}
		}
		cuts[k][e] = true
	}
	// (2) loops over constant lists
	type mloop struct {
		l     sliceLoop
		idx   ssa.Value
		elems []string
		gate  map[edgeKey]bool
	}
	var loops []*mloop
	for _, sl := range sliceLoops(f.fn) {
		sl := sl
		idx := c04UnitStep(&sl)
		if idx == nil {
			continue
		}
		if t, ok := sl.X.Type().Underlying().(*types.Slice); !ok || !c04IsString(t.Elem()) {
			pt, isP := sl.X.Type().Underlying().(*types.Pointer)
			var at types.Type = sl.X.Type()
			if isP {
				at = pt.Elem()
			}
			if a, ok := at.Underlying().(*types.Array); !ok || !c04IsString(a.Elem()) {
				continue
			}
		}
		elems, why := c04ConstList(w, f, sl.X, 0)
		if elems == nil {
			*notes = append(*notes, fmt.Sprintf("%s: list of the loop at %s not decided: %s", fnName(f.fn), w.InstrPos(blockTerm(sl.Header)), why))
			continue
		}
		loops = append(loops, &mloop{l: sl, idx: idx, elems: elems, gate: map[edgeKey]bool{}})
	}
	for _, b := range f.fn.Blocks {
		iff, ok := blockTerm(b).(*ssa.If)
		if !ok || len(b.Succs) != 2 || b.Succs[0] == b.Succs[1] {
			continue
		}
		for j := 0; j < 2; j++ {
			truth := j == 0
			e := edgeKey{b.Index, j}
			if lk := c04NonEmptyKey(iff.Cond, truth, M); lk != nil {
				if k, isK := lk.Index.(*ssa.Const); isK && k.Value != nil && k.Value.Kind() == constant.String {
					if !writeAfter(lk) {
						add(constant.StringVal(k.Value), e) // (1)
					}
				}
				for _, ml := range loops {
					if c04ElemOf(lk.Index, &ml.l, ml.idx) && loopBlocks(ml.l.Header)[b.Index] {
						ml.gate[e] = true
					}
				}
				continue
			}
			// (3)
			call, csucc, ok := c04CondCallX(iff.Cond, truth)
			if !ok {
				continue
			}
			ch := f.child(w, call)
			if ch == nil || writeAfter(call) {
				continue
			}
			for i, a := range call.Call.Args {
				if c04SameValue(a, M) && isMapSS(ch.fn.Params[i].Type()) {
					for k := range c04MandCovered(w, ch, ch.fn.Params[i], csucc, notes) {
						add(k, e)
					}
				}
			}
		}
	}
	for _, ml := range loops {
		site := w.InstrPos(blockTerm(ml.l.Header))
		if len(ml.gate) == 0 {
			continue // not a loop that tests M
		}
		if fi.reachHit([]state{{ml.l.Body.Index, 0, -1}}, ml.gate, map[int]bool{ml.l.Header.Index: true}) {
			*notes = append(*notes, fmt.Sprintf("%s: an iteration of the loop at %s reaches the next element without the test of its own element", fnName(f.fn), site))
			continue
		}
		if wit := c04LeavesEarlyMode(fi, &ml.l, succ); wit != nil {
			*notes = append(*notes, fmt.Sprintf("%s: the loop at %s can be left for a success exit before its end (%s)", fnName(f.fn), site, strings.Join(wit, " > ")))
			continue
		}
		if writeFromBlock(ml.l.Body) {
			*notes = append(*notes, fmt.Sprintf("%s: the map is written in or after the loop at %s", fnName(f.fn), site))
			continue
		}
		into := map[edgeKey]bool{}
		cutInto(fi, ml.l.Header, into)
		for _, k := range ml.elems {
			for e := range into {
				add(k, e)
			}
		}
	}
	for k, cut := range cuts {
		if succ.witness(fi, entryState(), cut) == nil {
			have[k] = true
		}
	}
	return have
}

func c04IsString(t types.Type) bool {
	b, ok := t.Underlying().(*types.Basic)
	return ok && b.Kind() == types.String
}

// ---- the DN parser over its call tree ------------------------------------------

// c04ParserShape: func(string) (map[string]string, error), declared at package level.
func c04ParserShape(fn *ssa.Function) bool {
	sig := fn.Signature
	return fn.Parent() == nil && fn.Blocks != nil && sig.Recv() == nil && sig.Params().Len() == 1 && sig.Results().Len() == 2 &&
		c04IsString(sig.Params().At(0).Type()) && isMapSS(sig.Results().At(0).Type()) && isErrorType(sig.Results().At(1).Type())
}

// c04InnerParser: fn has the shape of the DN parser but is reached from another function of that shape in its package
// that it does not reach itself: a worker of that parser.
func c04InnerParser(w *World, fn *ssa.Function) bool {
	if fn.Pkg == nil {
		return false
	}
	reaches := func(a, b *ssa.Function) bool {
		for _, g := range w.moduleCallees(a) {
			if g == b && a != b {
				return true
			}
		}
		return false
	}
	for _, m := range fn.Pkg.Members {
		q, ok := m.(*ssa.Function)
		if !ok || q == fn || !c04ParserShape(q) {
			continue
		}
		if reaches(q, fn) && !reaches(fn, q) {
			return true
		}
	}
	return false
}

// under: f is g or a frame below g in the call tree.
func (f *c04Frame) under(g *c04Frame) bool {
	for p := f; p != nil; p = p.parent {
		if p == g {
			return true
		}
	}
	return false
}

// c04FrameOf: the frame of the list that call enters from f.
func c04FrameOf(frames []*c04Frame, f *c04Frame, call *ssa.Call) *c04Frame {
	for _, g := range frames {
		if g.parent == f && g.call == call {
			return g
		}
	}
	return nil
}

// c04Link: how the caller of a frame decides that the frame's function succeeded (succ), and whether a failure of the
// function is a failure of the root on every path (linked).
type c04Link struct {
	succ   c04Succ
	linked bool
}

// c04LinkFrames: the root succeeds by returning a nil error. A frame below is linked when its caller is, the caller
// branches on the answer of the call (`if err != nil`, `if !ok`), and from the call the caller has no success exit
// except over the edges on which the call succeeded. frames lists parents before children (c04Frames).
func c04LinkFrames(w *World, frames []*c04Frame) map[*c04Frame]*c04Link {
	out := map[*c04Frame]*c04Link{}
	for _, f := range frames {
		if f.parent == nil {
			out[f] = &c04Link{succ: c04Succ{mode: Mode{Kind: mErr}}, linked: true}
			continue
		}
		pl := out[f.parent]
		lk := &c04Link{}
		out[f] = lk
		if pl == nil {
			continue
		}
		cut := map[edgeKey]bool{}
		n, same := 0, true
		for _, b := range f.parent.fn.Blocks {
			iff, ok := blockTerm(b).(*ssa.If)
			if !ok || len(b.Succs) != 2 || b.Succs[0] == b.Succs[1] {
				continue
			}
			for j := 0; j < 2; j++ {
				call, cs, ok := c04CondCallX(iff.Cond, j == 0)
				if !ok || call != f.call {
					continue
				}
				if n > 0 && cs != lk.succ {
					same = false
				}
				lk.succ = cs
				cut[edgeKey{b.Index, j}] = true
				n++
			}
		}
		if n == 0 || !same || !pl.linked {
			continue
		}
		pfi := w.Info(f.parent.fn)
		lk.linked = pl.succ.witness(pfi, []state{{f.call.Block().Index, 0, -1}}, cut) == nil
	}
	return out
}

// c04ResultMap: the map a result value is — made where it is returned, or in the module function whose result is handed
// on (every return of that function that does not return the nil map returns the one map it made). nil: not decided.
func c04ResultMap(w *World, frames []*c04Frame, f *c04Frame, v ssa.Value, depth int) *ssa.MakeMap {
	if depth > c04MaxDepth || f == nil {
		return nil
	}
	var call *ssa.Call
	k := 0
	switch x := v.(type) {
	case *ssa.MakeMap:
		return x
	case *ssa.ChangeType:
		return c04ResultMap(w, frames, f, x.X, depth+1)
	case *ssa.Parameter:
		if pf, pv, ok := f.upValue(x); ok {
			return c04ResultMap(w, frames, pf, pv, depth+1)
		}
		return nil
	case *ssa.Extract:
		c, ok := x.Tuple.(*ssa.Call)
		if !ok {
			return nil
		}
		call, k = c, x.Index
	case *ssa.Call:
		call = x
	default:
		return nil
	}
	ch := c04FrameOf(frames, f, call)
	if ch == nil {
		return nil
	}
	var mm *ssa.MakeMap
	for _, b := range ch.fn.Blocks {
		r, ok := blockTerm(b).(*ssa.Return)
		if !ok || k >= len(r.Results) {
			continue
		}
		if isNilConst(r.Results[k]) {
			continue
		}
		m := c04ResultMap(w, frames, ch, r.Results[k], depth+1)
		if m == nil || (mm != nil && mm != m) {
			return nil
		}
		mm = m
	}
	return mm
}

// c04MapOrigin: the value a map operand is, followed through the parameters of the frames up to where it was made.
func c04MapOrigin(f *c04Frame, v ssa.Value) ssa.Value {
	for i := 0; i < 2*c04MaxDepth && f != nil; i++ {
		switch x := v.(type) {
		case *ssa.ChangeType:
			v = x.X
			continue
		case *ssa.Parameter:
			pf, pv, ok := f.upValue(x)
			if !ok {
				return v
			}
			f, v = pf, pv
			continue
		}
		return v
	}
	return v
}

// c04LoopAt: a loop of a frame; x: what it ranges over and idx: its index, rendered in the root frame.
type c04LoopAt struct {
	f   *c04Frame
	l   *sliceLoop
	x   string
	idx string
}

// c04StoreAt: a store into the result map in a frame.
type c04StoreAt struct {
	f  *c04Frame
	mu *ssa.MapUpdate
}

// c04LoopIndex: the index of a slice loop as desc prints it inside an element of the list.
func c04LoopIndex(l *sliceLoop) string {
	if iff, ok := blockTerm(l.Header).(*ssa.If); ok {
		if bo, ok := iff.Cond.(*ssa.BinOp); ok {
			return descIndex(bo.X)
		}
	}
	return "?"
}

// ---- how the attributes of an RDN are visited (fourth pass) --------------------

// c04AttrVisit: where the parser handles the attributes of the RDN of the current iteration, and what "the handling of
// one attribute ran to its end" means on the control-flow graph of the function f.fn.
//
//	loop form:        a loop over rdn.Attributes; the attribute is the element at the loop's index, its handling an iteration
//	                  of that loop (body -> header);
//	first-only form:  no such loop; the attribute at constant index 0 is handled in line (or by a helper that is handed the
//	                  RDN, its attribute list or that attribute), its handling an iteration of the RDN loop.
//
// The first-only form reads every attribute for the reason the loop form does, given the two obligations that are decided
// in both forms on the same paths: an iteration over an RDN completes only under len(Attributes) <= 1 (parser/multi-valued-rdn)
// — so index 0 is the only index there can be — and it completes only through the test under which that attribute is
// recorded, or under len(Attributes) == 0, when there is nothing to record (parser/every-attribute-read, parser/duplicate).
// A loop that runs at most once by the gate before it and its single unrolled iteration are the same computation.
type c04AttrVisit struct {
	f      *c04Frame
	loop   *c04LoopAt   // loop form: the attribute loop (nil: first-only form)
	x      string       // the attribute list of the current RDN, in the root frame
	elem   string       // the attribute handled, in the root frame
	start  int          // block of f.fn in which the handling starts
	hdr    map[int]bool // reached: the handling ran to its end
	blocks map[int]bool // the blocks of f.fn the handling consists of
	none   func(l string) bool
	// first-only form: the branch edges of f.fn that state "no attribute" in two steps — len != 1 on an edge that is
	// dominated, within the iteration, by an edge that states len <= 1 (`if len(a) > 1 { fail }; if len(a) == 1 { handle a[0] }`)
	noneEdges map[edgeKey]bool
}

func c04VisitByLoop(al *c04LoopAt) *c04AttrVisit {
	return &c04AttrVisit{f: al.f, loop: al, x: al.x, elem: al.x + "[" + al.idx + "]", start: al.l.Body.Index,
		hdr: map[int]bool{al.l.Header.Index: true}, blocks: loopBlocks(al.l.Header), none: func(string) bool { return false }}
}

// c04VisitFirstOnly: the first-only form, recognised by a read of element 0 of the attribute list of the RDN of the
// current iteration somewhere in the call tree below the RDN loop (nil: no such read — then nothing says how the
// attributes are visited). Whether that read is the attribute recorded, and whether it is the only attribute, is
// decided by the obligations, not here.
func c04VisitFirstOnly(frames []*c04Frame, rl *c04LoopAt) *c04AttrVisit {
	x := rl.x + "[" + rl.idx + "].Attributes"
	elem := x + "[const:0]"
	found := false
	in := loopBlocks(rl.l.Header)
	for _, f := range frames {
		if !f.under(rl.f) {
			continue
		}
		for _, b := range f.fn.Blocks {
			if f == rl.f && !in[b.Index] {
				continue
			}
			for _, ins := range b.Instrs {
				if u, ok := ins.(*ssa.UnOp); ok && u.Op == token.MUL {
					if _, isIA := u.X.(*ssa.IndexAddr); isIA && f.up(desc(u)) == elem {
						found = true
					}
				}
			}
		}
	}
	if !found {
		return nil
	}
	n := "len(" + x + "),const:"
	// the facts are about the list of this iteration: they name the loop's index, and an edge that dominates the branch
	// and names that index lies between the header of this iteration and the branch (c04EdgeFacts)
	noneEdges := map[edgeKey]bool{}
	for _, b := range rl.f.fn.Blocks {
		iff, ok := blockTerm(b).(*ssa.If)
		if !ok || !in[b.Index] || len(b.Succs) != 2 || b.Succs[0] == b.Succs[1] || len(b.Preds) != 1 {
			continue
		}
		var atMostOne bool
		for l := range c04EdgeFacts(b.Preds[0], b) {
			if u := rl.f.up(l); u == "LE("+n+"1)" || u == "LT("+n+"2)" {
				atMostOne = true
			}
		}
		for j := 0; j < 2 && atMostOne; j++ {
			if rl.f.up(condLabel(iff.Cond, j == 0)) == "NE("+n+"1)" {
				noneEdges[edgeKey{b.Index, j}] = true
			}
		}
	}
	return &c04AttrVisit{f: rl.f, x: x, elem: elem, start: rl.l.Body.Index, hdr: map[int]bool{rl.l.Header.Index: true},
		blocks: in, none: func(l string) bool { return l == "EQ("+n+"0)" }, noneEdges: noneEdges}
}
