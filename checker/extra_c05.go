package main

// Helpers of the C05 rule set that decide obligations at another level than the
// text of the revocation function: through the call sites of an extracted
// helper (a value that is a parameter of the helper is judged at every call
// site), through the returns of a helper (a value that is the result of a
// module call is judged at every return of the callee), and on the SSA values
// instead of on their printed form.

import (
	"bytes"
	"fmt"
	"go/ast"
	"go/constant"
	"go/format"
	"go/token"
	"go/types"
	"math"
	"strconv"
	"strings"
	"sync"

	"golang.org/x/tools/go/ast/astutil"
	"golang.org/x/tools/go/ssa"
)

const c05ResultsType = "[]*github.com/notaryproject/notation-core-go/revocation/result.CertRevocationResult"

// c05IsAggregator: a product function with a []*result.CertRevocationResult parameter whose first result is a
// result.Result (types of notation-core-go): what turns the per-certificate results into one verdict. A helper that is
// merely handed the results (and returns, say, the ValidationResult) is not the aggregator.
func c05IsAggregator(w *World, g *ssa.Function) bool {
	if g == nil || g.Blocks == nil || !w.IsProductFn(g) {
		return false
	}
	if r := g.Signature.Results(); r.Len() == 0 || namedOf(r.At(0).Type()) != "core/revocation/result.Result" {
		return false
	}
	for i := 0; i < g.Signature.Params().Len(); i++ {
		if g.Signature.Params().At(i).Type().String() == c05ResultsType {
			return true
		}
	}
	return false
}

type c05Sites struct {
	sites  []*ssa.Call
	closed bool
}

// the call sites of a function are a fact of the loaded program (an *ssa.Function belongs to one World): computed once
var (
	c05SitesMu   sync.Mutex
	c05SitesMemo = map[*ssa.Function]c05Sites{}
)

// c05CallSites returns the static call sites of fn in the product code. closed is
// false when fn may also be entered in a way the list does not show: it is
// exported, used as a value (method value, argument, closure binding), started by
// go/defer, or is a method that an interface call of the module may dispatch to.
// Only a closed list licenses "every caller passes …" arguments.
func c05CallSites(w *World, fn *ssa.Function) (sites []*ssa.Call, closed bool) {
	c05SitesMu.Lock()
	defer c05SitesMu.Unlock()
	if m, ok := c05SitesMemo[fn]; ok {
		return m.sites, m.closed
	}
	defer func() { c05SitesMemo[fn] = c05Sites{sites, closed} }()
	closed = fn.Parent() == nil && fn.Synthetic == "" && !token.IsExported(fn.Name())
	var recvT types.Type
	if r := fn.Signature.Recv(); r != nil {
		recvT = r.Type()
	}
	for _, g := range w.Funcs {
		for _, b := range g.Blocks {
			for _, in := range b.Instrs {
				if ci, ok := in.(ssa.CallInstruction); ok {
					com := ci.Common()
					if com.IsInvoke() {
						if recvT != nil && com.Method.Name() == fn.Name() {
							if it, ok := com.Value.Type().Underlying().(*types.Interface); ok && types.Implements(recvT, it) {
								closed = false
							}
						}
					} else if com.StaticCallee() == fn {
						if call, ok := in.(*ssa.Call); ok {
							sites = append(sites, call)
						} else {
							closed = false
						}
					}
					for _, a := range com.Args {
						if a == ssa.Value(fn) {
							closed = false
						}
					}
					continue
				}
				for _, op := range in.Operands(nil) {
					if op != nil && *op == ssa.Value(fn) {
						closed = false
					}
				}
				if mc, ok := in.(*ssa.MakeClosure); ok {
					// bound-method wrapper of fn
					if wf, ok := mc.Fn.(*ssa.Function); ok && wf.Synthetic != "" && strings.HasPrefix(wf.Name(), fn.Name()+"$") {
						closed = false
					}
				}
			}
		}
	}
	return sites, closed
}

// c05Origins follows a value that is a parameter of an unexported helper to the
// arguments of all call sites of that helper (transitively). A value that is not
// such a parameter is its own origin. ok=false: the call sites are not all known.
func c05Origins(w *World, v ssa.Value, depth int) (out []ssa.Value, ok bool) {
	p, isParam := v.(*ssa.Parameter)
	if !isParam {
		return []ssa.Value{v}, true
	}
	fn := p.Parent()
	sites, closed := c05SitesOf(w, fn)
	if !closed || len(sites) == 0 {
		// an entry point: the parameter itself is the origin
		return []ssa.Value{v}, true
	}
	if depth <= 0 {
		return nil, false
	}
	idx := -1
	for i, q := range fn.Params {
		if q == p {
			idx = i
		}
	}
	for _, s := range sites {
		if idx < 0 || idx >= len(s.args) {
			return nil, false
		}
		o, ok := c05Origins(w, s.args[idx], depth-1)
		if !ok {
			return nil, false
		}
		out = append(out, o...)
	}
	return out, true
}

// c05Lift rewrites a label/description rendered in the frame of fn into the frame
// of R by substituting, at every call site on the way, the helper's parameters by
// the descriptions of the arguments (what the engine does when it composes
// summaries). One rendering per chain of call sites; nil if fn is not reached from R
// by static calls only.
func c05Lift(w *World, label string, fn, R *ssa.Function, depth int) []string {
	if fn == R {
		return []string{label}
	}
	if depth <= 0 {
		return nil
	}
	sites, closed := c05SitesOf(w, fn)
	if !closed {
		return nil
	}
	var out []string
	for _, s := range sites {
		if len(s.args) != len(fn.Params) {
			return nil
		}
		names := make([]string, len(fn.Params))
		descs := make([]string, len(fn.Params))
		for i, p := range fn.Params {
			names[i] = p.Name()
			descs[i] = desc(s.args[i])
			if i == 0 && s.mk != nil && s.mk.Parent() != s.call.Parent() {
				// the receiver of a dispatched call was converted in another function: its printed form belongs to
				// that frame and cannot be rendered here (what is read through the receiver is followed on SSA values)
				descs[i] = "recv?:" + p.Name()
			}
		}
		up := c05Lift(w, substParams(label, names, descs), s.call.Parent(), R, depth-1)
		if up == nil {
			return nil
		}
		out = append(out, up...)
	}
	return out
}

// c05Carry decides which of the target calls' k-th result (validator calls: k = 0 the per-certificate results, k = 1
// the error; aggregator call: k = 0 the aggregate) a value hands on unchanged: the Extract itself, a phi of carriers, the
// corresponding result of a module helper every return of which yields a carrier, or a parameter of a helper with a
// closed list of call sites every one of which passes a carrier. A return of the helper that delivers a provably
// non-nil error of its own is a failing exit of the helper (it adds no target, and the caller's error test covers it).
// ok=false: the value may be something else.
type c05Carry struct {
	w       *World
	targets map[*ssa.Call]bool
}

func (x *c05Carry) of(v ssa.Value, k int, depth int, seen map[ssa.Value]bool) (map[*ssa.Call]bool, bool) {
	if depth <= 0 {
		return nil, false
	}
	out := map[*ssa.Call]bool{}
	switch t := v.(type) {
	case *ssa.Extract, *ssa.Call:
		call, idx := callOf(v), 0
		if e, isE := v.(*ssa.Extract); isE {
			idx = e.Index
		} else if _, isTuple := v.Type().(*types.Tuple); isTuple {
			return nil, false
		}
		if call == nil {
			return nil, false
		}
		// what the returns of the module function g deliver as idx-th result
		viaReturns := func(g *ssa.Function) bool {
			gi := x.w.Info(g)
			n := 0
			for _, b := range g.Blocks {
				r, ok := blockTerm(b).(*ssa.Return)
				if !ok || idx >= len(r.Results) {
					continue
				}
				last := r.Results[len(r.Results)-1]
				failing := isErrorType(last.Type()) && c05NonNilAt(gi, last, b)
				s, ok := x.of(r.Results[idx], k, depth-1, seen)
				if !ok {
					if failing {
						// a failing exit of the helper: its error is non-nil (the caller's error test, which
						// result/validator-error requires on every success path, covers it), and the value
						// delivered next to it is not used on a success path
						continue
					}
					return false
				}
				for c := range s {
					out[c] = true
				}
				n++
			}
			return n > 0
		}
		if call.Call.IsInvoke() {
			// An interface call delivers the result of whichever method it dispatches to: of the implementation
			// outside the module — then the call itself is the consultation and must be a target — or of an adapter
			// method of the module (c05Arms), every return of which must hand on a target's result.
			opaque := false
			for _, a := range c05Arms(x.w, call) {
				if a.fn == nil {
					opaque = true
				} else if !viaReturns(a.fn) {
					return nil, false
				}
			}
			if opaque || x.targets[call] {
				if !x.targets[call] || idx != k {
					return nil, false
				}
				out[call] = true
			}
			return out, len(out) > 0
		}
		if x.targets[call] {
			if idx != k {
				return nil, false
			}
			out[call] = true
			return out, true
		}
		g := staticCallee(call)
		if g == nil || g.Blocks == nil || !x.w.IsProductFn(g) {
			return nil, false
		}
		if !viaReturns(g) {
			return nil, false
		}
		return out, true
	case *ssa.Phi:
		if seen[t] {
			return out, true
		}
		seen[t] = true
		for _, e := range t.Edges {
			s, ok := x.of(e, k, depth, seen)
			if !ok {
				return nil, false
			}
			for c := range s {
				out[c] = true
			}
		}
		return out, true
	case *ssa.Parameter:
		// what the helper receives is what its callers pass: all of them must be known
		fn := t.Parent()
		sites, closed := c05SitesOf(x.w, fn)
		if !closed || len(sites) == 0 {
			return nil, false
		}
		idx := -1
		for i, q := range fn.Params {
			if q == t {
				idx = i
			}
		}
		for _, st := range sites {
			if idx < 0 || idx >= len(st.args) {
				return nil, false
			}
			s, ok := x.of(st.args[idx], k, depth-1, seen)
			if !ok {
				return nil, false
			}
			for c := range s {
				out[c] = true
			}
		}
		return out, true
	}
	return nil, false
}

// all: v hands on the k-th result of every target call (and of nothing else).
func (x *c05Carry) all(v ssa.Value, k int) bool {
	s, ok := x.of(v, k, 5, map[ssa.Value]bool{})
	return ok && len(s) == len(x.targets)
}

// carriers: the values of fn (instructions and parameters) accepted by typeOK that hand on the k-th result of every target.
func (x *c05Carry) carriers(fn *ssa.Function, k int, typeOK func(types.Type) bool) map[ssa.Value]bool {
	out := map[ssa.Value]bool{}
	for _, p := range fn.Params {
		if typeOK(p.Type()) && x.all(p, k) {
			out[p] = true
		}
	}
	for _, b := range fn.Blocks {
		for _, in := range b.Instrs {
			if v, ok := in.(ssa.Value); ok && typeOK(v.Type()) && x.all(v, k) {
				out[v] = true
			}
		}
	}
	return out
}

// c05EqConstEdges: the If edges of fn on which one of the given values is known to equal the integer constant k
// (`v == k` true edge, `v != k` false edge, through negations; a switch case is such a comparison), as labels.
func c05EqConstEdges(fi *FnInfo, vals map[ssa.Value]bool, k int64) []string {
	isK := func(v ssa.Value) bool {
		c, ok := v.(*ssa.Const)
		if !ok || c.Value == nil || c.Value.Kind() != constant.Int {
			return false
		}
		n, exact := constant.Int64Val(c.Value)
		return exact && n == k
	}
	var out []string
	for _, b := range fi.Fn.Blocks {
		iff, ok := blockTerm(b).(*ssa.If)
		if !ok || len(b.Succs) != 2 {
			continue
		}
		cond := iff.Cond
		flip := false
		for {
			u, ok := cond.(*ssa.UnOp)
			if !ok || u.Op != token.NOT {
				break
			}
			flip = !flip
			cond = u.X
		}
		bo, ok := cond.(*ssa.BinOp)
		if !ok || (bo.Op != token.EQL && bo.Op != token.NEQ) {
			continue
		}
		if !(vals[bo.X] && isK(bo.Y)) && !(vals[bo.Y] && isK(bo.X)) {
			continue
		}
		truth := (bo.Op == token.EQL) != flip
		out = append(out, condLabel(iff.Cond, truth))
	}
	// ... and the fact itself, in the engine's canonical spelling, for every carrier: see c05NilEdges
	for v := range vals {
		out = append(out, "EQ("+desc(v)+","+desc(ssa.NewConst(constant.MakeInt64(k), v.Type()))+")")
	}
	return uniq(sortStrings(out))
}

// c05NilEdges: the If edges of fn on which one of the given values is known to be
// nil (`v == nil` true edge, `v != nil` false edge, through negations), as labels.
//
// Besides the labels of the branches found in fn, the fact `v == nil` itself is listed for every given value, in the
// spelling the engine gives it (condLabel: EQ(<value>,nil)). The two coincide wherever fn branches on the comparison. They
// differ when the comparison is not the condition of a branch of its own: `if failed(err) {` with
// `func failed(e error) bool { return e != nil }` — the helper has no branch, the caller branches on the helper's
// verdict, and the engine composes the helper's boolean summary on that edge: the exit's must-pass facts then contain
// EQ(<err>,nil) although no If of any function carries that label. What the obligation asks for is the must-pass fact
// on a value that hands on the target's result — the value is what the carriers fix (exactly one call of each
// validator interface and one aggregator call are reachable from a candidate, c05FindAnchors, so the printed form of
// a carrier denotes the target's result and nothing else); which branch, in which function, established the fact is
// immaterial. A predicate that answers without looking at the value on some path (`len(chain) > 1 && e != nil`) yields
// no such fact on its false verdict: the engine keeps only what every path to the verdict passed.
func c05NilEdges(fi *FnInfo, vals map[ssa.Value]bool) []string {
	var out []string
	for _, b := range fi.Fn.Blocks {
		iff, ok := blockTerm(b).(*ssa.If)
		if !ok || len(b.Succs) != 2 {
			continue
		}
		cond := iff.Cond
		flip := false
		for {
			u, ok := cond.(*ssa.UnOp)
			if !ok || u.Op != token.NOT {
				break
			}
			flip = !flip
			cond = u.X
		}
		bo, ok := cond.(*ssa.BinOp)
		if !ok || (bo.Op != token.EQL && bo.Op != token.NEQ) {
			continue
		}
		var o ssa.Value
		if isNilConst(bo.Y) {
			o = bo.X
		} else if isNilConst(bo.X) {
			o = bo.Y
		}
		if o == nil || !vals[o] {
			continue
		}
		truth := (bo.Op == token.EQL) != flip
		out = append(out, condLabel(iff.Cond, truth))
	}
	for v := range vals {
		out = append(out, "EQ("+desc(v)+",nil)")
	}
	return uniq(sortStrings(out))
}

// c05FailingPhiEdges finds CFG edges all of whose continuations end in a failing
// exit under the object mode (result k is an object with an error field):
//
//	b:  p = phi [pred_0: e_0, …]          (error-typed)
//	    obj = new T; …; obj.Error = p     (the last store to that field, no call after it)
//	    return …, obj, …
//
// Every path that enters b through pred_i with e_i provably non-nil executes the
// store and returns obj with a non-nil Error: it is no success path. Removing these
// edges from the graph therefore removes no success path, and the must-pass facts
// computed on the remaining graph are facts of every success path. (The engine
// itself classifies such an exit by the stored value as a whole and, the phi having a
// nil edge, calls the exit success-capable on all incoming edges.)
func c05FailingPhiEdges(fi *FnInfo, k int) map[edgeKey]bool {
	cut := map[edgeKey]bool{}
	for _, b := range fi.Fn.Blocks {
		for _, in := range b.Instrs {
			switch in.(type) {
			case *ssa.Defer, *ssa.Go:
				return cut // a deferred or concurrent function could still write the field: nothing is removed
			}
		}
	}
	for _, b := range fi.Fn.Blocks {
		r, ok := blockTerm(b).(*ssa.Return)
		if !ok || k >= len(r.Results) {
			continue
		}
		al, ok := r.Results[k].(*ssa.Alloc)
		if !ok || al.Referrers() == nil {
			continue
		}
		ef := errFieldOf(al.Type())
		if ef < 0 {
			continue
		}
		var last *ssa.Store
		lastIdx := -1
		clean := true
		for _, ref := range *al.Referrers() {
			fa, ok := ref.(*ssa.FieldAddr)
			if !ok || fa.Field != ef || fa.Referrers() == nil {
				continue
			}
			for _, u := range *fa.Referrers() {
				st, ok := u.(*ssa.Store)
				if !ok || st.Addr != fa {
					clean = false // the field's address is used otherwise
					continue
				}
				if st.Block() != b {
					continue // an earlier store: overwritten by the one in b
				}
				if i := instrIndex(st); i > lastIdx {
					last, lastIdx = st, i
				}
			}
		}
		if !clean || last == nil {
			continue
		}
		for _, in := range b.Instrs[lastIdx+1:] {
			if _, isCall := in.(ssa.CallInstruction); isCall {
				clean = false
			}
		}
		p, ok := last.Val.(*ssa.Phi)
		if !clean || !ok || p.Block() != b {
			continue
		}
		for i, e := range p.Edges {
			pred := b.Preds[i]
			if !fi.nonNil(e, pred) {
				continue
			}
			n, j := 0, -1
			for sj, s := range pred.Succs {
				if s == b {
					n++
					j = sj
				}
			}
			if n == 1 {
				cut[edgeKey{pred.Index, j}] = true
			}
		}
	}
	return cut
}

// c05Leaf is a value that may flow into the signing-time operand, with the frames
// (function, block at whose end the value is selected) it was reached through.
type c05Leaf struct {
	v      ssa.Value
	frames []c05Frame
}

type c05Frame struct {
	fn *ssa.Function
	at *ssa.BasicBlock
}

// c05Leaves enumerates the sources of (the field `path` of) v: through phis (any number of edges), up through a
// helper's parameter to the arguments of all its call sites (c05SitesOf: also the interface call that dispatches to an
// adapter method), down through a module call to the operands of the callee's returns, and through a struct that is
// filled in locally to what was stored into the field (c05CellLeaves). A value that cannot be followed further is its
// own source when no field of it is asked for; ok=false otherwise.
func c05Leaves(w *World, v ssa.Value, path []int, frames []c05Frame, depth int, seen map[c05SeenKey]bool) (out []c05Leaf, ok bool) {
	if depth <= 0 {
		return nil, false
	}
	with := func(f c05Frame, replaceLast bool) []c05Frame {
		n := append([]c05Frame(nil), frames...)
		if replaceLast && len(n) > 0 {
			n[len(n)-1] = f
		} else {
			n = append(n, f)
		}
		return n
	}
	switch x := v.(type) {
	case *ssa.Phi:
		key := c05SeenKey{x, fmt.Sprint(path)}
		if seen[key] {
			return nil, true
		}
		seen[key] = true
		for i, e := range x.Edges {
			if e == v {
				continue
			}
			l, ok := c05Leaves(w, e, path, with(c05Frame{x.Parent(), x.Block().Preds[i]}, true), depth, seen)
			if !ok {
				return nil, false
			}
			out = append(out, l...)
		}
		return out, true
	case *ssa.Parameter:
		fn := x.Parent()
		sites, closed := c05SitesOf(w, fn)
		if !closed || len(sites) == 0 {
			break
		}
		idx := -1
		for i, q := range fn.Params {
			if q == x {
				idx = i
			}
		}
		for _, s := range sites {
			if idx < 0 || idx >= len(s.args) {
				return nil, false
			}
			// the guards inside the helper are dropped: only what holds at the call site is kept
			l, ok := c05Leaves(w, s.args[idx], path, []c05Frame{s.frameOf(idx)}, depth-1, seen)
			if !ok {
				return nil, false
			}
			out = append(out, l...)
		}
		return out, true
	case *ssa.Call, *ssa.Extract:
		call, k := callOf(v), 0
		if e, isE := v.(*ssa.Extract); isE {
			k = e.Index
		}
		if call == nil {
			break
		}
		g := staticCallee(call)
		if g == nil || g.Blocks == nil || !w.IsProductFn(g) {
			break
		}
		n := 0
		for _, b := range g.Blocks {
			r, isRet := blockTerm(b).(*ssa.Return)
			if !isRet || k >= len(r.Results) {
				continue
			}
			l, ok := c05Leaves(w, r.Results[k], path, with(c05Frame{g, b}, false), depth-1, seen)
			if !ok {
				return nil, false
			}
			out = append(out, l...)
			n++
		}
		return out, n > 0
	case *ssa.Field:
		if l, ok := c05Leaves(w, x.X, append([]int{x.Field}, path...), frames, depth, seen); ok {
			return l, true
		}
	case *ssa.UnOp:
		if x.Op != token.MUL {
			break
		}
		// a load: of a field (path) of a struct that lives in a local cell or behind a pointer parameter
		root, p2 := x.X, append([]int(nil), path...)
		for {
			fa, isFA := root.(*ssa.FieldAddr)
			if !isFA {
				break
			}
			p2 = append([]int{fa.Field}, p2...)
			root = fa.X
		}
		if len(p2) > 0 {
			if l, ok := c05CellLeaves(w, root, p2, x, frames, depth, seen); ok {
				return l, true
			}
		}
	}
	if len(path) > 0 {
		return nil, false
	}
	return []c05Leaf{{v, frames}}, true
}

type c05SeenKey struct {
	v    ssa.Value
	path string
}

// c05Before: a is executed before b on every path that reaches b (same function).
func c05Before(a, b ssa.Instruction) bool {
	if a.Block() == b.Block() {
		return instrIndex(a) < instrIndex(b)
	}
	return a.Block().Dominates(b.Block())
}

// c05CellLeaves: what the field path[0].path[1]… of the struct behind the pointer root may hold when the instruction `at`
// reads it. root is
//
//   - a local cell (Alloc) that does not escape (c05Confined): every value stored into the field, every struct value
//     stored into the whole cell (its field is followed in turn) and — unless one of these stores is executed before
//     `at` on every path — the zero value the cell is created with. This is a superset of what the field can hold at
//     `at` (stores are not ordered against each other); the rules that use it require something of every member.
//     A member that came from a store is selected at the end of the store's block (its frame): a path on which the
//     field holds that value has passed the store;
//   - a pointer parameter of a helper with a closed list of sites: the same question about what every site passes.
func c05CellLeaves(w *World, root ssa.Value, path []int, at ssa.Instruction, frames []c05Frame, depth int, seen map[c05SeenKey]bool) (out []c05Leaf, ok bool) {
	if depth <= 0 || len(path) == 0 {
		return nil, false
	}
	repl := func(f c05Frame) []c05Frame {
		n := append([]c05Frame(nil), frames...)
		if len(n) > 0 {
			n[len(n)-1] = f
		} else {
			n = append(n, f)
		}
		return n
	}
	switch r := root.(type) {
	case *ssa.Alloc:
		if !c05Confined(w, r, path[0]) || at.Parent() != r.Parent() {
			return nil, false
		}
		covered := false
		for _, ref := range *r.Referrers() {
			switch y := ref.(type) {
			case *ssa.Store:
				l, ok := c05Leaves(w, y.Val, path, repl(c05Frame{r.Parent(), y.Block()}), depth-1, seen)
				if !ok {
					return nil, false
				}
				out = append(out, l...)
				if c05Before(y, at) {
					covered = true
				}
			case *ssa.FieldAddr:
				if y.Field != path[0] {
					continue
				}
				for _, u := range *y.Referrers() {
					st, isStore := u.(*ssa.Store)
					if !isStore {
						continue
					}
					l, ok := c05Leaves(w, st.Val, path[1:], repl(c05Frame{r.Parent(), st.Block()}), depth-1, seen)
					if !ok {
						return nil, false
					}
					out = append(out, l...)
					if c05Before(st, at) {
						covered = true
					}
				}
			}
		}
		if !covered {
			t := r.Type()
			for _, k := range path {
				f := fieldOf(t, k)
				if f == nil {
					return nil, false
				}
				t = f.Type()
			}
			out = append(out, c05Leaf{ssa.NewConst(nil, t), frames})
		}
		return out, true
	case *ssa.Parameter:
		fn := r.Parent()
		sites, closed := c05SitesOf(w, fn)
		if !closed || len(sites) == 0 {
			return nil, false
		}
		idx := -1
		for i, q := range fn.Params {
			if q == r {
				idx = i
			}
		}
		for _, s := range sites {
			if idx < 0 || idx >= len(s.args) {
				return nil, false
			}
			var where ssa.Instruction = s.call
			if idx == 0 && s.mk != nil {
				where = s.mk
			}
			l, ok := c05CellLeaves(w, s.args[idx], path, where, []c05Frame{s.frameOf(idx)}, depth-1, seen)
			if !ok {
				return nil, false
			}
			out = append(out, l...)
		}
		return out, true
	}
	return nil, false
}

// c05Confined: the field k of the local cell al is written only by stores the cell's referrers show: al is used for
// nothing but loads and stores of the whole value and of its fields (the address of field k itself only by loads and
// stores) — it is not handed to a call, not captured, not stored anywhere. A cell whose address is converted to an
// interface (an adapter created as `&T{…}`) is accepted when T is an unexported struct type of the module and no
// instruction of the module writes field k of a T, or a whole T, through any other pointer: whoever receives the
// interface can reach the field only through such an instruction.
func c05Confined(w *World, al *ssa.Alloc, k int) bool {
	if al.Referrers() == nil {
		return false
	}
	viaIface := false
	for _, ref := range *al.Referrers() {
		switch y := ref.(type) {
		case *ssa.DebugRef:
		case *ssa.UnOp:
			if y.Op != token.MUL {
				return false
			}
		case *ssa.Store:
			if y.Addr != ssa.Value(al) {
				return false
			}
		case *ssa.FieldAddr:
			if y.Field != k {
				continue // another field: no pointer arithmetic leads from it to field k
			}
			if y.Referrers() == nil {
				return false
			}
			for _, u := range *y.Referrers() {
				switch z := u.(type) {
				case *ssa.DebugRef:
				case *ssa.UnOp:
					if z.Op != token.MUL {
						return false
					}
				case *ssa.Store:
					if z.Addr != ssa.Value(y) {
						return false
					}
				default:
					return false
				}
			}
		case *ssa.MakeInterface:
			viaIface = true
		default:
			return false
		}
	}
	if !viaIface {
		return true
	}
	pt, ok := al.Type().(*types.Pointer)
	if !ok {
		return false
	}
	named, ok := types.Unalias(pt.Elem()).(*types.Named)
	if !ok || named.Obj().Exported() || named.Obj().Pkg() == nil || !w.IsProductPkg(named.Obj().Pkg().Path()) {
		return false
	}
	isPtrT := func(t types.Type) bool {
		p, ok := t.Underlying().(*types.Pointer)
		return ok && types.Identical(p.Elem(), named)
	}
	for _, g := range w.Funcs {
		for _, b := range g.Blocks {
			for _, in := range b.Instrs {
				st, ok := in.(*ssa.Store)
				if !ok {
					continue
				}
				switch a := st.Addr.(type) {
				case *ssa.FieldAddr:
					if a.Field == k && isPtrT(a.X.Type()) && a.X != ssa.Value(al) {
						return false
					}
				default:
					if isPtrT(st.Addr.Type()) && st.Addr != ssa.Value(al) {
						return false
					}
				}
			}
		}
	}
	return true
}

// c05CellOrigin follows v while it has exactly one origin: a field read from a local copy of a struct value (a cell
// written by one store of the whole value and by no store to that field), the field of a struct value, a by-value
// parameter of a function all of whose known sites pass the same value. It returns the struct value reached and the field path read from
// it: v is, whenever it is evaluated, the content of that field of that value.
func c05CellOrigin(w *World, v ssa.Value, path []int) (ssa.Value, []int) {
	path = append([]int(nil), path...)
	for step := 0; step < 8; step++ {
		switch x := v.(type) {
		case *ssa.Field:
			path = append([]int{x.Field}, path...)
			v = x.X
			continue
		case *ssa.UnOp:
			if x.Op != token.MUL {
				return v, path
			}
			fa, ok := x.X.(*ssa.FieldAddr)
			if !ok {
				return v, path
			}
			al, ok := fa.X.(*ssa.Alloc)
			if !ok || !c05Confined(w, al, fa.Field) {
				return v, path
			}
			var whole []*ssa.Store
			fieldStores := 0
			for _, ref := range *al.Referrers() {
				switch y := ref.(type) {
				case *ssa.Store:
					whole = append(whole, y)
				case *ssa.FieldAddr:
					if y.Field != fa.Field {
						continue
					}
					for _, u := range *y.Referrers() {
						if _, isStore := u.(*ssa.Store); isStore {
							fieldStores++
						}
					}
				case *ssa.MakeInterface:
					return v, path
				}
			}
			if fieldStores != 0 || len(whole) != 1 || !c05Before(whole[0], x) {
				return v, path
			}
			path = append([]int{fa.Field}, path...)
			v = whole[0].Val
			continue
		case *ssa.Parameter:
			if len(path) == 0 {
				return v, path
			}
			fn := x.Parent()
			sites, closed := c05SitesOf(w, fn)
			if !closed || len(sites) == 0 {
				return v, path
			}
			idx := -1
			for i, q := range fn.Params {
				if q == x {
					idx = i
				}
			}
			// one site, or several that pass the very same value (an interface call reached by several conversions)
			for _, s := range sites {
				if idx < 0 || idx >= len(s.args) || s.args[idx] != sites[0].args[idx] {
					return v, path
				}
			}
			v = sites[0].args[idx]
			continue
		}
		return v, path
	}
	return v, path
}

// ---- interface calls that dispatch into the module -------------------------------------------
//
// The deprecated client may be consulted through an adapter: a type of the module that implements the
// context-aware validator interface by calling the client, so that the revocation function performs one interface
// call where it had two. Which method such a call runs is decided by the value in the interface. c05Arms follows
// the receiver backwards on SSA values (phis, the returns of a selecting helper, a parameter fed by all call sites) to the
// conversions that produced it: a value of a module type with a declared method of that name is an adapter arm (the
// call runs that method: a static call in effect), anything else — a field that holds whatever the caller
// configured — is the opaque arm: the consultation of the validator itself.

type c05Arm struct {
	fn   *ssa.Function      // adapter arm: the method of the module the call dispatches to
	mk   *ssa.MakeInterface // adapter arm: the conversion that put the module value into the interface
	leaf ssa.Value          // opaque arm: the interface value as far as it could be followed
}

func c05IfaceLeaves(w *World, v ssa.Value, depth int, seen map[ssa.Value]bool) []ssa.Value {
	if depth <= 0 || seen[v] {
		if seen[v] {
			return nil
		}
		return []ssa.Value{v}
	}
	switch x := v.(type) {
	case *ssa.Phi:
		seen[v] = true
		var out []ssa.Value
		for _, e := range x.Edges {
			out = append(out, c05IfaceLeaves(w, e, depth, seen)...)
		}
		return out
	case *ssa.ChangeInterface:
		return c05IfaceLeaves(w, x.X, depth, seen)
	case *ssa.Call, *ssa.Extract:
		call, k := callOf(v), 0
		if e, isE := v.(*ssa.Extract); isE {
			k = e.Index
		}
		if call == nil || call.Call.IsInvoke() {
			break
		}
		g := staticCallee(call)
		if g == nil || g.Blocks == nil || !w.IsProductFn(g) {
			break
		}
		seen[v] = true
		var out []ssa.Value
		for _, b := range g.Blocks {
			if r, isRet := blockTerm(b).(*ssa.Return); isRet && k < len(r.Results) {
				out = append(out, c05IfaceLeaves(w, r.Results[k], depth-1, seen)...)
			}
		}
		return out
	case *ssa.Parameter:
		fn := x.Parent()
		sites, closed := c05CallSites(w, fn)
		if !closed || len(sites) == 0 {
			break
		}
		idx := -1
		for i, q := range fn.Params {
			if q == x {
				idx = i
			}
		}
		seen[v] = true
		var out []ssa.Value
		for _, s := range sites {
			if idx < 0 || idx >= len(s.Call.Args) {
				return []ssa.Value{v}
			}
			out = append(out, c05IfaceLeaves(w, s.Call.Args[idx], depth-1, seen)...)
		}
		return out
	}
	return []ssa.Value{v}
}

var (
	c05ArmsMu   sync.Mutex
	c05ArmsMemo = map[*ssa.Call][]c05Arm{}
)

func c05Arms(w *World, call *ssa.Call) (arms []c05Arm) {
	if call == nil || !call.Call.IsInvoke() {
		return nil
	}
	c05ArmsMu.Lock()
	m, ok := c05ArmsMemo[call]
	c05ArmsMu.Unlock()
	if ok {
		return m
	}
	defer func() {
		c05ArmsMu.Lock()
		c05ArmsMemo[call] = arms
		c05ArmsMu.Unlock()
	}()
	for _, l := range c05IfaceLeaves(w, call.Call.Value, 4, map[ssa.Value]bool{}) {
		if isNilConst(l) {
			continue // a call on the nil interface panics: it delivers nothing
		}
		mk, ok := l.(*ssa.MakeInterface)
		if !ok {
			arms = append(arms, c05Arm{leaf: l})
			continue
		}
		var fn *ssa.Function
		if sel := w.Prog.MethodSets.MethodSet(mk.X.Type()).Lookup(call.Call.Method.Pkg(), call.Call.Method.Name()); sel != nil {
			fn = w.Prog.MethodValue(sel)
		}
		if fn == nil || fn.Synthetic != "" || fn.Blocks == nil || !w.IsProductFn(fn) {
			arms = append(arms, c05Arm{leaf: l})
			continue
		}
		arms = append(arms, c05Arm{fn: fn, mk: mk})
	}
	return arms
}

// c05ConsultsOutside: the interface call may run an implementation that is not an adapter method of the module (or
// its receiver could not be followed to anything at all).
func c05ConsultsOutside(w *World, call *ssa.Call) bool {
	arms := c05Arms(w, call)
	for _, a := range arms {
		if a.fn == nil {
			return true
		}
	}
	return len(arms) == 0
}

// c05Callees: the product functions fn reaches by static calls and by interface calls that dispatch to an adapter
// method of the module (c05Arms), fn first.
func c05Callees(w *World, fn *ssa.Function) []*ssa.Function {
	seen := map[*ssa.Function]bool{}
	var order []*ssa.Function
	var rec func(f *ssa.Function)
	rec = func(f *ssa.Function) {
		if f == nil || seen[f] || f.Blocks == nil || !w.IsProductFn(f) {
			return
		}
		seen[f] = true
		order = append(order, f)
		for _, c := range allCalls(f) {
			if g := staticCallee(c); g != nil {
				rec(g)
			} else if call, ok := c.(*ssa.Call); ok && call.Call.IsInvoke() {
				for _, a := range c05Arms(w, call) {
					rec(a.fn)
				}
			}
		}
		for _, a := range f.AnonFuncs {
			rec(a)
		}
	}
	rec(fn)
	return order
}

// c05Site: one way a function is entered: a static call, or an interface call that dispatches to it (mk: the
// conversion its receiver came from). args is aligned with the callee's parameters (receiver first).
type c05Site struct {
	call *ssa.Call
	args []ssa.Value
	mk   *ssa.MakeInterface
}

// frameOf: the function and block in which the idx-th argument is evaluated.
func (s c05Site) frameOf(idx int) c05Frame {
	if idx == 0 && s.mk != nil {
		return c05Frame{s.mk.Parent(), s.mk.Block()}
	}
	return c05Frame{s.call.Parent(), s.call.Block()}
}

// c05SitesOf: the sites through which fn is entered, and whether the list is complete: the static call sites of a
// function that is never used as a value and cannot be reached through an interface (c05CallSites), or — for a method of
// an unexported type of the module that is reached through an interface — the static sites and the interface calls that
// every conversion of a value of the type to an interface flows to (c05AdapterSites).
func c05SitesOf(w *World, fn *ssa.Function) ([]c05Site, bool) {
	sites, closed := c05CallSites(w, fn)
	if !closed {
		if as, ok := c05AdapterSites(w, fn); ok {
			return as, true
		}
	}
	out := make([]c05Site, len(sites))
	for i, s := range sites {
		out[i] = c05Site{call: s, args: s.Call.Args}
	}
	return out, closed
}

type c05AdapterMemo struct {
	sites  []c05Site
	closed bool
}

var (
	c05AdapterMu      sync.Mutex
	c05AdapterSitesOf = map[*ssa.Function]c05AdapterMemo{}
)

// c05AdapterSites: all the ways the method M of an unexported, package-level, non-interface type T of the module is
// entered. M runs only when
//
//	(1) it is called statically: every such call in the module is listed (a call from a synthetic wrapper — a promoted
//	    method of a struct that embeds T — or a use of M as a function value leaves the list open; other packages cannot
//	    name T), or
//	(2) an interface call finds a value of M's receiver type in the interface. Such an interface value is created by
//	    a conversion (MakeInterface) of a value of that type, which only code that can hold a T performs: the module
//	    (every conversion is found by scanning it) or code outside it that was handed a T or *T as such (no T, *T is an
//	    argument of a call that leaves the module — checked). From each conversion the interface value is followed
//	    forwards: through phis, interface-to-interface conversions, into a module function it is an argument of, out
//	    of a function with a closed list of call sites that returns it; it may be compared and be the receiver of
//	    interface calls. Any other use (stored, captured, passed out of the module, asserted to another interface)
//	    leaves the list open. The interface calls reached whose method is M's are the dispatch sites; the receiver M
//	    sees there is the converted value, the other parameters are the call's arguments.
func c05AdapterSites(w *World, M *ssa.Function) (sites []c05Site, closed bool) {
	c05AdapterMu.Lock()
	if m, ok := c05AdapterSitesOf[M]; ok {
		c05AdapterMu.Unlock()
		return m.sites, m.closed
	}
	c05AdapterMu.Unlock()
	defer func() {
		if !closed {
			sites = nil
		}
		c05AdapterMu.Lock()
		c05AdapterSitesOf[M] = c05AdapterMemo{sites, closed}
		c05AdapterMu.Unlock()
	}()
	if M == nil || M.Blocks == nil || M.Parent() != nil || M.Synthetic != "" || !w.IsProductFn(M) || M.Signature.Recv() == nil || M.Object() == nil {
		return nil, false
	}
	recvT := M.Signature.Recv().Type()
	base := recvT
	if p, ok := base.(*types.Pointer); ok {
		base = p.Elem()
	}
	named, ok := types.Unalias(base).(*types.Named)
	if !ok || named.Obj().Exported() || named.Obj().Pkg() == nil || named.Obj().Parent() != named.Obj().Pkg().Scope() || named.TypeParams().Len() > 0 {
		return nil, false
	}
	if _, isIface := named.Underlying().(*types.Interface); isIface {
		return nil, false
	}
	isT := func(t types.Type) bool {
		if p, ok := t.Underlying().(*types.Pointer); ok {
			t = p.Elem()
		}
		return types.Identical(t, named)
	}
	// a struct that embeds T promotes M; a field or a variable of type T, or an exported function that returns one, could
	// hand a T as such to another package
	scope := named.Obj().Pkg().Scope()
	for _, n := range scope.Names() {
		switch o := scope.Lookup(n).(type) {
		case *types.TypeName:
			if st, ok := o.Type().Underlying().(*types.Struct); ok {
				for i := 0; i < st.NumFields(); i++ {
					if isT(st.Field(i).Type()) {
						return nil, false
					}
				}
			}
		case *types.Var:
			if isT(o.Type()) {
				return nil, false
			}
		}
	}
	for _, g := range w.Funcs {
		if g.Parent() == nil && token.IsExported(g.Name()) {
			for i := 0; i < g.Signature.Results().Len(); i++ {
				if isT(g.Signature.Results().At(i).Type()) {
					return nil, false
				}
			}
		}
	}
	hasM := func(t types.Type) bool {
		ms := w.Prog.MethodSets.MethodSet(t)
		for i := 0; i < ms.Len(); i++ {
			if ms.At(i).Obj() == types.Object(M.Object()) {
				return true
			}
		}
		return false
	}
	// The synthetic functions the compiler derives from M (the wrapper that gives *T the method of T, a bound-method
	// closure): they call M, and are entered only through a conversion of the other receiver type (excluded below) or
	// as function values (any reference to them leaves the list open).
	derived := map[ssa.Value]bool{ssa.Value(M): true}
	for _, g := range w.Funcs {
		if g != M && g.Synthetic != "" && g.Object() != nil && g.Object() == M.Object() {
			derived[g] = true
		}
	}
	var convs []*ssa.MakeInterface
	for _, g := range w.Funcs {
		if g != M && derived[g] {
			continue
		}
		for _, b := range g.Blocks {
			for _, in := range b.Instrs {
				if ci, ok := in.(ssa.CallInstruction); ok {
					com := ci.Common()
					callee := com.StaticCallee()
					if !com.IsInvoke() && callee != nil && derived[callee] {
						call, isCall := in.(*ssa.Call)
						if !isCall || callee != M || g.Synthetic != "" {
							return nil, false
						}
						sites = append(sites, c05Site{call: call, args: com.Args})
					}
					_, builtin := com.Value.(*ssa.Builtin)
					leaves := !builtin && (com.IsInvoke() || callee == nil || callee.Blocks == nil || !w.IsProductFn(callee))
					for _, a := range com.Args {
						if derived[a] || (leaves && isT(a.Type())) {
							return nil, false
						}
					}
					continue
				}
				for _, op := range in.Operands(nil) {
					if op != nil && *op != nil && derived[*op] {
						return nil, false
					}
				}
				switch x := in.(type) {
				case *ssa.MakeClosure:
					if wf, ok := x.Fn.(*ssa.Function); ok && wf.Synthetic != "" && strings.HasPrefix(wf.Name(), M.Name()+"$") {
						return nil, false // bound-method wrapper
					}
				case *ssa.MakeInterface:
					if isT(x.X.Type()) && hasM(x.X.Type()) {
						if !types.Identical(x.X.Type(), recvT) {
							return nil, false // dispatched through a synthetic wrapper
						}
						convs = append(convs, x)
					}
				}
			}
		}
	}
	for _, mk := range convs {
		mk := mk
		seen := map[ssa.Value]bool{}
		work := []ssa.Value{mk}
		for len(work) > 0 {
			v := work[len(work)-1]
			work = work[:len(work)-1]
			if seen[v] {
				continue
			}
			seen[v] = true
			if v.Referrers() == nil {
				return nil, false
			}
			for _, ref := range *v.Referrers() {
				switch y := ref.(type) {
				case *ssa.DebugRef, *ssa.BinOp:
				case *ssa.Phi:
					work = append(work, y)
				case *ssa.ChangeInterface:
					work = append(work, y)
				case *ssa.Return:
					h := y.Parent()
					hs, hClosed := c05CallSites(w, h)
					if !hClosed {
						return nil, false
					}
					for i, rv := range y.Results {
						if rv != v {
							continue
						}
						for _, s := range hs {
							if len(y.Results) == 1 {
								work = append(work, s)
								continue
							}
							if s.Referrers() == nil {
								continue
							}
							for _, u := range *s.Referrers() {
								if e, isE := u.(*ssa.Extract); isE && e.Index == i {
									work = append(work, e)
								}
							}
						}
					}
				case ssa.CallInstruction:
					com := y.Common()
					if com.IsInvoke() && com.Value == v {
						for _, a := range com.Args {
							if a == v {
								return nil, false
							}
						}
						if com.Method.Name() != M.Name() {
							continue // runs another method of T
						}
						call, isCall := ref.(*ssa.Call)
						if !isCall || len(com.Args)+1 != len(M.Params) {
							return nil, false
						}
						dup := false
						for _, s := range sites {
							if s.call == call && s.mk == mk {
								dup = true
							}
						}
						if !dup {
							sites = append(sites, c05Site{call: call, args: append([]ssa.Value{mk.X}, com.Args...), mk: mk})
						}
						continue
					}
					g := com.StaticCallee()
					if com.IsInvoke() || g == nil || g.Blocks == nil || !w.IsProductFn(g) || len(com.Args) != len(g.Params) {
						return nil, false
					}
					for i, a := range com.Args {
						if a == v {
							work = append(work, g.Params[i])
						}
					}
				case *ssa.Store:
					// an operand of a formatting call of package fmt (`fmt.Sprint(x)`, `fmt.Errorf("…%v", x)`): by its
					// documentation fmt calls no method of an operand but Format, GoString, Error and String
					switch M.Name() {
					case "Format", "GoString", "Error", "String":
						return nil, false
					}
					if y.Val != v || !c05FmtOperandCell(y.Addr) {
						return nil, false
					}
				default:
					return nil, false
				}
			}
		}
	}
	return sites, true
}

// c05FmtOperandCell: addr is an element of an array the compiler built for the variadic operands of a call into
// package fmt: the array is used for nothing but storing its elements and the slice handed to that call.
func c05FmtOperandCell(addr ssa.Value) bool {
	ia, ok := addr.(*ssa.IndexAddr)
	if !ok {
		return false
	}
	arr, ok := ia.X.(*ssa.Alloc)
	if !ok || arr.Referrers() == nil {
		return false
	}
	nCalls := 0
	for _, ref := range *arr.Referrers() {
		switch x := ref.(type) {
		case *ssa.DebugRef:
		case *ssa.IndexAddr:
			if x.Referrers() == nil {
				return false
			}
			for _, u := range *x.Referrers() {
				if st, isStore := u.(*ssa.Store); !isStore || st.Addr != ssa.Value(x) {
					return false
				}
			}
		case *ssa.Slice:
			if x.Referrers() == nil {
				return false
			}
			for _, u := range *x.Referrers() {
				if _, isDbg := u.(*ssa.DebugRef); isDbg {
					continue
				}
				ci, isCall := u.(ssa.CallInstruction)
				if !isCall {
					return false
				}
				g := ci.Common().StaticCallee()
				if g == nil || g.Pkg == nil || g.Pkg.Pkg.Path() != "fmt" {
					return false
				}
				nCalls++
			}
		default:
			return false
		}
	}
	return nCalls > 0
}

// ---- index tags -------------------------------------------------------------------
//
// An aggregator may remember *where* a certificate of some class was seen instead of
// what was seen there (`if bad { k = i }` … after the loop `results[k].Result`,
// `chain[k].Subject`). The abstract interpreter's domain is extended, inside AVal, by
//
//	tag(v): "a valid index j of the results slice, visited by the loop, with results[j].Result == v"
//	current: "the index of the running iteration" (inert: no comparison is decided on it)
//
// `current` becomes tag(input of the iteration) when it is carried over the back edge.
// What a tag licenses: j >= 0 (comparisons with constants are decided on [0, +inf)), and
// a later load results[j].Result yields v. Both need that the loop only visits indices in
// range (aggregator/iterates-all, aggregator/length-agreement), that the index tagged is
// the one the input was read at (aggregator/same-index) and that nobody writes the
// results in between (aggregator/results-read-only).

const c05TagPrefix = "index-of-result:"

var c05TagCur = AVal{Kind: aStr, Str: c05TagPrefix + "current"}

func c05Tag(v int64) AVal { return AVal{Kind: aStr, Str: fmt.Sprintf("%s%d", c05TagPrefix, v)} }

func c05IsTag(a AVal) bool { return a.Kind == aStr && strings.HasPrefix(a.Str, c05TagPrefix) }

func c05TagClass(a AVal) (int64, bool) {
	if !c05IsTag(a) || a == c05TagCur {
		return 0, false
	}
	n, err := strconv.ParseInt(a.Str[len(c05TagPrefix):], 10, 64)
	return n, err == nil
}

// c05CmpIndex evaluates a BinOp one of whose operands is an index tag or a tracked plain
// int. handled=false: not such an operation (default evaluation applies).
func c05CmpIndex(bo *ssa.BinOp, env map[ssa.Value]AVal) (AVal, bool) {
	ax, ay := env[bo.X], env[bo.Y]
	plain := isPlainInt(bo.X.Type()) && isPlainInt(bo.Y.Type())
	if !(c05IsTag(ax) || c05IsTag(ay) || (plain && (ax.Kind == aInt || ay.Kind == aInt))) {
		return AVal{}, false
	}
	rng := func(v ssa.Value, a AVal) (lo, hi int64, ok bool) {
		if k, isK := v.(*ssa.Const); isK && k.Value != nil && k.Value.Kind() == constant.Int {
			if n, exact := constant.Int64Val(k.Value); exact {
				return n, n, true
			}
			return 0, 0, false
		}
		if _, isTag := c05TagClass(a); isTag {
			return 0, math.MaxInt64, true
		}
		if a.Kind == aInt {
			return a.Int, a.Int, true
		}
		return 0, 0, false
	}
	lx, hx, ok1 := rng(bo.X, ax)
	ly, hy, ok2 := rng(bo.Y, ay)
	if !ok1 || !ok2 {
		return top, true
	}
	yes, no := false, false
	switch bo.Op {
	case token.LSS:
		yes, no = hx < ly, lx >= hy
	case token.LEQ:
		yes, no = hx <= ly, lx > hy
	case token.GTR:
		yes, no = lx > hy, hx <= ly
	case token.GEQ:
		yes, no = lx >= hy, hx < ly
	case token.EQL:
		yes, no = lx == hx && ly == hy && lx == ly, hx < ly || hy < lx
	case token.NEQ:
		yes, no = hx < ly || hy < lx, lx == hx && ly == hy && lx == ly
	default:
		return top, true // arithmetic on an index: not tracked
	}
	switch {
	case yes:
		return AVal{Kind: aBool, B: true}, true
	case no:
		return AVal{Kind: aBool, B: false}, true
	}
	return top, true
}

// c05IndexOfLoad: in is `*(&(*(&slice[k])).F)`; returns k.
func c05IndexOfLoad(in ssa.Instruction, slice ssa.Value) ssa.Value {
	u, ok := in.(*ssa.UnOp)
	if !ok || u.Op != token.MUL {
		return nil
	}
	fa, ok := u.X.(*ssa.FieldAddr)
	if !ok {
		return nil
	}
	el, ok := fa.X.(*ssa.UnOp)
	if !ok || el.Op != token.MUL {
		return nil
	}
	ia, ok := el.X.(*ssa.IndexAddr)
	if !ok || ia.X != slice {
		return nil
	}
	return ia.Index
}

// c05WritesResults lists the instructions of fn and of the product functions it reaches that
// store to the Result field of a CertRevocationResult or to an element of a
// []*CertRevocationResult.
func c05WritesResults(w *World, fn *ssa.Function) []ssa.Instruction {
	var out []ssa.Instruction
	for _, g := range w.moduleCallees(fn) {
		for _, b := range g.Blocks {
			for _, in := range b.Instrs {
				st, ok := in.(*ssa.Store)
				if !ok {
					continue
				}
				switch a := st.Addr.(type) {
				case *ssa.FieldAddr:
					if namedOf(a.X.Type()) == "core/revocation/result.CertRevocationResult" && fieldName(a.X.Type(), a.Field) == "Result" {
						out = append(out, in)
					}
				case *ssa.IndexAddr:
					if a.X.Type().String() == c05ResultsType {
						out = append(out, in)
					}
				}
			}
		}
	}
	return out
}

// c05PairedWithRevoked: the values returned as second result on the exits (phi edges of
// the return block, or the return itself) whose first result is the constant Revoked.
func c05PairedWithRevoked(r *ssa.Return, revoked int64) []ssa.Value {
	if len(r.Results) != 2 {
		return nil
	}
	isRev := func(v ssa.Value) bool {
		k, ok := v.(*ssa.Const)
		if !ok || k.Value == nil || k.Value.Kind() != constant.Int {
			return false
		}
		n, exact := constant.Int64Val(k.Value)
		return exact && n == revoked
	}
	if isRev(r.Results[0]) {
		return []ssa.Value{r.Results[1]}
	}
	p0, ok0 := r.Results[0].(*ssa.Phi)
	p1, ok1 := r.Results[1].(*ssa.Phi)
	if !ok0 || !ok1 || p0.Block() != r.Block() || p1.Block() != r.Block() {
		return nil
	}
	var out []ssa.Value
	for i, e := range p0.Edges {
		if isRev(e) {
			out = append(out, p1.Edges[i])
		}
	}
	return out
}

// c05ChainIndex: the index k of the (single) chain[k] element address v is computed from.
func c05ChainIndex(v ssa.Value, chain ssa.Value, depth int) ssa.Value {
	if depth <= 0 {
		return nil
	}
	if ia, ok := v.(*ssa.IndexAddr); ok {
		if ia.X == chain {
			return ia.Index
		}
		return nil
	}
	in, ok := v.(ssa.Instruction)
	if !ok {
		return nil
	}
	if _, isPhi := v.(*ssa.Phi); isPhi {
		return nil
	}
	var found ssa.Value
	for _, op := range in.Operands(nil) {
		if op == nil || *op == nil {
			continue
		}
		if k := c05ChainIndex(*op, chain, depth-1); k != nil {
			if found != nil && found != k {
				return nil
			}
			found = k
		}
	}
	return found
}

// c05Anch: the anchors of the rule set, found by role.
//
//   - the two validator calls by the interface method they invoke (names of notation-core-go);
//   - the aggregator A by its signature (c05IsAggregator), aCall the one call to it from outside the aggregator;
//   - the candidates: the functions of the verifier package whose first result is an object with an error field (the
//     ValidationResult) and that reach — themselves, through static calls into the module at whatever boundary helpers
//     were cut, or through an interface call that dispatches to an adapter method of the module (c05Callees) — exactly
//     one call of each validator interface that may run an implementation outside the module, and the aggregator call. Top is the candidate no
//     other candidate reaches; Cands lists Top and the candidates below it (an entry that delegates to an inner function
//     after some checks), top first.
type c05Anch struct {
	Top, A               *ssa.Function
	Cands                []*ssa.Function
	isCand               map[*ssa.Function]bool
	aCall, vcCall, vCall *ssa.Call
	inA                  map[*ssa.Function]bool // the aggregator and what it reaches
}

// between: the functions fn reaches (itself included) outside the aggregator.
func (an *c05Anch) between(w *World, fn *ssa.Function) []*ssa.Function {
	var out []*ssa.Function
	for _, g := range c05Callees(w, fn) {
		if !an.inA[g] {
			out = append(out, g)
		}
	}
	return out
}

func c05FindAnchors(w *World) (*c05Anch, int) {
	type cand struct {
		fn         *ssa.Function
		ac, vc, vv *ssa.Call
		reach      map[*ssa.Function]bool
		inA        map[*ssa.Function]bool
	}
	var cands []cand
	for _, fn := range w.FuncsOfPkg("verifier") {
		if fn.Blocks == nil || c05IsAggregator(w, fn) {
			continue
		}
		if r := fn.Signature.Results(); r.Len() == 0 || errFieldOf(r.At(0).Type()) < 0 {
			continue
		}
		callees := c05Callees(w, fn)
		var acs []*ssa.Call
		for _, g := range callees {
			if c05IsAggregator(w, g) {
				continue
			}
			for _, ci := range allCalls(g) {
				if call, ok := ci.(*ssa.Call); ok && c05IsAggregator(w, staticCallee(call)) {
					acs = append(acs, call)
				}
			}
		}
		if len(acs) != 1 {
			continue
		}
		inA := map[*ssa.Function]bool{}
		for _, g := range w.moduleCallees(staticCallee(acs[0])) {
			inA[g] = true
		}
		var vcs, vs []*ssa.Call
		reach := map[*ssa.Function]bool{}
		for _, g := range callees {
			reach[g] = true
			if inA[g] {
				continue
			}
			for _, ci := range allCalls(g) {
				call, ok := ci.(*ssa.Call)
				if !ok {
					continue
				}
				// an interface call that can only run adapter methods of the module consults nobody itself: the
				// consultations are the calls those methods make
				switch calleeName(call) {
				case "invoke:core/revocation.Revocation.Validate":
					if c05ConsultsOutside(w, call) {
						vs = append(vs, call)
					}
				case "invoke:core/revocation.Validator.ValidateContext":
					if c05ConsultsOutside(w, call) {
						vcs = append(vcs, call)
					}
				}
			}
		}
		if len(vcs) == 1 && len(vs) == 1 {
			cands = append(cands, cand{fn, acs[0], vcs[0], vs[0], reach, inA})
		}
	}
	var tops []cand
	for _, c := range cands {
		top := true
		for _, d := range cands {
			if d.fn != c.fn && d.reach[c.fn] && !c.reach[d.fn] {
				top = false
			}
		}
		if top {
			tops = append(tops, c)
		}
	}
	if len(tops) != 1 {
		return nil, len(tops)
	}
	t := tops[0]
	an := &c05Anch{Top: t.fn, A: staticCallee(t.ac), aCall: t.ac, vcCall: t.vc, vCall: t.vv, inA: t.inA, isCand: map[*ssa.Function]bool{}}
	an.Cands = append(an.Cands, t.fn)
	an.isCand[t.fn] = true
	for _, c := range cands {
		if c.fn != t.fn && t.reach[c.fn] && c.ac == t.ac && c.vc == t.vc && c.vv == t.vv {
			an.Cands = append(an.Cands, c.fn)
			an.isCand[c.fn] = true
		}
	}
	return an, 1
}

// c05Forwarded: v, returned by r, is the unchanged result object of a call to another candidate: nothing but the return
// (and the return block's phi) uses it, so no store can alter its error field after the callee delivered it. The
// success paths through such an exit are success paths of the callee, whose exits are judged in its own frame.
func c05Forwarded(an *c05Anch, in *ssa.Function, v ssa.Value, r *ssa.Return) (*ssa.Call, bool) {
	call, ok := v.(*ssa.Call)
	if !ok || call.Referrers() == nil {
		return nil, false
	}
	g := staticCallee(call)
	if g == nil || g == in || !an.isCand[g] {
		return nil, false
	}
	for _, ref := range *call.Referrers() {
		switch x := ref.(type) {
		case *ssa.DebugRef:
		case *ssa.Return:
			if x != r {
				return nil, false
			}
		case *ssa.Phi:
			if x.Block() != r.Block() || len(r.Results) == 0 || r.Results[0] != ssa.Value(x) {
				return nil, false
			}
		default:
			return nil, false
		}
	}
	return call, true
}

// c05ForwardedCalls: the forwarded calls (c05Forwarded) of fn, each with the blocks it is returned from.
func c05ForwardedCalls(an *c05Anch, fn *ssa.Function) map[*ssa.Call]bool {
	out := map[*ssa.Call]bool{}
	for _, b := range fn.Blocks {
		r, ok := blockTerm(b).(*ssa.Return)
		if !ok || len(r.Results) == 0 {
			continue
		}
		vs := []ssa.Value{r.Results[0]}
		if p, ok := r.Results[0].(*ssa.Phi); ok && p.Block() == b {
			vs = p.Edges
		}
		for _, v := range vs {
			if call, ok := c05Forwarded(an, fn, v, r); ok {
				out[call] = true
			}
		}
	}
	return out
}

// c05Labels: the facts of the given kind (computed per function by edges) that can appear on an exit of `to`: found in
// `to` itself or in any function it reaches outside the aggregator, and rendered in the frame of `to` by substituting
// parameters with the arguments of the call sites (what the engine does when it composes a callee's summary on the
// edge that tests the callee's verdict).
func c05Labels(w *World, an *c05Anch, to *ssa.Function, edges func(f *ssa.Function) []string) []string {
	var out []string
	for _, f := range an.between(w, to) {
		for _, l := range edges(f) {
			out = append(out, c05Lift(w, l, f, to, 4)...)
		}
	}
	return uniq(sortStrings(out))
}

// ---- range-over-func loops over the standard slice iterators ---------------------------
//
// `for k, v := range slices.Backward(s) { B }` (resp. slices.All) is compiled into a closure
// that the iterator calls; the loop-carried variables become heap cells and the loop itself
// lives in the standard library. The loop rules (natural loop, header phis, fixpoint over the
// back edge) do not see such a loop. By the documented contract of the two iterators —
// Backward yields (i, s[i]) for i = len(s)-1 … 0, All for i = 0 … len(s)-1, each index once,
// stopping when the body breaks — the statement is equivalent to
//
//	for k := len(s) - 1; k >= 0; k-- { v := s[k]; B }      (Backward)
//	for k := 0; k < len(s); k++      { v := s[k]; B }      (All)
//
// provided s is a variable that is never assigned and whose address is never taken in the
// function (so len(s) and s[k] are the same in every iteration as at the call of the iterator;
// writes to elements are excluded by aggregator/results-read-only) and the body never assigns k
// (in the iterator form k is a copy, in the three-clause form it steers the loop). break/continue/return/defer
// and per-iteration variables mean the same in both forms. c05Desugar rewrites such loops of
// the aggregator in a copy of the loaded syntax, reloads the tree with that copy as overlay and
// returns the aggregator of the reloaded world, on which the unchanged loop rules are decided.
// Anything else (an iterator over an expression, another iterator) is left alone: the rules then
// report the loop as not recognised.
func c05Desugar(c *Ctx, A *ssa.Function) (*World, *ssa.Function) {
	w := c.W
	decl, ok := A.Syntax().(*ast.FuncDecl)
	if !ok || decl.Body == nil {
		return nil, nil
	}
	pkg, file := w.FileOf(decl.Pos())
	if pkg == nil || file == nil || pkg.TypesInfo == nil {
		return nil, nil
	}
	info := pkg.TypesInfo
	stable := func(obj types.Object) bool {
		ok := true
		same := func(e ast.Expr) bool {
			id, isID := ast.Unparen(e).(*ast.Ident)
			return isID && (info.Uses[id] == obj || info.Defs[id] == obj)
		}
		ast.Inspect(decl.Body, func(n ast.Node) bool {
			switch x := n.(type) {
			case *ast.AssignStmt:
				for _, l := range x.Lhs {
					if same(l) {
						ok = false
					}
				}
			case *ast.UnaryExpr:
				if x.Op == token.AND && same(x.X) {
					ok = false
				}
			case *ast.RangeStmt:
				if x.Tok == token.ASSIGN && ((x.Key != nil && same(x.Key)) || (x.Value != nil && same(x.Value))) {
					ok = false
				}
			case *ast.IncDecStmt:
				if same(x.X) {
					ok = false
				}
			}
			return true
		})
		return ok
	}
	type rewrite struct {
		from *ast.RangeStmt
		to   *ast.ForStmt
	}
	var rws []rewrite
	pkgIdent := ""
	fresh := 0
	ast.Inspect(decl.Body, func(n ast.Node) bool {
		rs, ok := n.(*ast.RangeStmt)
		if !ok || rs.Tok != token.DEFINE {
			return true
		}
		call, ok := ast.Unparen(rs.X).(*ast.CallExpr)
		if !ok || len(call.Args) != 1 || call.Ellipsis.IsValid() {
			return true
		}
		sel, ok := call.Fun.(*ast.SelectorExpr)
		if !ok {
			return true
		}
		f, ok := info.Uses[sel.Sel].(*types.Func)
		if !ok || f.Pkg() == nil || f.Pkg().Path() != "slices" || (f.Name() != "Backward" && f.Name() != "All") {
			return true
		}
		arg, ok := ast.Unparen(call.Args[0]).(*ast.Ident)
		if !ok {
			return true
		}
		obj, ok := info.Uses[arg].(*types.Var)
		if !ok || obj.Pkg() != pkg.Types || obj.Parent() == pkg.Types.Scope() || !stable(obj) {
			return true
		}
		if _, isSlice := obj.Type().Underlying().(*types.Slice); !isSlice {
			return true
		}
		for _, e := range []ast.Expr{rs.Key, rs.Value} {
			if v, ok := e.(*ast.Ident); ok && (v.Name == arg.Name || v.Name == "len") {
				return true // the loop variable would shadow the slice (or len) in the rewritten header
			}
		}
		if k, ok := rs.Key.(*ast.Ident); ok && k.Name != "_" {
			// the key of a range-over-func loop is a copy: assigning it does not steer the iteration, whereas in the
			// three-clause form it would
			if ko := info.Defs[k]; ko == nil || !stable(ko) {
				return true
			}
		}
		if x, ok := sel.X.(*ast.Ident); ok {
			pkgIdent = x.Name
		}
		id := func(name string) *ast.Ident { return ast.NewIdent(name) }
		key := ""
		if k, ok := rs.Key.(*ast.Ident); ok && k.Name != "_" {
			key = k.Name
		} else {
			fresh++
			key = fmt.Sprintf("c05RangeIndex%d", fresh)
		}
		lenS := &ast.CallExpr{Fun: id("len"), Args: []ast.Expr{id(arg.Name)}}
		fs := &ast.ForStmt{For: rs.For}
		if f.Name() == "Backward" {
			fs.Init = &ast.AssignStmt{Lhs: []ast.Expr{id(key)}, Tok: token.DEFINE, Rhs: []ast.Expr{&ast.BinaryExpr{X: lenS, Op: token.SUB, Y: &ast.BasicLit{Kind: token.INT, Value: "1"}}}}
			fs.Cond = &ast.BinaryExpr{X: id(key), Op: token.GEQ, Y: &ast.BasicLit{Kind: token.INT, Value: "0"}}
			fs.Post = &ast.IncDecStmt{X: id(key), Tok: token.DEC}
		} else {
			fs.Init = &ast.AssignStmt{Lhs: []ast.Expr{id(key)}, Tok: token.DEFINE, Rhs: []ast.Expr{&ast.BasicLit{Kind: token.INT, Value: "0"}}}
			fs.Cond = &ast.BinaryExpr{X: id(key), Op: token.LSS, Y: lenS}
			fs.Post = &ast.IncDecStmt{X: id(key), Tok: token.INC}
		}
		body := &ast.BlockStmt{Lbrace: rs.Body.Lbrace, Rbrace: rs.Body.Rbrace}
		if v, ok := rs.Value.(*ast.Ident); ok && v.Name != "_" {
			body.List = append(body.List, &ast.AssignStmt{Lhs: []ast.Expr{id(v.Name)}, Tok: token.DEFINE, Rhs: []ast.Expr{&ast.IndexExpr{X: id(arg.Name), Index: id(key)}}})
		}
		body.List = append(body.List, rs.Body.List...)
		fs.Body = body
		rws = append(rws, rewrite{rs, fs})
		return true
	})
	if len(rws) == 0 || pkgIdent == "" {
		return nil, nil
	}
	swap := func(forward bool) {
		astutil.Apply(decl, func(cur *astutil.Cursor) bool {
			for _, rw := range rws {
				if forward && cur.Node() == ast.Node(rw.from) {
					cur.Replace(rw.to)
				} else if !forward && cur.Node() == ast.Node(rw.to) {
					cur.Replace(rw.from)
				}
			}
			return true
		}, nil)
	}
	// print every loaded file of the root packages (the loaded syntax already contains any overlay the tree was
	// loaded with), the aggregator's file with the loops rewritten
	overlay := map[string][]byte{}
	swap(true)
	failed := false
	for _, p := range w.Pkgs {
		for _, f := range p.Syntax {
			tf := w.Fset.File(f.Pos())
			if tf == nil {
				continue
			}
			var buf bytes.Buffer
			if err := format.Node(&buf, w.Fset, f); err != nil {
				failed = true
				continue
			}
			if f == file {
				// keep the import of the iterator package used
				fmt.Fprintf(&buf, "\nvar _ = %s.All[[]int]\n", pkgIdent)
			}
			overlay[tf.Name()] = buf.Bytes()
		}
	}
	swap(false)
	if failed {
		return nil, nil
	}
	w2, err := LoadWorld(w.RepoDir, w.GOOS, w.GOARCH, overlay)
	if err != nil {
		c.Notes = append(c.Notes, "C05: the index-loop form of the aggregator's iterator loop could not be loaded: "+trunc(err.Error(), 300))
		return nil, nil
	}
	an2, n := c05FindAnchors(w2)
	if n != 1 || an2 == nil || an2.A == nil || an2.A.Name() != A.Name() || an2.A.Signature.String() != A.Signature.String() {
		return nil, nil
	}
	A2 := an2.A
	c.Notes = append(c.Notes, fmt.Sprintf("C05: %d range-over-func loop(s) over slices.Backward/slices.All in %s decided on the equivalent index loop", len(rws), fnName(A)))
	return w2, A2
}

// ---- result objects built by a constructor function ----------------------------------------
//
// `return &ValidationResult{…, Error: e}` may be written `return newResult(…, e)` with
//
//	func newResult(…, err error) *ValidationResult { return &ValidationResult{…, Error: err} }
//
// (a function, a method, a closure, a constructor delegating to a more general one, any
// parameter order). The engine composes the constructor as a tail call, finds its only exit
// success-capable (the field holds a parameter, which is not provably non-nil inside the
// constructor) and so calls every exit of the revocation function that is built by it
// success-capable, also the ones that pass fmt.Errorf(…). The fact needed is decided here
// instead, one level up: *what* the constructor puts into the error field, as a function of
// its parameters, evaluated with the arguments of the call site.

const (
	c05SrcUnknown = iota
	c05SrcNil     // the error field is nil (never stored, or stored the constant nil)
	c05SrcNonNil  // the error field holds a value that is provably non-nil in the constructor
	c05SrcParam   // the error field holds the constructor's parameter Param, unchanged
)

type c05ErrSrc struct {
	Kind  int
	Param int
}

// c05CtorSources: for every return of the module function g, what the error field of the object
// returned as k-th result holds when g returns. ok=false if some return is not understood.
//
// A return is understood if the object is
//   - a fresh allocation of g that g only initialises (its referrers are field addresses that
//     are stored to or loaded from, the return, debug info: it is not handed to a call, not
//     stored anywhere, not captured), and whose error field is written either never, or by
//     exactly one store in a block dominating the return, or by stores in the return's block
//     only (the last one counts). Then at the return the field holds that store's value; or
//   - the result of another such module function (a constructor delegating to a more general
//     one), used for nothing but the return: its sources with the inner parameters replaced by
//     the arguments of the inner call.
//
// Nothing else can reach the object between its allocation and the return of g (no reference to it
// exists outside g's registers), so the field holds exactly that value when the caller receives it.
func c05CtorSources(w *World, g *ssa.Function, k int, depth int) ([]c05ErrSrc, bool) {
	if depth <= 0 || g == nil || g.Blocks == nil || !w.IsProductFn(g) {
		return nil, false
	}
	gi := w.Info(g)
	classify := func(val ssa.Value, at *ssa.BasicBlock) c05ErrSrc {
		if p, ok := val.(*ssa.Parameter); ok {
			for i, q := range g.Params {
				if q == p {
					return c05ErrSrc{c05SrcParam, i}
				}
			}
			return c05ErrSrc{Kind: c05SrcUnknown}
		}
		if isNilConst(val) {
			return c05ErrSrc{Kind: c05SrcNil}
		}
		if gi.nonNil(val, at) {
			return c05ErrSrc{Kind: c05SrcNonNil}
		}
		return c05ErrSrc{Kind: c05SrcUnknown}
	}
	var out []c05ErrSrc
	n := 0
	for _, b := range g.Blocks {
		r, ok := blockTerm(b).(*ssa.Return)
		if !ok {
			continue
		}
		if k >= len(r.Results) {
			return nil, false
		}
		n++
		switch rv := r.Results[k].(type) {
		case *ssa.Alloc:
			ef := errFieldOf(rv.Type())
			if ef < 0 || rv.Referrers() == nil {
				return nil, false
			}
			var stores []*ssa.Store
			for _, ref := range *rv.Referrers() {
				switch x := ref.(type) {
				case *ssa.Return, *ssa.DebugRef:
				case *ssa.FieldAddr:
					if x.Referrers() == nil {
						return nil, false
					}
					for _, u := range *x.Referrers() {
						switch y := u.(type) {
						case *ssa.Store:
							if y.Addr != ssa.Value(x) {
								return nil, false // the field's address is stored somewhere
							}
							if x.Field == ef {
								stores = append(stores, y)
							}
						case *ssa.UnOp:
							if y.Op != token.MUL {
								return nil, false
							}
						case *ssa.DebugRef:
						default:
							return nil, false // the field's address escapes
						}
					}
				default:
					return nil, false // the object escapes before the return
				}
			}
			switch {
			case len(stores) == 0:
				out = append(out, c05ErrSrc{Kind: c05SrcNil})
			case len(stores) == 1 && (stores[0].Block() == b || stores[0].Block().Dominates(b)) && !c05InLoop(stores[0].Block()):
				out = append(out, classify(stores[0].Val, stores[0].Block()))
			default:
				var last *ssa.Store
				li := -1
				for _, st := range stores {
					if st.Block() != b {
						return nil, false
					}
					if i := instrIndex(st); i > li {
						last, li = st, i
					}
				}
				out = append(out, classify(last.Val, b))
			}
		case *ssa.Call:
			h := staticCallee(rv)
			if h == nil || rv.Referrers() == nil || len(rv.Call.Args) != len(h.Params) {
				return nil, false
			}
			for _, ref := range *rv.Referrers() {
				switch ref.(type) {
				case *ssa.Return, *ssa.DebugRef:
				default:
					return nil, false
				}
			}
			inner, ok := c05CtorSources(w, h, 0, depth-1)
			if !ok {
				return nil, false
			}
			for _, s := range inner {
				if s.Kind == c05SrcParam {
					s = classify(rv.Call.Args[s.Param], rv.Block())
				}
				out = append(out, s)
			}
		default:
			return nil, false
		}
	}
	return out, n > 0
}

// c05InLoop: b lies on a cycle of its function's CFG.
func c05InLoop(b *ssa.BasicBlock) bool {
	seen := map[*ssa.BasicBlock]bool{}
	stack := append([]*ssa.BasicBlock(nil), b.Succs...)
	for len(stack) > 0 {
		x := stack[len(stack)-1]
		stack = stack[:len(stack)-1]
		if x == b {
			return true
		}
		if seen[x] {
			continue
		}
		seen[x] = true
		stack = append(stack, x.Succs...)
	}
	return false
}

// c05FailingCtorEdges finds CFG edges of fi.Fn all of whose continuations end in a failing exit
// under the object mode because the object returned (result k) is the value of a constructor call
//
//	b:  [a = phi …]  x = ctor(…, a, …)  return x          or
//	b:  x = phi [pred_i: ctor(…, a_i, …)] …  return x
//
// whose error field holds, by c05CtorSources, on every return of the constructor a provably non-nil
// value or the parameter that receives an argument which is provably non-nil when b is entered
// through that edge (`a` itself where the call is evaluated, or — if `a` is a phi of b — its operand
// on the edge). x is used for nothing but the return (no later store can clear the field, nobody
// else holds the object), so every path through such an edge returns an object with a non-nil Error:
// it is no success path, and removing the edge removes no success path.
func c05FailingCtorEdges(w *World, fi *FnInfo, k int) map[edgeKey]bool {
	cut := map[edgeKey]bool{}
	for _, b := range fi.Fn.Blocks {
		for _, in := range b.Instrs {
			switch in.(type) {
			case *ssa.Defer, *ssa.Go:
				return cut // as in c05FailingPhiEdges
			}
		}
	}
	cutEdge := func(b *ssa.BasicBlock, i int) {
		pred := b.Preds[i]
		n, j := 0, -1
		for sj, s := range pred.Succs {
			if s == b {
				n++
				j = sj
			}
		}
		// b.Preds lists pred once per edge; with two edges from the same block the operand index does not
		// name one of them: nothing is removed
		if n == 1 {
			cut[edgeKey{pred.Index, j}] = true
		}
	}
	for _, b := range fi.Fn.Blocks {
		r, ok := blockTerm(b).(*ssa.Return)
		if !ok || k >= len(r.Results) {
			continue
		}
		type cand struct {
			x    ssa.Value
			pred int
		}
		var cands []cand
		resPhi, _ := r.Results[k].(*ssa.Phi)
		if resPhi != nil && resPhi.Block() == b {
			for i, e := range resPhi.Edges {
				cands = append(cands, cand{e, i})
			}
		} else {
			cands = append(cands, cand{r.Results[k], -1})
		}
		for _, cd := range cands {
			call, ok := cd.x.(*ssa.Call)
			if !ok || call.Referrers() == nil {
				continue
			}
			g := staticCallee(call)
			if g == nil || len(call.Call.Args) != len(g.Params) {
				continue
			}
			clean := true
			for _, ref := range *call.Referrers() {
				switch x := ref.(type) {
				case *ssa.DebugRef:
				case *ssa.Return:
					if x != r {
						clean = false
					}
				case *ssa.Phi:
					if x != resPhi || cd.pred < 0 {
						clean = false
					}
				default:
					clean = false
				}
			}
			if !clean {
				continue
			}
			srcs, ok := c05CtorSources(w, g, 0, 3)
			if !ok || len(srcs) == 0 {
				continue
			}
			failingOn := func(i int) bool {
				for _, s := range srcs {
					switch s.Kind {
					case c05SrcNonNil:
					case c05SrcParam:
						a := call.Call.Args[s.Param]
						if p, isPhi := a.(*ssa.Phi); isPhi && p.Block() == b && call.Block() == b {
							if !c05NonNilAt(fi, p.Edges[i], b.Preds[i]) {
								return false
							}
						} else if !c05NonNilAt(fi, a, call.Block()) {
							return false
						}
					default:
						return false
					}
				}
				return true
			}
			if cd.pred >= 0 {
				if failingOn(cd.pred) {
					cutEdge(b, cd.pred)
				}
				continue
			}
			for i := range b.Preds {
				if failingOn(i) {
					cutEdge(b, i)
				}
			}
		}
	}
	return cut
}

// c05FailingExitEdges: the union of the two ways an exit is recognised as failing one level above the
// engine's own classification.
func c05FailingExitEdges(w *World, fi *FnInfo, k int) map[edgeKey]bool {
	cut := c05FailingPhiEdges(fi, k)
	for e := range c05FailingCtorEdges(w, fi, k) {
		cut[e] = true
	}
	return cut
}

// c05NonNilAt: v is provably non-nil when control is in block b — by the engine's rules, or (which the
// engine does not try for a phi with a possibly-nil operand, such as the error variable assigned by both
// validator calls) because b is only reachable through the non-nil edge of a branch that tests v itself:
// an SSA value does not change between the test and b.
func c05NonNilAt(fi *FnInfo, v ssa.Value, b *ssa.BasicBlock) bool {
	if fi.nonNil(v, b) {
		return true
	}
	for d := b; d != nil; d = d.Idom() {
		id := d.Idom()
		if id == nil {
			break
		}
		iff, ok := blockTerm(id).(*ssa.If)
		if !ok || len(id.Succs) != 2 || id.Succs[0] == id.Succs[1] {
			continue
		}
		for si, s := range id.Succs {
			if s == d && len(d.Preds) == 1 && c05EdgeSaysNonNil(iff.Cond, si == 0, v) {
				return true
			}
		}
	}
	return false
}

// c05EdgeSaysNonNil: cond evaluating to truth implies that the SSA value v (this very value, not a second
// load of the same location) is not nil.
func c05EdgeSaysNonNil(cond ssa.Value, truth bool, v ssa.Value) bool {
	for {
		u, ok := cond.(*ssa.UnOp)
		if !ok || u.Op != token.NOT {
			break
		}
		truth = !truth
		cond = u.X
	}
	bo, ok := cond.(*ssa.BinOp)
	if !ok || (bo.Op != token.EQL && bo.Op != token.NEQ) {
		return false
	}
	var o ssa.Value
	if isNilConst(bo.Y) {
		o = bo.X
	} else if isNilConst(bo.X) {
		o = bo.Y
	}
	return o != nil && o == v && (bo.Op == token.NEQ) == truth
}

// c05ParentOf: the function whose frame the value belongs to (nil for constants, globals, functions).
func c05ParentOf(v ssa.Value) *ssa.Function {
	switch x := v.(type) {
	case *ssa.Parameter:
		return x.Parent()
	case *ssa.FreeVar:
		return x.Parent()
	case ssa.Instruction:
		return x.Parent()
	}
	return nil
}

func c05Desc(v ssa.Value) string {
	if v == nil {
		return "?"
	}
	return desc(v)
}

// c05FailingErrEdges: the CFG edges of a function whose last result is an error that lead only to a return of a
// provably non-nil error (c05NonNilAt: also an error variable assigned on several paths and returned under the branch
// that found it non-nil, which the engine's exit classification leaves success-capable). No success path uses them.
func c05FailingErrEdges(fi *FnInfo) map[edgeKey]bool {
	cut := map[edgeKey]bool{}
	for _, b := range fi.Fn.Blocks {
		r, ok := blockTerm(b).(*ssa.Return)
		if !ok || len(r.Results) == 0 {
			continue
		}
		last := r.Results[len(r.Results)-1]
		if !isErrorType(last.Type()) {
			continue
		}
		if p, isPhi := last.(*ssa.Phi); isPhi && p.Block() == b {
			for i, e := range p.Edges {
				if !c05NonNilAt(fi, e, b.Preds[i]) {
					continue
				}
				n, j := 0, -1
				for sj, s := range b.Preds[i].Succs {
					if s == b {
						n++
						j = sj
					}
				}
				if n == 1 {
					cut[edgeKey{b.Preds[i].Index, j}] = true
				}
			}
			continue
		}
		if c05NonNilAt(fi, last, b) {
			cutInto(fi, b, cut)
		}
	}
	return cut
}

// c05Augment: the facts of an exit, completed by composition with a refined summary of the helpers whose error the
// exit is known to have found nil. The engine composes, on the edge `g(…)#err == nil`, the facts common to all exits
// of g it calls success-capable; where it keeps a failing exit of g among them (c05FailingErrEdges), the facts of the
// real success exits are lost in the intersection. They are recomputed here on g without those edges — a path on which
// g returned a nil error uses none of them — and rendered in the caller's frame as the engine does.
func c05Augment(w *World, fn *ssa.Function, ex *ExitSum) *ExitSum {
	var extra map[string]string
	for _, ci := range allCalls(fn) {
		call, ok := ci.(*ssa.Call)
		if !ok {
			continue
		}
		g := staticCallee(call)
		if g == nil || g.Blocks == nil || !w.IsProductFn(g) || len(call.Call.Args) != len(g.Params) {
			continue
		}
		if r := g.Signature.Results(); r.Len() == 0 || !isErrorType(r.At(r.Len()-1).Type()) {
			continue
		}
		site, ok := ex.Checked["EQ("+descTailErr(call)+",nil)"]
		if !ok {
			continue
		}
		gi := w.Info(g)
		cut := c05FailingErrEdges(gi)
		if len(cut) == 0 {
			continue
		}
		sg := gi.summarizeFrom(Mode{Kind: mErr}, entryState(), cut)
		if !sg.Complete {
			continue
		}
		names := make([]string, len(g.Params))
		descs := make([]string, len(g.Params))
		for i, p := range g.Params {
			names[i] = p.Name()
			descs[i] = desc(call.Call.Args[i])
		}
		for l := range sg.Checked {
			if extra == nil {
				extra = map[string]string{}
			}
			extra[substParams(l, names, descs)] = site
		}
	}
	if len(extra) == 0 {
		return ex
	}
	out := *ex
	out.Checked = map[string]string{}
	for l, s := range ex.Checked {
		out.Checked[l] = s
	}
	for l, s := range extra {
		if _, ok := out.Checked[l]; !ok {
			out.Checked[l] = s
		}
	}
	return &out
}

// ---- the nil tests of the receiver fields computed by a helper -----------------------------------
//
// `if !v.canCheck() { fail }` with `func (v *verifier) canCheck() bool { return v.a != nil || v.b != nil }`: the edge on
// which the predicate says "there is a validator" is not an edge labelled NE(field,nil). What the both-nil obligation
// needs is only that the edge cannot be taken when both fields are nil. That is decided by abstract interpretation of
// the helper (engine E6: every branch not decided by abstract values forks both ways, anything unknown is Top):
// loads of the two fields — recognised by their printed form rendered in the caller's frame — evaluate to nil; if every
// return then yields the same boolean constant, the opposite edge of the caller's branch is infeasible with both fields
// nil and is removed. The same holds for a helper that hands back the validator it selected instead of a boolean
// (`val := v.pick(); if val == nil { fail }`): if every return yields nil when both fields are nil, the edge on which
// the selected value is not nil is infeasible. The helper must not store to the fields (no Store to a field address in
// it other than into a struct it has just allocated, which is no field of the receiver).

// c05PredicateEdges: the edges of fi.Fn that cannot be taken when the loads printed as one of recvs are nil, with the
// number of distinct fields the deciding helper read.
func c05PredicateEdges(w *World, fi *FnInfo, recvs map[string]bool) map[edgeKey]int {
	out := map[edgeKey]int{}
	for _, b := range fi.Fn.Blocks {
		iff, ok := blockTerm(b).(*ssa.If)
		if !ok || len(b.Succs) != 2 {
			continue
		}
		cond := iff.Cond
		flip := false
		for {
			u, ok := cond.(*ssa.UnOp)
			if !ok || u.Op != token.NOT {
				break
			}
			flip = !flip
			cond = u.X
		}
		same := func(l string) string { return l }
		var truth bool // the value of iff.Cond when both fields are nil
		n := 0
		switch x := cond.(type) {
		case *ssa.Call, *ssa.Extract:
			// the helper's boolean verdict: its only result, or one of several (`val, ok := v.pick()`)
			call, k := callOf(x), 0
			if e, isE := x.(*ssa.Extract); isE {
				k = e.Index
			}
			val, known, nr := c05EvalHelper(w, call, k, same, recvs, 3)
			if !known || nr == 0 || val.Kind != aBool {
				continue
			}
			truth, n = val.B != flip, nr
		case *ssa.BinOp:
			if x.Op != token.EQL && x.Op != token.NEQ {
				continue
			}
			var o ssa.Value
			if isNilConst(x.Y) {
				o = x.X
			} else if isNilConst(x.X) {
				o = x.Y
			}
			call, k := callOf(o), 0
			if e, isE := o.(*ssa.Extract); isE {
				k = e.Index
			}
			if o == nil || call == nil {
				continue
			}
			val, known, nr := c05EvalHelper(w, call, k, same, recvs, 3)
			if !known || nr == 0 || val.Kind != aNil {
				continue
			}
			// the compared value is nil: `o == nil` holds
			truth, n = (x.Op == token.EQL) != flip, nr
		default:
			continue
		}
		if truth {
			out[edgeKey{b.Index, 1}] = n
		} else {
			out[edgeKey{b.Index, 0}] = n
		}
	}
	return out
}

// c05EvalHelper evaluates the k-th result (a boolean or a nilable value) of the module function called by call under
// the assumption that the loads whose printed form, rendered in the frame the assumption is stated in (up), is in recvs
// are nil. known: every return yields the same abstract value, a boolean constant or nil.
func c05EvalHelper(w *World, call *ssa.Call, k int, up func(string) string, recvs map[string]bool, depth int) (val AVal, known bool, nread int) {
	if call == nil || call.Call.IsInvoke() {
		return AVal{}, false, 0
	}
	g := staticCallee(call)
	if depth <= 0 || g == nil || g.Blocks == nil || !w.IsProductFn(g) || len(call.Call.Args) != len(g.Params) || k >= g.Signature.Results().Len() {
		return AVal{}, false, 0
	}
	for _, b := range g.Blocks {
		for _, in := range b.Instrs {
			switch x := in.(type) {
			case *ssa.Store:
				if fa, isField := x.Addr.(*ssa.FieldAddr); isField {
					// a field of a struct the helper allocated itself is no field of the receiver
					var root ssa.Value = fa
					for {
						f, ok := root.(*ssa.FieldAddr)
						if !ok {
							break
						}
						root = f.X
					}
					if al, ok := root.(*ssa.Alloc); !ok || al.Parent() != g {
						return AVal{}, false, 0
					}
				}
			case *ssa.Defer, *ssa.Go:
				return AVal{}, false, 0
			}
		}
	}
	names := make([]string, len(g.Params))
	descs := make([]string, len(g.Params))
	for i, p := range g.Params {
		names[i] = p.Name()
		descs[i] = desc(call.Call.Args[i])
	}
	toTop := func(l string) string { return up(substParams(l, names, descs)) }
	read := map[string]bool{}
	ip := &Interp{Fn: g, MaxPaths: 2000}
	ip.Hook = func(in ssa.Instruction, env map[ssa.Value]AVal) (AVal, bool) {
		switch x := in.(type) {
		case *ssa.UnOp:
			if x.Op == token.MUL {
				if _, isField := x.X.(*ssa.FieldAddr); isField {
					if d := toTop(desc(x)); recvs[d] {
						read[d] = true
						return AVal{Kind: aNil}, true
					}
				}
			}
		case *ssa.Call:
			if _, isTuple := x.Type().(*types.Tuple); !isTuple {
				if v, known, n := c05EvalHelper(w, x, 0, toTop, recvs, depth-1); known && n > 0 {
					return v, true
				}
			}
		}
		return AVal{}, false
	}
	outs := ip.Run(g.Blocks[0], nil, map[ssa.Value]AVal{}, nil, nil)
	if ip.Overflow {
		return AVal{}, false, 0
	}
	first := true
	for _, o := range outs {
		if o.Panic {
			continue
		}
		if o.Ret == nil || k >= len(o.Ret.Results) {
			return AVal{}, false, 0
		}
		a := ip.val(o.Ret.Results[k], o.Env)
		if a.Kind != aBool && a.Kind != aNil {
			return AVal{}, false, 0
		}
		if first {
			val, first = a, false
		} else if val != a {
			return AVal{}, false, 0
		}
	}
	if first {
		return AVal{}, false, 0
	}
	return val, true, len(read)
}

// c05ReceiverLoads: where the validator the interface call consults comes from — the sources (c05Leaves) of the call's
// receiver, without the nil constant and without the adapters of the module (an adapter is not a validator the caller
// configured: the call it makes in turn is examined on its own).
func c05ReceiverLoads(w *World, call *ssa.Call) ([]ssa.Value, bool) {
	leaves, ok := c05Leaves(w, call.Call.Value, nil, []c05Frame{{call.Parent(), call.Block()}}, 6, map[c05SeenKey]bool{})
	if !ok {
		return nil, false
	}
	var out []ssa.Value
	for _, lf := range leaves {
		if isNilConst(lf.v) {
			continue
		}
		if mk, isMk := lf.v.(*ssa.MakeInterface); isMk {
			adapter := false
			for _, a := range c05Arms(w, call) {
				if a.mk == mk {
					adapter = true
				}
			}
			if adapter {
				continue
			}
		}
		out = append(out, lf.v)
	}
	return out, len(out) > 0
}

// ---- the caller's revocation options reach the verifier ---------------------------------------
//
// The property quantifies over "whether the caller supplied the context-aware validator or the deprecated client": the
// validator that is consulted has to be the one the caller configured. The caller hands it over in a field of an
// exported options struct, the value travels through the constructors (the deprecated wrappers delegate to the general
// constructor, which delegates to the function that fills in the verifier) and ends in the verifier field the
// revocation function reads. constructor/<fn> (c05Constructor) only says that the field is non-nil on success: a
// constructor on the way that hands on a copy of the options without the caller's validator satisfies it — the
// function that fills in the verifier installs its default — and the caller's validator is never consulted: whatever it
// would report (revoked, unknown, an error), the validation passes when the default finds nothing. Hence:
//
//  1. option sources (c05OptionSources): from every value stored into the two verifier fields (found by role: the
//     fields the receivers of the two validator calls are read from) a backward slice on SSA values — phis, local
//     cells, struct fields filled in locally, the results of module helpers, the parameters of unexported functions at
//     their closed call sites — to reads p.F of a field of a parameter whose type is an exported struct type T of the
//     module (or *T). (T, F) is an option the caller configures revocation with; p is a parameter that carries it.
//     What else flows into the fields (the result of a constructor call of a dependency) is a default.
//  2. forwarding (c05OptionsForwarded): a module function Fn that itself has a parameter of type T / *T (it has been
//     handed the caller's options) and calls a function G, passing for a parameter of G that carries option F a value a:
//     every value a.F may hold is Fn's own p.F for a parameter p of type T / *T (then p carries F in turn: the rule
//     applies to the callers of Fn), or another parameter of Fn as a whole (a positional parameter that overrides the
//     field, as the deprecated constructors do for other fields), or a value selected only where the option fields of p
//     were all tested nil (a default filled in for a caller that configured nothing). A field left at its zero value,
//     read from another field, or set from anything else loses the caller's option.
//  3. the default yields (c05DefaultYields): where the verifier fields are stored, a value that is not read from the
//     caller's options (and is not nil) is stored only where the caller's validator and the caller's client were both
//     tested nil — in the storing function, or at every call site of it. A default stored next to, or over, what the
//     caller supplied is what the revocation function consults (it prefers the context-aware validator).
//
// Accepted shapes of a: the parameter itself; a load of a local copy (whole store of p, fields overwritten or not); a
// composite literal / a local filled in field by field, with F stored from p.F directly or through locals and phis; the
// result of a module helper that does one of these to its own parameter (followed into the helper with the call's
// arguments); the address of such a cell when G takes *T; stores that are overwritten before the call on every path do
// not count. What cannot be followed is undecided.

// c05OptLeaf: one value (the field path of) a followed value may hold.
type c05OptLeaf struct {
	v    ssa.Value // a parameter the walk stops at (path: the field path read from it), or any other value (path empty)
	path []int
	via  []*ssa.BasicBlock // the blocks at whose end the value was selected on the way (stores into a cell, phi edges)
	zero bool              // the zero value a cell is created with / a zero or nil constant
}

type c05OptWalk struct {
	w       *World
	stop    func(p *ssa.Parameter, path []int) bool
	lenient bool // a value that cannot be followed is a leaf of its own (discovery) instead of a failure (decision)
	seen    map[c05SeenKey]bool
}

// c05OptStruct: t is T or *T for an exported named struct type T declared in the module.
func c05OptStruct(w *World, t types.Type) *types.Named {
	if t == nil {
		return nil
	}
	if p, ok := t.Underlying().(*types.Pointer); ok {
		t = p.Elem()
	}
	n, ok := types.Unalias(t).(*types.Named)
	if !ok || n.Obj().Pkg() == nil || !n.Obj().Exported() || !w.IsProductPkg(n.Obj().Pkg().Path()) {
		return nil
	}
	if _, ok := n.Underlying().(*types.Struct); !ok {
		return nil
	}
	return n
}

func (x *c05OptWalk) opaque(v ssa.Value, path []int, via []*ssa.BasicBlock) ([]c05OptLeaf, bool) {
	if len(path) > 0 && !x.lenient {
		return nil, false
	}
	return []c05OptLeaf{{v: v, path: path, via: via}}, true
}

func c05ParamIndex(p *ssa.Parameter) int {
	for i, q := range p.Parent().Params {
		if q == p {
			return i
		}
	}
	return -1
}

// leaves: what (the field `path` of) v may hold. stack: the module calls the walk descended through (a parameter of
// the callee is the argument of that call).
func (x *c05OptWalk) leaves(v ssa.Value, path []int, stack []*ssa.Call, via []*ssa.BasicBlock, depth int) ([]c05OptLeaf, bool) {
	if depth <= 0 {
		return x.opaque(v, path, via)
	}
	add := func(b *ssa.BasicBlock) []*ssa.BasicBlock {
		return append(append([]*ssa.BasicBlock(nil), via...), b)
	}
	switch y := v.(type) {
	case *ssa.Const:
		return []c05OptLeaf{{v: v, via: via, zero: y.Value == nil}}, true
	case *ssa.Phi:
		var top *ssa.Call
		if len(stack) > 0 {
			top = stack[len(stack)-1]
		}
		key := c05SeenKey{y, fmt.Sprintf("%v|%p", path, top)}
		if x.seen[key] {
			return nil, true
		}
		x.seen[key] = true
		var out []c05OptLeaf
		for i, e := range y.Edges {
			if e == v {
				continue
			}
			l, ok := x.leaves(e, path, stack, add(y.Block().Preds[i]), depth)
			if !ok {
				return nil, false
			}
			out = append(out, l...)
		}
		return out, true
	case *ssa.Parameter:
		return x.param(y, path, false, stack, via, depth)
	case *ssa.ChangeInterface:
		return x.leaves(y.X, path, stack, via, depth)
	case *ssa.ChangeType:
		return x.leaves(y.X, path, stack, via, depth)
	case *ssa.Call, *ssa.Extract:
		call, k := callOf(v), 0
		if e, isE := v.(*ssa.Extract); isE {
			k = e.Index
		}
		if call == nil {
			break
		}
		g := staticCallee(call)
		if g == nil || g.Blocks == nil || !x.w.IsProductFn(g) || len(call.Call.Args) != len(g.Params) {
			break
		}
		for _, c := range stack {
			if staticCallee(c) == g {
				return x.opaque(v, path, via) // recursion
			}
		}
		var out []c05OptLeaf
		n := 0
		for _, b := range g.Blocks {
			r, isRet := blockTerm(b).(*ssa.Return)
			if !isRet || k >= len(r.Results) {
				continue
			}
			// the value is selected where the helper returns it (the block is in the helper's frame)
			l, ok := x.leaves(r.Results[k], path, append(append([]*ssa.Call(nil), stack...), call), add(b), depth-1)
			if !ok {
				return nil, false
			}
			out = append(out, l...)
			n++
		}
		if n > 0 {
			return out, true
		}
	case *ssa.Field:
		return x.leaves(y.X, append([]int{y.Field}, path...), stack, via, depth)
	case *ssa.Alloc:
		// the address of a cell handed on as *T: what the cell holds when the pointer is used is asked by deref
	case *ssa.UnOp:
		if y.Op != token.MUL {
			break
		}
		return x.deref(y.X, path, y, stack, via, depth)
	}
	return x.opaque(v, path, via)
}

// deref: what the field `path` of the struct (or the variable, path empty) behind the pointer ptr holds when the
// instruction at uses it.
func (x *c05OptWalk) deref(ptr ssa.Value, path []int, at ssa.Instruction, stack []*ssa.Call, via []*ssa.BasicBlock, depth int) ([]c05OptLeaf, bool) {
	path = append([]int(nil), path...)
	for {
		fa, isFA := ptr.(*ssa.FieldAddr)
		if !isFA {
			break
		}
		path = append([]int{fa.Field}, path...)
		ptr = fa.X
	}
	switch r := ptr.(type) {
	case *ssa.Alloc:
		return x.cell(r, path, at, stack, via, depth)
	case *ssa.Parameter:
		return x.param(r, path, true, stack, via, depth)
	}
	return x.opaque(ptr, path, via)
}

// param: a parameter (pointer: the struct behind a pointer parameter) — a leaf where the walk stops, the argument of
// the call the walk descended through, or the arguments of every call site when they are all known.
func (x *c05OptWalk) param(p *ssa.Parameter, path []int, pointer bool, stack []*ssa.Call, via []*ssa.BasicBlock, depth int) ([]c05OptLeaf, bool) {
	if x.stop(p, path) {
		return []c05OptLeaf{{v: p, path: path, via: via}}, true
	}
	idx := c05ParamIndex(p)
	follow := func(arg ssa.Value, call *ssa.Call, stack []*ssa.Call, via []*ssa.BasicBlock) ([]c05OptLeaf, bool) {
		if pointer {
			return x.deref(arg, path, call, stack, via, depth-1)
		}
		return x.leaves(arg, path, stack, via, depth-1)
	}
	if n := len(stack); n > 0 && staticCallee(stack[n-1]) == p.Parent() && idx >= 0 && idx < len(stack[n-1].Call.Args) {
		return follow(stack[n-1].Call.Args[idx], stack[n-1], stack[:n-1], via)
	}
	sites, closed := c05CallSites(x.w, p.Parent())
	if !closed || len(sites) == 0 || idx < 0 || len(stack) > 0 {
		return x.opaque(p, path, via)
	}
	var out []c05OptLeaf
	for _, s := range sites {
		if idx >= len(s.Call.Args) {
			return nil, false
		}
		// what was selected inside the helper is dropped: the frame is now the caller's
		l, ok := follow(s.Call.Args[idx], s, nil, nil)
		if !ok {
			return nil, false
		}
		out = append(out, l...)
	}
	return out, true
}

// cell: what the field `path` of the local cell al (the whole variable: path empty) holds when the instruction at
// reads it (a load, or the call that is handed the cell's address): every value stored into the field or into the whole
// cell, without the stores that another store of the same field (or of the whole cell) overwrites on every path to at,
// and the zero value unless a store precedes at on every path. The cell must be confined: used for nothing but loads
// and stores of the whole value and of its fields, and as an argument of at itself.
func (x *c05OptWalk) cell(al *ssa.Alloc, path []int, at ssa.Instruction, stack []*ssa.Call, via []*ssa.BasicBlock, depth int) ([]c05OptLeaf, bool) {
	if al.Referrers() == nil || at == nil || at.Parent() != al.Parent() {
		return x.opaque(al, path, via)
	}
	type write struct {
		st    *ssa.Store
		whole bool
	}
	var writes []write
	confined := true
	for _, ref := range *al.Referrers() {
		switch y := ref.(type) {
		case *ssa.DebugRef:
		case *ssa.UnOp:
			if y.Op != token.MUL {
				confined = false
			}
		case *ssa.Store:
			if y.Addr != ssa.Value(al) || y.Val == ssa.Value(al) {
				confined = false
			} else {
				writes = append(writes, write{y, true})
			}
		case *ssa.FieldAddr:
			if y.Referrers() == nil {
				confined = false
				continue
			}
			if len(path) > 0 && y.Field != path[0] {
				continue // another field: no pointer arithmetic leads from it to the field asked for
			}
			for _, u := range *y.Referrers() {
				switch z := u.(type) {
				case *ssa.DebugRef:
				case *ssa.UnOp:
					if z.Op != token.MUL {
						confined = false
					}
				case *ssa.Store:
					if z.Addr != ssa.Value(y) || len(path) == 0 {
						confined = false
					} else {
						writes = append(writes, write{z, false})
					}
				default:
					confined = false
				}
			}
		default:
			if ref != at {
				confined = false
			}
		}
	}
	if !confined {
		return x.opaque(al, path, via)
	}
	var out []c05OptLeaf
	covered := false
	for _, w1 := range writes {
		if !c05CanReach(w1.st, at) {
			continue // executed only after the last time at is: at never sees it
		}
		if c05Before(w1.st, at) {
			covered = true
		}
		killed := false
		for _, w2 := range writes {
			if w2.st != w1.st && c05Before(w1.st, w2.st) && c05Before(w2.st, at) {
				killed = true
			}
		}
		if killed {
			continue
		}
		p := path
		if !w1.whole {
			p = path[1:]
		}
		l, ok := x.leaves(w1.st.Val, p, stack, append(append([]*ssa.BasicBlock(nil), via...), w1.st.Block()), depth-1)
		if !ok {
			return nil, false
		}
		out = append(out, l...)
	}
	if !covered {
		out = append(out, c05OptLeaf{v: al, via: via, zero: true})
	}
	return out, true
}

// c05CanReach: some path executes a and later b (same function).
func c05CanReach(a, b ssa.Instruction) bool {
	if a.Block() == b.Block() && instrIndex(a) < instrIndex(b) {
		return true
	}
	seen := map[*ssa.BasicBlock]bool{}
	work := append([]*ssa.BasicBlock(nil), a.Block().Succs...)
	for len(work) > 0 {
		x := work[len(work)-1]
		work = work[:len(work)-1]
		if seen[x] {
			continue
		}
		seen[x] = true
		if x == b.Block() {
			return true
		}
		work = append(work, x.Succs...)
	}
	return false
}

// c05NilTested: cond evaluating to truth says that the returned value is nil (nil: cond says nothing of that kind).
func c05NilTested(cond ssa.Value, truth bool) ssa.Value {
	for {
		u, ok := cond.(*ssa.UnOp)
		if !ok || u.Op != token.NOT {
			break
		}
		truth = !truth
		cond = u.X
	}
	bo, ok := cond.(*ssa.BinOp)
	if !ok || (bo.Op != token.EQL && bo.Op != token.NEQ) || (bo.Op == token.EQL) != truth {
		return nil
	}
	if isNilConst(bo.Y) {
		return bo.X
	}
	if isNilConst(bo.X) {
		return bo.Y
	}
	return nil
}

// c05ReachedOnlyWithNil: control reaches the end of block b only through an edge of a branch that found a value
// accepted by isCaller to be nil (the edge into a block with that single predecessor which dominates b).
func c05ReachedOnlyWithNil(b *ssa.BasicBlock, isCaller func(ssa.Value) bool) bool {
	for d := b; d != nil; d = d.Idom() {
		id := d.Idom()
		if id == nil {
			break
		}
		iff, ok := blockTerm(id).(*ssa.If)
		if !ok || len(id.Succs) != 2 || id.Succs[0] == id.Succs[1] || len(d.Preds) != 1 {
			continue
		}
		for si, s := range id.Succs {
			if s == d {
				if y := c05NilTested(iff.Cond, si == 0); y != nil && isCaller(y) {
					return true
				}
			}
		}
	}
	return false
}

// c05VerifierFields: the named type and the two fields of the verifier the receivers of the validator calls are read from.
func c05VerifierFields(w *World, vcCall, vCall *ssa.Call) (t string, f1, f2 int, ok bool) {
	fieldOfRecv := func(call *ssa.Call) (string, int) {
		loads, ok := c05ReceiverLoads(w, call)
		if !ok {
			return "", -1
		}
		t, f := "", -1
		for _, v := range loads {
			u, ok := v.(*ssa.UnOp)
			if !ok || u.Op != token.MUL {
				return "", -1
			}
			fa, ok := u.X.(*ssa.FieldAddr)
			if !ok {
				return "", -1
			}
			if f >= 0 && (namedOf(fa.X.Type()) != t || fa.Field != f) {
				return "", -1
			}
			t, f = namedOf(fa.X.Type()), fa.Field
		}
		return t, f
	}
	t1, f1 := fieldOfRecv(vcCall)
	t2, f2 := fieldOfRecv(vCall)
	if f1 < 0 || f2 < 0 || t1 != t2 {
		return "", -1, -1, false
	}
	return t1, f1, f2, true
}

// c05OptionsForwarded: see the comment at the head of this section.
func c05OptionsForwarded(c *Ctx, R *ssa.Function, vcCall, vCall *ssa.Call) {
	w := c.W
	t1, f1, f2, ok := c05VerifierFields(w, vcCall, vCall)
	if !ok {
		return // constructor/fields is undecided (c05Constructor)
	}
	// (1) option sources
	carries := map[*ssa.Parameter]map[int]bool{} // parameter of type T / *T -> fields of T read from it that end in the verifier
	mark := func(p *ssa.Parameter, f int) bool {
		if carries[p] == nil {
			carries[p] = map[int]bool{}
		}
		if carries[p][f] {
			return false
		}
		carries[p][f] = true
		return true
	}
	srcRule := "anchor: the fields of the module's exported options struct that the values stored into the verifier's code-signing validator / client fields are read from (backward slice from the stores)"
	roles := map[int]string{f1: "context-validator", f2: "deprecated-client"}
	found := map[int][]string{}
	type optField struct {
		T *types.Named
		f int
	}
	srcOf := map[int]map[optField]bool{f1: {}, f2: {}} // verifier field -> the option fields it is fed from
	type fieldStore struct {
		st     *ssa.Store
		leaves []c05OptLeaf
	}
	var fieldStores []fieldStore
	for _, fn := range w.Funcs {
		if fn == R {
			continue
		}
		for _, b := range fn.Blocks {
			for _, in := range b.Instrs {
				st, ok := in.(*ssa.Store)
				if !ok {
					continue
				}
				fa, ok := st.Addr.(*ssa.FieldAddr)
				if !ok || namedOf(fa.X.Type()) != t1 || (fa.Field != f1 && fa.Field != f2) {
					continue
				}
				wk := &c05OptWalk{w: w, lenient: true, seen: map[c05SeenKey]bool{},
					stop: func(p *ssa.Parameter, path []int) bool { return len(path) >= 1 && c05OptStruct(w, p.Type()) != nil }}
				ls, _ := wk.leaves(st.Val, nil, nil, nil, 8)
				c.Evals++
				fieldStores = append(fieldStores, fieldStore{st, ls})
				for _, lf := range ls {
					p, isP := lf.v.(*ssa.Parameter)
					if !isP || len(lf.path) != 1 {
						continue
					}
					T := c05OptStruct(w, p.Type())
					if T == nil {
						continue
					}
					mark(p, lf.path[0])
					srcOf[fa.Field][optField{T, lf.path[0]}] = true
					c.SeenFn(fn.String())
					found[fa.Field] = append(found[fa.Field], T.Obj().Name()+"."+fieldName(T, lf.path[0]))
				}
			}
		}
	}
	for _, f := range []int{f1, f2} {
		key := "constructor/option-source/" + roles[f]
		if f1 == f2 {
			key = "constructor/option-source/validator"
		}
		if len(found[f]) == 0 {
			c.Unk(key, srcRule, w.FnPos(R), "no value stored into the verifier field is read from a field of an exported options struct parameter: the rule does not recognise how the caller configures revocation")
		} else {
			c.OK(key, srcRule+": "+strings.Join(uniq(sortStrings(found[f])), ", "), w.FnPos(R))
		}
	}
	c.MinCount("constructor/option-source", 2, "verifier fields fed from the caller's options (the context-aware validator, the deprecated client)")

	// (3) the default yields to what the caller supplied
	{
		rule := "constructor: a value that is not read from the caller's options (a default) is stored into the verifier's code-signing validator / client field only where the caller's validator and the caller's client were both tested nil (in the storing function or at every call site of it): a default stored over or next to what the caller supplied is consulted instead of it"
		srcMode := func() *c05OptWalk {
			return &c05OptWalk{w: w, lenient: true, seen: map[c05SeenKey]bool{},
				stop: func(p *ssa.Parameter, path []int) bool { return len(path) >= 1 && c05OptStruct(w, p.Type()) != nil }}
		}
		isSrc := func(vf int) func(ssa.Value) bool {
			return func(v ssa.Value) bool {
				ls, ok := srcMode().leaves(v, nil, nil, nil, 8)
				if !ok || len(ls) == 0 {
					return false
				}
				for _, lf := range ls {
					p, isP := lf.v.(*ssa.Parameter)
					if !isP || len(lf.path) != 1 {
						return false
					}
					if T := c05OptStruct(w, p.Type()); T == nil || !srcOf[vf][optField{T, lf.path[0]}] {
						return false
					}
				}
				return true
			}
		}
		// nilIn: control is at the end of block b of a helper only where the helper's options parameter's field feeding vf
		// was tested nil; the parameter is marked as carrying the field (its call sites come under the forwarding rule).
		nilIn := func(b *ssa.BasicBlock, vf int) bool {
			var tested []ssa.Value
			if !c05ReachedOnlyWithNil(b, func(y ssa.Value) bool {
				if isSrc(vf)(y) {
					tested = append(tested, y)
					return true
				}
				return false
			}) {
				return false
			}
			for _, y := range tested {
				ls, _ := srcMode().leaves(y, nil, nil, nil, 8)
				for _, lf := range ls {
					if p, isP := lf.v.(*ssa.Parameter); isP && len(lf.path) == 1 {
						mark(p, lf.path[0])
					}
				}
			}
			return true
		}
		// verdictSaysNil: block b is reached only through the edge of a branch on the boolean result of a module
		// helper, on which the result has a value that the helper returns only where it found its options parameter's
		// field nil (a helper that adopts what the caller configured and reports whether it did: on its false edge the
		// caller configured nothing). Every exit of the helper that may return that value is examined in the helper's
		// frame; constant results of the other value are other exits.
		verdictSaysNil := func(b *ssa.BasicBlock, vf int) bool {
			for d := b; d != nil; d = d.Idom() {
				id := d.Idom()
				if id == nil {
					break
				}
				iff, ok := blockTerm(id).(*ssa.If)
				if !ok || len(id.Succs) != 2 || id.Succs[0] == id.Succs[1] || len(d.Preds) != 1 {
					continue
				}
				cond, neg := iff.Cond, false
				for {
					u, isU := cond.(*ssa.UnOp)
					if !isU || u.Op != token.NOT {
						break
					}
					cond, neg = u.X, !neg
				}
				call, isCall := cond.(*ssa.Call)
				if !isCall {
					continue
				}
				h := staticCallee(call)
				if h == nil || h.Blocks == nil || !w.IsProductFn(h) || !isBoolType(call.Type()) {
					continue
				}
				for si, s := range id.Succs {
					if s != d {
						continue
					}
					val := (si == 0) != neg // the helper's result on the edge into d
					nExits, all := 0, true
					for _, hb := range h.Blocks {
						r, isRet := blockTerm(hb).(*ssa.Return)
						if !isRet || len(r.Results) != 1 {
							continue
						}
						type exit struct {
							v  ssa.Value
							at *ssa.BasicBlock
						}
						exits := []exit{{r.Results[0], hb}}
						if p, isPhi := r.Results[0].(*ssa.Phi); isPhi && p.Block() == hb {
							exits = exits[:0]
							for i, e := range p.Edges {
								exits = append(exits, exit{e, hb.Preds[i]})
							}
						}
						for _, e := range exits {
							if k, isK := e.v.(*ssa.Const); isK && k.Value != nil && k.Value.Kind() == constant.Bool && constant.BoolVal(k.Value) != val {
								continue
							}
							nExits++
							if !nilIn(e.at, vf) {
								all = false
							}
						}
					}
					if all && nExits > 0 {
						return true
					}
				}
			}
			return false
		}
		// control is in one of the blocks only after both nil tests — or the function is entered only from such places
		var guardedAt func(fn *ssa.Function, blocks []*ssa.BasicBlock, depth int) bool
		guardedAt = func(fn *ssa.Function, blocks []*ssa.BasicBlock, depth int) bool {
			all := true
			for _, vf := range []int{f1, f2} {
				g := false
				for _, b := range blocks {
					if b.Parent() == fn {
						if c05ReachedOnlyWithNil(b, isSrc(vf)) || verdictSaysNil(b, vf) {
							g = true
						}
						continue
					}
					// A block of a helper the stored value was selected in (the helper chooses the validator, the
					// storing function stores what it returns): the helper's own options parameter was tested nil in
					// the invocation whose result is stored. That parameter holds the caller's options only if the
					// call sites hand them on: the parameter is marked as carrying the tested field, which puts the
					// calls of the helper under the forwarding rule (2).
					if nilIn(b, vf) {
						g = true
					}
				}
				all = all && g
			}
			if all {
				return true
			}
			sites, closed := c05CallSites(w, fn)
			if !closed || len(sites) == 0 || depth <= 0 {
				return false
			}
			for _, s := range sites {
				if !guardedAt(s.Parent(), []*ssa.BasicBlock{s.Block()}, depth-1) {
					return false
				}
			}
			return true
		}
		nDefaults := 0
		for _, fs := range fieldStores {
			fn := fs.st.Parent()
			key := "constructor/default-yields/" + fnName(fn)
			okAll := true
			for _, lf := range fs.leaves {
				if lf.zero {
					continue // nil: not a validator (constructor/<fn> decides whether an exit may leave both fields nil)
				}
				if p, isP := lf.v.(*ssa.Parameter); isP && len(lf.path) == 1 && c05OptStruct(w, p.Type()) != nil {
					continue // the caller's
				}
				c.Evals++
				nDefaults++
				if guardedAt(fn, append(append([]*ssa.BasicBlock(nil), lf.via...), fs.st.Block()), 2) {
					continue
				}
				okAll = false
				c.Bad(key, rule, w.InstrPos(fs.st), fmt.Sprintf("%s stores %s into the verifier field %s on a path on which the caller's validator and client were not both found nil", fnName(fn), desc(lf.v), fieldName(fs.st.Addr.(*ssa.FieldAddr).X.Type(), fs.st.Addr.(*ssa.FieldAddr).Field)))
				break
			}
			if okAll {
				c.OK(key, rule, w.InstrPos(fs.st))
			}
		}
		if nDefaults == 0 {
			c.Unk("constructor/default-yields", rule, w.FnPos(R), "vacuity guard: no default value is stored into the verifier's code-signing validator / client field: the rule no longer matches the code it was written for")
		}
	}

	// (2) forwarding, to a fixpoint: a parameter from which a forwarded field is read carries that field in turn
	fwdRule := "forwarding: a function that was handed the caller's options struct and passes options on towards the verifier passes, in every field the code-signing validator / client is read from, " +
		"its own parameter's value of that field (or another parameter of its own that overrides it, or a default selected only where its parameter's validator and client fields were tested nil); a field left at its zero value or set from anything else loses the validator the caller supplied"
	type siteKey struct {
		call  *ssa.Call
		arg   int
		field int
	}
	type verdict struct {
		fn     *ssa.Function
		status string
		detail string
	}
	done := map[siteKey]verdict{}
	var order []siteKey
	inFrame := func(p *ssa.Parameter, fn *ssa.Function) bool {
		for f := fn; f != nil; f = f.Parent() {
			if p.Parent() == f {
				return true
			}
		}
		return false
	}
	hasOptions := func(fn *ssa.Function, T *types.Named) bool {
		for f := fn; f != nil; f = f.Parent() {
			for _, p := range f.Params {
				if n := c05OptStruct(w, p.Type()); n != nil && types.Identical(n, T) {
					return true
				}
			}
		}
		return false
	}
	for changed, round := true, 0; changed && round < 8; round++ {
		changed = false
		done, order = map[siteKey]verdict{}, nil // the verdicts of the last round stand: it knows every field a parameter carries
		for _, fn := range w.Funcs {
			for _, ci := range allCalls(fn) {
				call, ok := ci.(*ssa.Call)
				if !ok {
					continue
				}
				g := staticCallee(call)
				if g == nil || g.Blocks == nil || len(call.Call.Args) != len(g.Params) {
					continue
				}
				for i, gp := range g.Params {
					if len(carries[gp]) == 0 {
						continue
					}
					T := c05OptStruct(w, gp.Type())
					if T == nil || !hasOptions(fn, T) {
						continue // fn was not handed any options of the caller: what it passes is its own configuration
					}
					var fields []int
					for f := range carries[gp] {
						fields = append(fields, f)
					}
					c05SortInts(fields)
					for _, f := range fields {
						k := siteKey{call, i, f}
						if _, seen := done[k]; seen {
							continue
						}
						stop := func(p *ssa.Parameter, _ []int) bool { return inFrame(p, fn) }
						wk := &c05OptWalk{w: w, seen: map[c05SeenKey]bool{}, stop: stop}
						var ls []c05OptLeaf
						var ok bool
						if _, isPtr := call.Call.Args[i].Type().Underlying().(*types.Pointer); isPtr {
							ls, ok = wk.deref(call.Call.Args[i], []int{f}, call, nil, nil, 8)
						} else {
							ls, ok = wk.leaves(call.Call.Args[i], []int{f}, nil, nil, 8)
						}
						c.Evals++
						c.SeenFn(fn.String())
						name := T.Obj().Name() + "." + fieldName(T, f)
						what := fmt.Sprintf("%s passes options to %s", fnName(fn), fnName(g))
						if !ok || len(ls) == 0 {
							done[k] = verdict{fn, Undecided, what + ": how the field " + name + " of the options passed (" + desc(call.Call.Args[i]) + ") is filled in was not followed to its sources"}
							order = append(order, k)
							continue
						}
						// a value found nil by a branch is the caller's own field: every source of it is p.f
						isOwn := func(f int) func(v ssa.Value) bool {
							return func(v ssa.Value) bool {
								wk2 := &c05OptWalk{w: w, seen: map[c05SeenKey]bool{}, stop: stop}
								l2, ok := wk2.leaves(v, nil, nil, nil, 8)
								if !ok || len(l2) == 0 {
									return false
								}
								for _, lf := range l2 {
									p, isP := lf.v.(*ssa.Parameter)
									if !isP || len(lf.path) != 1 || lf.path[0] != f {
										return false
									}
									if n := c05OptStruct(w, p.Type()); n == nil || !types.Identical(n, T) {
										return false
									}
								}
								return true
							}
						}
						v := verdict{fn, Discharged, ""}
						for _, lf := range ls {
							if p, isP := lf.v.(*ssa.Parameter); isP && !lf.zero && inFrame(p, fn) {
								if len(lf.path) == 0 {
									continue // overridden by a parameter of its own
								}
								if n := c05OptStruct(w, p.Type()); n != nil && types.Identical(n, T) && len(lf.path) == 1 && lf.path[0] == f {
									if mark(p, f) {
										changed = true
									}
									continue
								}
							}
							// a default: selected only where every revocation field of the caller's options that is handed on
							// here was found nil (a default validator put next to the caller's client would be preferred to it)
							guarded := true
							for _, ff := range fields {
								g := false
								for _, b := range lf.via {
									if b.Parent() == fn && c05ReachedOnlyWithNil(b, isOwn(ff)) {
										g = true
									}
								}
								guarded = guarded && g
							}
							if guarded {
								continue
							}
							v.status = Violated
							switch {
							case lf.zero:
								how := "is left at its zero value"
								if _, isK := lf.v.(*ssa.Const); isK {
									how = "is set to " + desc(lf.v)
								}
								v.detail = what + " in which the field " + name + " " + how + ": the value the caller supplied in that field never reaches the verifier (a default validator is installed instead)"
							case len(lf.path) > 0:
								v.detail = what + " in which the field " + name + " is read from " + desc(lf.v) + "." + fieldName(lf.v.Type(), lf.path[0]) + " instead of the same field of its own options parameter"
							default:
								v.detail = what + " in which the field " + name + " may be " + desc(lf.v) + ", which is neither its own options parameter's value of that field nor a default chosen where the caller's validator and client are nil"
							}
							break
						}
						done[k] = v
						order = append(order, k)
					}
				}
			}
		}
	}
	for _, k := range order {
		v := done[k]
		key := "constructor/options-forwarded/" + fnName(v.fn)
		switch v.status {
		case Discharged:
			c.OK(key, fwdRule, w.InstrPos(k.call))
		case Undecided:
			c.Unk(key, fwdRule, w.InstrPos(k.call), v.detail)
		default:
			c.Bad(key, fwdRule, w.InstrPos(k.call), v.detail)
		}
	}
	c.MinCount("constructor/options-forwarded", 1, "functions that hand the caller's revocation options on towards the verifier (the deprecated constructors, the general constructor)")
}

func c05SortInts(s []int) {
	for i := 1; i < len(s); i++ {
		for j := i; j > 0 && s[j] < s[j-1]; j-- {
			s[j], s[j-1] = s[j-1], s[j]
		}
	}
}

// ---- constructor/<fn> composed through helpers ---------------------------------------------------
//
// constructor/<fn> says: a function that configures the code-signing revocation fields of a verifier cannot succeed
// without having put a non-nil validator or client into one of them. It is decided on *store points*: places such that
// control that has passed them has stored a non-nil value into one of the two fields. With the edges into the store
// points removed no success exit may remain reachable. A store point is
//
//   (1) a store of a value that is provably non-nil where it is stored (a nil test dominates it, a conversion, …), or of
//       the value of a call into a dependency whose error was found nil on every path to the store (the constructor of
//       the default validator; trusted to return a validator with a nil error), or a phi of such values;
//   (2) a store of the k-th result of a module function h after h's error was found nil, when on every exit of h that
//       can carry a nil error the k-th result is such a value in h's frame (c05Ctor.retNonNil): the helper chooses or
//       builds the validator, the caller stores it. For two stores of two results of one call into the two fields (the
//       helper returns the pair validator / client) it is enough that on every such exit one of the two is non-nil: the
//       store point is where both stores have been executed;
//   (3) a call of a module function g that hands g a verifier (receiver or argument i), when every success exit of g has
//       passed a store point of g that stores into that very parameter (c05Ctor.sum(g, i).always): the store point is
//       the edge on which the call's error is found nil, and a return that forwards the call's error is no success exit
//       of its own (it succeeds iff g did, and then g has stored); for a g without an error result that has passed a
//       store point on every path to every return, the store point is the call itself. A store of g's own parameter's
//       value counts in g when the argument of the call is provably non-nil at the call.
//
// The obligation is raised for every function that stores the fields itself or calls a module function that stores them
// into a verifier it is handed: with the stores moved into helpers the function that chooses between them is still
// held to the rule. What is not recognised (an error carried through a variable to a later test, a closure) is no
// store point: the alarm stays.

type c05CtorKey struct {
	fn *ssa.Function
	i  int
}

type c05CtorSum struct {
	configures bool         // fn stores the fields into parameter i (itself or through what it calls with it)
	always     bool         // every success exit (every return of a function without error result) has passed a store point into parameter i
	need       map[int]bool // parameters of fn assumed non-nil by the store points counted (judged at the call)
	// for a function whose single result is a boolean: every exit that can return false / true has passed a store point
	alwaysBool [2]bool
}

type c05Ctor struct {
	w      *World
	t      string
	f1, f2 int
	memo   map[c05CtorKey]*c05CtorSum
	busy   map[c05CtorKey]bool
	retM   map[string]int
}

func c05HasErrResult(fn *ssa.Function) bool {
	n := fn.Signature.Results().Len()
	return n > 0 && isErrorType(fn.Signature.Results().At(n-1).Type())
}

func c05CutInto(b *ssa.BasicBlock, cut map[edgeKey]bool) {
	for _, p := range b.Preds {
		for j, s := range p.Succs {
			if s == b {
				cut[edgeKey{p.Index, j}] = true
			}
		}
	}
}

// guards: the facts that hold on every path from the entry to block b.
func c05BlockGuards(fi *FnInfo, b *ssa.BasicBlock) map[string]string {
	if len(b.Instrs) == 0 {
		return nil
	}
	return fi.GuardsOf(b.Instrs[0])
}

// errChecked: the call has no error result, or its error was found nil on every path to block b.
func c05ErrChecked(fi *FnInfo, call *ssa.Call, b *ssa.BasicBlock) bool {
	var last types.Type
	switch t := call.Type().(type) {
	case *types.Tuple:
		if t.Len() == 0 {
			return true
		}
		last = t.At(t.Len() - 1).Type()
	default:
		last = t
	}
	if !isErrorType(last) {
		return true
	}
	return labelHas(c05BlockGuards(fi, b), "EQ("+descTailErr(call)+",nil)")
}

func c05ResultIndex(v ssa.Value) int {
	if e, ok := v.(*ssa.Extract); ok {
		return e.Index
	}
	return 0
}

// good: v is a non-nil validator / client when control is in block b (clauses 1 and 2). need collects the parameters
// of the function assumed non-nil (only when params is set).
func (x *c05Ctor) good(fi *FnInfo, v ssa.Value, b *ssa.BasicBlock, params bool, need map[int]bool, depth int) bool {
	if fi.nonNil(v, b) {
		return true
	}
	if depth <= 0 {
		return false
	}
	switch y := v.(type) {
	case *ssa.Parameter:
		if i := c05ParamIndex(y); params && i >= 0 && y.Parent() == fi.Fn {
			need[i] = true
			return true
		}
	case *ssa.ChangeInterface:
		return x.good(fi, y.X, b, params, need, depth)
	case *ssa.Phi:
		for i, e := range y.Edges {
			if e == v {
				continue
			}
			if !x.good(fi, e, y.Block().Preds[i], params, need, depth-1) {
				return false
			}
		}
		return len(y.Edges) > 0
	case *ssa.Call, *ssa.Extract:
		call := callOf(v)
		if call == nil || !c05ErrChecked(fi, call, b) {
			return false
		}
		if g := staticCallee(call); g != nil && g.Blocks != nil && x.w.IsProductFn(g) {
			return x.retNonNil(g, []int{c05ResultIndex(v)}, depth-1)
		}
		// a call out of the module: the value of a constructor whose error was checked
		_, isExtract := v.(*ssa.Extract)
		return isExtract && isErrorType(lastResultType(call))
	}
	return false
}

func lastResultType(call *ssa.Call) types.Type {
	if t, ok := call.Type().(*types.Tuple); ok {
		if t.Len() == 0 {
			return nil
		}
		return t.At(t.Len() - 1).Type()
	}
	return call.Type()
}

// retNonNil: on every exit of the module function h that can carry a nil error (every exit, if h has no error result)
// one of the results ks is a non-nil value in h's frame: provably non-nil, or the value of a call whose error is the
// error h returns on that exit / was found nil on every path to it (a dependency's constructor, or a module function
// of which the same holds).
func (x *c05Ctor) retNonNil(h *ssa.Function, ks []int, depth int) bool {
	key := fmt.Sprintf("%p|%v", h, ks)
	if r, ok := x.retM[key]; ok {
		return r == 1 // in progress: no
	}
	x.retM[key] = 0
	r := x.retNonNil1(h, ks, depth)
	if r {
		x.retM[key] = 1
	} else {
		x.retM[key] = 2
	}
	return r
}

func (x *c05Ctor) retNonNil1(h *ssa.Function, ks []int, depth int) bool {
	if depth <= 0 {
		return false
	}
	fi := x.w.Info(h)
	hasErr := c05HasErrResult(h)
	nret := 0
	for _, b := range h.Blocks {
		r, ok := blockTerm(b).(*ssa.Return)
		if !ok {
			continue
		}
		nret++
		// the exits of this return: one per incoming edge when an operand is a phi of the return block
		edges := []int{-1}
		for _, v := range r.Results {
			if p, ok := v.(*ssa.Phi); ok && p.Block() == b {
				edges = edges[:0]
				for i := range b.Preds {
					edges = append(edges, i)
				}
				break
			}
		}
		for _, ei := range edges {
			at := b
			pick := func(v ssa.Value) ssa.Value {
				if p, ok := v.(*ssa.Phi); ok && p.Block() == b && ei >= 0 {
					return p.Edges[ei]
				}
				return v
			}
			if ei >= 0 {
				at = b.Preds[ei]
			}
			var ev ssa.Value
			if hasErr {
				ev = pick(r.Results[len(r.Results)-1])
				if !isNilConst(ev) && fi.nonNil(ev, at) {
					continue // a failing exit
				}
			}
			okExit := false
			for _, k := range ks {
				if k >= len(r.Results) {
					return false
				}
				v := pick(r.Results[k])
				if fi.nonNil(v, at) {
					okExit = true
					break
				}
				call := callOf(v)
				if call == nil {
					continue
				}
				// the error of the call is what this exit returns as its error, or was found nil before
				forwarded := ev != nil && callOf(ev) == call && isErrorType(ev.Type()) && ev != v
				if !forwarded && !c05ErrChecked(fi, call, at) {
					continue
				}
				if g := staticCallee(call); g != nil && g.Blocks != nil && x.w.IsProductFn(g) {
					if x.retNonNil(g, []int{c05ResultIndex(v)}, depth-1) {
						okExit = true
						break
					}
					continue
				}
				if _, isExtract := v.(*ssa.Extract); isExtract && isErrorType(lastResultType(call)) {
					okExit = true
					break
				}
			}
			if !okExit {
				return false
			}
		}
	}
	return nret > 0
}

// isField: st stores into one of the two fields; base: the object (canonical pointer).
func (x *c05Ctor) isField(st *ssa.Store) (base ssa.Value, field int, ok bool) {
	fa, isFA := st.Addr.(*ssa.FieldAddr)
	if !isFA || namedOf(fa.X.Type()) != x.t || (fa.Field != x.f1 && fa.Field != x.f2) {
		return nil, -1, false
	}
	return canonPtr(fa.X), fa.Field, true
}

type c05Points struct {
	cut      map[edgeKey]bool
	tails    map[*ssa.Call]bool
	entry    bool // a store point lies in the entry block: every path has passed it
	need     map[int]bool
	stores   bool // a store of the fields / a call of a function that stores them was seen (whatever its value)
	okVals   bool
	nPoints  int
	calledFn []*ssa.Function
}

// points: the store points of fn. sel restricts them to stores into (calls that hand on) the object sel accepts
// (nil: any object); params: a store of fn's own parameter's value counts, the parameter is recorded in need.
func (x *c05Ctor) points(fn *ssa.Function, sel func(ssa.Value) bool, params bool) *c05Points {
	fi := x.w.Info(fn)
	pt := &c05Points{cut: map[edgeKey]bool{}, tails: map[*ssa.Call]bool{}, need: map[int]bool{}, okVals: true}
	at := func(b *ssa.BasicBlock) {
		pt.nPoints++
		if b.Index == 0 {
			pt.entry = true
			return
		}
		c05CutInto(b, pt.cut)
	}
	type pending struct {
		st   *ssa.Store
		base ssa.Value
		f    int
	}
	var open []pending
	for _, b := range fn.Blocks {
		for _, in := range b.Instrs {
			switch y := in.(type) {
			case *ssa.Store:
				base, f, ok := x.isField(y)
				if !ok {
					continue
				}
				if sel != nil && !sel(base) {
					continue
				}
				pt.stores = true
				if x.good(fi, y.Val, b, params, pt.need, 4) {
					at(b)
				} else {
					pt.okVals = false
					open = append(open, pending{y, base, f})
				}
			case *ssa.Call:
				g := staticCallee(y)
				if g == nil || g.Blocks == nil || !x.w.IsProductFn(g) || len(y.Call.Args) != len(g.Params) {
					continue
				}
				for i, a := range y.Call.Args {
					if namedOf(a.Type()) != x.t {
						continue
					}
					if sel != nil && !sel(canonPtr(a)) {
						continue
					}
					s := x.sum(g, i)
					if !s.configures {
						continue
					}
					pt.stores = true
					pt.calledFn = append(pt.calledFn, g)
					argsOK := true
					for q := range s.need {
						if q >= len(y.Call.Args) || !fi.nonNil(y.Call.Args[q], b) {
							argsOK = false
						}
					}
					if !argsOK {
						continue
					}
					// a helper that reports by a boolean what it did: the edges on which the call's result is the value
					// that every exit of the helper returns only after a store point
					if s.alwaysBool[0] || s.alwaysBool[1] {
						for _, bb := range fn.Blocks {
							iff, ok := blockTerm(bb).(*ssa.If)
							if !ok || len(bb.Succs) != 2 {
								continue
							}
							cond, neg := iff.Cond, false
							for {
								u, isU := cond.(*ssa.UnOp)
								if !isU || u.Op != token.NOT {
									break
								}
								cond, neg = u.X, !neg
							}
							if cond != ssa.Value(y) {
								continue
							}
							for j := 0; j < 2; j++ {
								val := (j == 0) != neg // the call's result on this edge
								if (val && s.alwaysBool[1]) || (!val && s.alwaysBool[0]) {
									pt.cut[edgeKey{bb.Index, j}] = true
									pt.nPoints++
								}
							}
						}
						continue
					}
					if !s.always {
						continue
					}
					if !c05HasErrResult(g) {
						at(b)
						continue
					}
					// the edges on which this call's error is found nil; a return that forwards it
					errVals := map[ssa.Value]bool{}
					if isErrorType(y.Type()) {
						errVals[y] = true
					} else if refs := y.Referrers(); refs != nil {
						n := g.Signature.Results().Len()
						for _, r := range *refs {
							if e, ok := r.(*ssa.Extract); ok && e.Index == n-1 {
								errVals[e] = true
							}
						}
					}
					for _, bb := range fn.Blocks {
						iff, ok := blockTerm(bb).(*ssa.If)
						if !ok || len(bb.Succs) != 2 {
							continue
						}
						for j := 0; j < 2; j++ {
							if v := c05NilTested(iff.Cond, j == 0); v != nil && errVals[v] {
								pt.cut[edgeKey{bb.Index, j}] = true
								pt.nPoints++
							}
						}
					}
					pt.tails[y] = true
				}
			}
		}
	}
	// clause 2, the pair: two results of one call of a module helper stored into the two fields of one object
	for i := 0; i < len(open); i++ {
		for j := 0; j < len(open); j++ {
			a, b := open[i], open[j]
			if i == j || a.f == b.f || a.base != b.base {
				continue
			}
			ca, cb := callOf(a.st.Val), callOf(b.st.Val)
			if ca == nil || ca != cb {
				continue
			}
			g := staticCallee(ca)
			if g == nil || g.Blocks == nil || !x.w.IsProductFn(g) {
				continue
			}
			// b is executed after a on every path: the point is where b has been executed
			if !c05Before(a.st, b.st) || !c05ErrChecked(fi, ca, a.st.Block()) {
				continue
			}
			if _, isE := a.st.Val.(*ssa.Extract); !isE {
				continue
			}
			if _, isE := b.st.Val.(*ssa.Extract); !isE {
				continue
			}
			if x.retNonNil(g, []int{c05ResultIndex(a.st.Val), c05ResultIndex(b.st.Val)}, 4) && !c05StoredBetween(x, a.st, b.st) {
				at(b.st.Block())
			}
		}
	}
	return pt
}

// c05StoredBetween: another store into the field a writes lies in the blocks of a and b (the pair rule reads the two
// stores as one assignment; it is applied only when they are not interleaved with other writes of the same field).
func c05StoredBetween(x *c05Ctor, a, b *ssa.Store) bool {
	for _, blk := range []*ssa.BasicBlock{a.Block(), b.Block()} {
		for _, in := range blk.Instrs {
			st, ok := in.(*ssa.Store)
			if !ok || st == a || st == b {
				continue
			}
			if _, f, isF := x.isField(st); isF {
				fa := a.Addr.(*ssa.FieldAddr)
				if f == fa.Field && c05Before(a, st) {
					return true
				}
			}
		}
	}
	return false
}

// succeedsWithout: a path from the entry to a success exit (mErr), or to any return of a function without an error
// result, that passes no store point.
func (x *c05Ctor) succeedsWithout(fn *ssa.Function, pt *c05Points) []string {
	if pt.entry {
		return nil
	}
	fi := x.w.Info(fn)
	if c05HasErrResult(fn) {
		old := fi.ignoreTail
		fi.ignoreTail = pt.tails
		wit := fi.successWitness(Mode{Kind: mErr}, entryState(), pt.cut)
		fi.ignoreTail = old
		return wit
	}
	seen := map[int]bool{0: true}
	work := []*ssa.BasicBlock{fn.Blocks[0]}
	for len(work) > 0 {
		b := work[len(work)-1]
		work = work[:len(work)-1]
		if _, isRet := blockTerm(b).(*ssa.Return); isRet {
			return []string{fmt.Sprintf("b%d %s", b.Index, fi.blockPos(b))}
		}
		for j, s := range b.Succs {
			if pt.cut[edgeKey{b.Index, j}] || seen[s.Index] {
				continue
			}
			seen[s.Index] = true
			work = append(work, s)
		}
	}
	return nil
}

// sum: what a caller may assume of a call of fn that hands it a verifier as parameter i.
func (x *c05Ctor) sum(fn *ssa.Function, i int) *c05CtorSum {
	k := c05CtorKey{fn, i}
	if s, ok := x.memo[k]; ok {
		return s
	}
	if x.busy[k] || i < 0 || i >= len(fn.Params) || len(fn.Blocks) == 0 {
		return &c05CtorSum{}
	}
	x.busy[k] = true
	defer delete(x.busy, k)
	p := fn.Params[i]
	pt := x.points(fn, func(base ssa.Value) bool { return base == ssa.Value(p) }, true)
	s := &c05CtorSum{configures: pt.stores, need: pt.need}
	if res := fn.Signature.Results(); pt.stores && pt.nPoints > 0 && res.Len() == 1 && isBoolType(res.At(0).Type()) {
		fi := x.w.Info(fn)
		for k, want := range []bool{false, true} {
			s.alwaysBool[k] = pt.entry || fi.successWitness(Mode{Kind: mBool, Want: want}, entryState(), pt.cut) == nil
		}
	} else if pt.stores && pt.nPoints > 0 {
		s.always = x.succeedsWithout(fn, pt) == nil
	}
	x.memo[k] = s
	return s
}
