package main

// Helpers of the C05 rule set that decide obligations at another level than the
// text of the revocation function: through the call sites of an extracted
// helper (a value that is a parameter of the helper is judged at every call
// site), through the returns of a helper (a value that is the result of a
// module call is judged at every return of the callee), and on the SSA values
// instead of on their printed form.

import (
	"bytes"
	"fmt"
	"go/ast"
	"go/constant"
	"go/format"
	"go/token"
	"go/types"
	"math"
	"strconv"
	"strings"

	"golang.org/x/tools/go/ast/astutil"
	"golang.org/x/tools/go/ssa"
)

const c05ResultsType = "[]*github.com/notaryproject/notation-core-go/revocation/result.CertRevocationResult"

// c05IsAggregator: a product function with a []*result.CertRevocationResult parameter.
func c05IsAggregator(w *World, g *ssa.Function) bool {
	if g == nil || g.Blocks == nil || !w.IsProductFn(g) {
		return false
	}
	for i := 0; i < g.Signature.Params().Len(); i++ {
		if g.Signature.Params().At(i).Type().String() == c05ResultsType {
			return true
		}
	}
	return false
}

// c05CallSites returns the static call sites of fn in the product code. closed is
// false when fn may also be entered in a way the list does not show: it is
// exported, used as a value (method value, argument, closure binding), started by
// go/defer, or is a method that an interface call of the module may dispatch to.
// Only a closed list licenses "every caller passes …" arguments.
func c05CallSites(w *World, fn *ssa.Function) (sites []*ssa.Call, closed bool) {
	closed = fn.Parent() == nil && fn.Synthetic == "" && !token.IsExported(fn.Name())
	var recvT types.Type
	if r := fn.Signature.Recv(); r != nil {
		recvT = r.Type()
	}
	for _, g := range w.Funcs {
		for _, b := range g.Blocks {
			for _, in := range b.Instrs {
				if ci, ok := in.(ssa.CallInstruction); ok {
					com := ci.Common()
					if com.IsInvoke() {
						if recvT != nil && com.Method.Name() == fn.Name() {
							if it, ok := com.Value.Type().Underlying().(*types.Interface); ok && types.Implements(recvT, it) {
								closed = false
							}
						}
					} else if com.StaticCallee() == fn {
						if call, ok := in.(*ssa.Call); ok {
							sites = append(sites, call)
						} else {
							closed = false
						}
					}
					for _, a := range com.Args {
						if a == ssa.Value(fn) {
							closed = false
						}
					}
					continue
				}
				for _, op := range in.Operands(nil) {
					if op != nil && *op == ssa.Value(fn) {
						closed = false
					}
				}
				if mc, ok := in.(*ssa.MakeClosure); ok {
					// bound-method wrapper of fn
					if wf, ok := mc.Fn.(*ssa.Function); ok && wf.Synthetic != "" && strings.HasPrefix(wf.Name(), fn.Name()+"$") {
						closed = false
					}
				}
			}
		}
	}
	return sites, closed
}

// c05Origins follows a value that is a parameter of an unexported helper to the
// arguments of all call sites of that helper (transitively). A value that is not
// such a parameter is its own origin. ok=false: the call sites are not all known.
func c05Origins(w *World, v ssa.Value, depth int) (out []ssa.Value, ok bool) {
	p, isParam := v.(*ssa.Parameter)
	if !isParam {
		return []ssa.Value{v}, true
	}
	fn := p.Parent()
	sites, closed := c05CallSites(w, fn)
	if !closed || len(sites) == 0 {
		// an entry point: the parameter itself is the origin
		return []ssa.Value{v}, true
	}
	if depth <= 0 {
		return nil, false
	}
	idx := -1
	for i, q := range fn.Params {
		if q == p {
			idx = i
		}
	}
	for _, s := range sites {
		if idx < 0 || idx >= len(s.Call.Args) {
			return nil, false
		}
		o, ok := c05Origins(w, s.Call.Args[idx], depth-1)
		if !ok {
			return nil, false
		}
		out = append(out, o...)
	}
	return out, true
}

// c05Lift rewrites a label/description rendered in the frame of fn into the frame
// of R by substituting, at every call site on the way, the helper's parameters by
// the descriptions of the arguments (what the engine does when it composes
// summaries). One rendering per chain of call sites; nil if fn is not reached from R
// by static calls only.
func c05Lift(w *World, label string, fn, R *ssa.Function, depth int) []string {
	if fn == R {
		return []string{label}
	}
	if depth <= 0 {
		return nil
	}
	sites, closed := c05CallSites(w, fn)
	if !closed {
		return nil
	}
	var out []string
	for _, s := range sites {
		if len(s.Call.Args) != len(fn.Params) {
			return nil
		}
		names := make([]string, len(fn.Params))
		descs := make([]string, len(fn.Params))
		for i, p := range fn.Params {
			names[i] = p.Name()
			descs[i] = desc(s.Call.Args[i])
		}
		up := c05Lift(w, substParams(label, names, descs), s.Parent(), R, depth-1)
		if up == nil {
			return nil
		}
		out = append(out, up...)
	}
	return out
}

// c05Carry decides which validator calls' k-th result (k = 0: the per-certificate
// results, k = 1: the error) a value hands on unchanged: the Extract itself, a phi
// of carriers, or the corresponding result of a module helper every return of which
// yields a carrier. A return of the helper that delivers a provably non-nil error of
// its own is a failing exit of the helper (it adds no validator, and the caller's
// error test covers it). ok=false: the value may be something else.
type c05Carry struct {
	w      *World
	vc, vv *ssa.Call
}

func (x *c05Carry) of(v ssa.Value, k int, depth int, seen map[ssa.Value]bool) (map[*ssa.Call]bool, bool) {
	if depth <= 0 {
		return nil, false
	}
	out := map[*ssa.Call]bool{}
	switch t := v.(type) {
	case *ssa.Extract:
		call, ok := t.Tuple.(*ssa.Call)
		if !ok {
			return nil, false
		}
		if call == x.vc || call == x.vv {
			if t.Index != k {
				return nil, false
			}
			out[call] = true
			return out, true
		}
		g := staticCallee(call)
		if g == nil || g.Blocks == nil || !x.w.IsProductFn(g) {
			return nil, false
		}
		gi := x.w.Info(g)
		n := 0
		for _, b := range g.Blocks {
			r, ok := blockTerm(b).(*ssa.Return)
			if !ok || t.Index >= len(r.Results) {
				continue
			}
			last := r.Results[len(r.Results)-1]
			failing := isErrorType(last.Type()) && gi.nonNil(last, b)
			s, ok := x.of(r.Results[t.Index], k, depth-1, seen)
			if !ok {
				if failing {
					// a failing exit of the helper: its error is non-nil (the caller's error test, which
					// result/validator-error requires on every success path, covers it), and the value
					// delivered next to it is not used on a success path
					continue
				}
				return nil, false
			}
			for c := range s {
				out[c] = true
			}
			n++
		}
		return out, n > 0
	case *ssa.Phi:
		if seen[t] {
			return out, true
		}
		seen[t] = true
		for _, e := range t.Edges {
			s, ok := x.of(e, k, depth, seen)
			if !ok {
				return nil, false
			}
			for c := range s {
				out[c] = true
			}
		}
		return out, true
	}
	return nil, false
}

func (x *c05Carry) both(v ssa.Value, k int) bool {
	s, ok := x.of(v, k, 4, map[ssa.Value]bool{})
	return ok && len(s) == 2 && s[x.vc] && s[x.vv]
}

// c05NilEdges: the If edges of fn on which one of the given values is known to be
// nil (`v == nil` true edge, `v != nil` false edge, through negations), as labels.
func c05NilEdges(fi *FnInfo, vals map[ssa.Value]bool) []string {
	var out []string
	for _, b := range fi.Fn.Blocks {
		iff, ok := blockTerm(b).(*ssa.If)
		if !ok || len(b.Succs) != 2 {
			continue
		}
		cond := iff.Cond
		flip := false
		for {
			u, ok := cond.(*ssa.UnOp)
			if !ok || u.Op != token.NOT {
				break
			}
			flip = !flip
			cond = u.X
		}
		bo, ok := cond.(*ssa.BinOp)
		if !ok || (bo.Op != token.EQL && bo.Op != token.NEQ) {
			continue
		}
		var o ssa.Value
		if isNilConst(bo.Y) {
			o = bo.X
		} else if isNilConst(bo.X) {
			o = bo.Y
		}
		if o == nil || !vals[o] {
			continue
		}
		truth := (bo.Op == token.EQL) != flip
		out = append(out, condLabel(iff.Cond, truth))
	}
	return out
}

// c05FailingPhiEdges finds CFG edges all of whose continuations end in a failing
// exit under the object mode (result k is an object with an error field):
//
//	b:  p = phi [pred_0: e_0, …]          (error-typed)
//	    obj = new T; …; obj.Error = p     (the last store to that field, no call after it)
//	    return …, obj, …
//
// Every path that enters b through pred_i with e_i provably non-nil executes the
// store and returns obj with a non-nil Error: it is no success path. Removing these
// edges from the graph therefore removes no success path, and the must-pass facts
// computed on the remaining graph are facts of every success path. (The engine
// itself classifies such an exit by the stored value as a whole and, the phi having a
// nil edge, calls the exit success-capable on all incoming edges.)
func c05FailingPhiEdges(fi *FnInfo, k int) map[edgeKey]bool {
	cut := map[edgeKey]bool{}
	for _, b := range fi.Fn.Blocks {
		for _, in := range b.Instrs {
			switch in.(type) {
			case *ssa.Defer, *ssa.Go:
				return cut // a deferred or concurrent function could still write the field: nothing is removed
			}
		}
	}
	for _, b := range fi.Fn.Blocks {
		r, ok := blockTerm(b).(*ssa.Return)
		if !ok || k >= len(r.Results) {
			continue
		}
		al, ok := r.Results[k].(*ssa.Alloc)
		if !ok || al.Referrers() == nil {
			continue
		}
		ef := errFieldOf(al.Type())
		if ef < 0 {
			continue
		}
		var last *ssa.Store
		lastIdx := -1
		clean := true
		for _, ref := range *al.Referrers() {
			fa, ok := ref.(*ssa.FieldAddr)
			if !ok || fa.Field != ef || fa.Referrers() == nil {
				continue
			}
			for _, u := range *fa.Referrers() {
				st, ok := u.(*ssa.Store)
				if !ok || st.Addr != fa {
					clean = false // the field's address is used otherwise
					continue
				}
				if st.Block() != b {
					continue // an earlier store: overwritten by the one in b
				}
				if i := instrIndex(st); i > lastIdx {
					last, lastIdx = st, i
				}
			}
		}
		if !clean || last == nil {
			continue
		}
		for _, in := range b.Instrs[lastIdx+1:] {
			if _, isCall := in.(ssa.CallInstruction); isCall {
				clean = false
			}
		}
		p, ok := last.Val.(*ssa.Phi)
		if !clean || !ok || p.Block() != b {
			continue
		}
		for i, e := range p.Edges {
			pred := b.Preds[i]
			if !fi.nonNil(e, pred) {
				continue
			}
			n, j := 0, -1
			for sj, s := range pred.Succs {
				if s == b {
					n++
					j = sj
				}
			}
			if n == 1 {
				cut[edgeKey{pred.Index, j}] = true
			}
		}
	}
	return cut
}

// c05Leaf is a value that may flow into the signing-time operand, with the frames
// (function, block at whose end the value is selected) it was reached through.
type c05Leaf struct {
	v      ssa.Value
	frames []c05Frame
}

type c05Frame struct {
	fn *ssa.Function
	at *ssa.BasicBlock
}

// c05Leaves enumerates the sources of v: through phis (any number of edges), up
// through a helper's parameter to the arguments of all its call sites, and down
// through a module call to the operands of the callee's returns.
func c05Leaves(w *World, v ssa.Value, frames []c05Frame, depth int, seen map[ssa.Value]bool) (out []c05Leaf, ok bool) {
	if depth <= 0 {
		return nil, false
	}
	with := func(f c05Frame, replaceLast bool) []c05Frame {
		n := append([]c05Frame(nil), frames...)
		if replaceLast && len(n) > 0 {
			n[len(n)-1] = f
		} else {
			n = append(n, f)
		}
		return n
	}
	switch x := v.(type) {
	case *ssa.Phi:
		if seen[x] {
			return nil, true
		}
		seen[x] = true
		for i, e := range x.Edges {
			if e == v {
				continue
			}
			l, ok := c05Leaves(w, e, with(c05Frame{x.Parent(), x.Block().Preds[i]}, true), depth, seen)
			if !ok {
				return nil, false
			}
			out = append(out, l...)
		}
		return out, true
	case *ssa.Parameter:
		fn := x.Parent()
		sites, closed := c05CallSites(w, fn)
		if !closed || len(sites) == 0 {
			break
		}
		idx := -1
		for i, q := range fn.Params {
			if q == x {
				idx = i
			}
		}
		for _, s := range sites {
			if idx < 0 || idx >= len(s.Call.Args) {
				return nil, false
			}
			// the guards inside the helper are dropped: only what holds at the call site is kept
			l, ok := c05Leaves(w, s.Call.Args[idx], []c05Frame{{s.Parent(), s.Block()}}, depth-1, seen)
			if !ok {
				return nil, false
			}
			out = append(out, l...)
		}
		return out, true
	case *ssa.Call, *ssa.Extract:
		call, k := callOf(v), 0
		if e, isE := v.(*ssa.Extract); isE {
			k = e.Index
		}
		g := staticCallee(call)
		if call == nil || g == nil || g.Blocks == nil || !w.IsProductFn(g) {
			break
		}
		n := 0
		for _, b := range g.Blocks {
			r, isRet := blockTerm(b).(*ssa.Return)
			if !isRet || k >= len(r.Results) {
				continue
			}
			l, ok := c05Leaves(w, r.Results[k], with(c05Frame{g, b}, false), depth-1, seen)
			if !ok {
				return nil, false
			}
			out = append(out, l...)
			n++
		}
		return out, n > 0
	}
	return []c05Leaf{{v, frames}}, true
}

// ---- index tags -------------------------------------------------------------------
//
// An aggregator may remember *where* a certificate of some class was seen instead of
// what was seen there (`if bad { k = i }` … after the loop `results[k].Result`,
// `chain[k].Subject`). The abstract interpreter's domain is extended, inside AVal, by
//
//	tag(v): "a valid index j of the results slice, visited by the loop, with results[j].Result == v"
//	current: "the index of the running iteration" (inert: no comparison is decided on it)
//
// `current` becomes tag(input of the iteration) when it is carried over the back edge.
// What a tag licenses: j >= 0 (comparisons with constants are decided on [0, +inf)), and
// a later load results[j].Result yields v. Both need that the loop only visits indices in
// range (aggregator/iterates-all, aggregator/length-agreement), that the index tagged is
// the one the input was read at (aggregator/same-index) and that nobody writes the
// results in between (aggregator/results-read-only).

const c05TagPrefix = "index-of-result:"

var c05TagCur = AVal{Kind: aStr, Str: c05TagPrefix + "current"}

func c05Tag(v int64) AVal { return AVal{Kind: aStr, Str: fmt.Sprintf("%s%d", c05TagPrefix, v)} }

func c05IsTag(a AVal) bool { return a.Kind == aStr && strings.HasPrefix(a.Str, c05TagPrefix) }

func c05TagClass(a AVal) (int64, bool) {
	if !c05IsTag(a) || a == c05TagCur {
		return 0, false
	}
	n, err := strconv.ParseInt(a.Str[len(c05TagPrefix):], 10, 64)
	return n, err == nil
}

// c05CmpIndex evaluates a BinOp one of whose operands is an index tag or a tracked plain
// int. handled=false: not such an operation (default evaluation applies).
func c05CmpIndex(bo *ssa.BinOp, env map[ssa.Value]AVal) (AVal, bool) {
	ax, ay := env[bo.X], env[bo.Y]
	plain := isPlainInt(bo.X.Type()) && isPlainInt(bo.Y.Type())
	if !(c05IsTag(ax) || c05IsTag(ay) || (plain && (ax.Kind == aInt || ay.Kind == aInt))) {
		return AVal{}, false
	}
	rng := func(v ssa.Value, a AVal) (lo, hi int64, ok bool) {
		if k, isK := v.(*ssa.Const); isK && k.Value != nil && k.Value.Kind() == constant.Int {
			if n, exact := constant.Int64Val(k.Value); exact {
				return n, n, true
			}
			return 0, 0, false
		}
		if _, isTag := c05TagClass(a); isTag {
			return 0, math.MaxInt64, true
		}
		if a.Kind == aInt {
			return a.Int, a.Int, true
		}
		return 0, 0, false
	}
	lx, hx, ok1 := rng(bo.X, ax)
	ly, hy, ok2 := rng(bo.Y, ay)
	if !ok1 || !ok2 {
		return top, true
	}
	yes, no := false, false
	switch bo.Op {
	case token.LSS:
		yes, no = hx < ly, lx >= hy
	case token.LEQ:
		yes, no = hx <= ly, lx > hy
	case token.GTR:
		yes, no = lx > hy, hx <= ly
	case token.GEQ:
		yes, no = lx >= hy, hx < ly
	case token.EQL:
		yes, no = lx == hx && ly == hy && lx == ly, hx < ly || hy < lx
	case token.NEQ:
		yes, no = hx < ly || hy < lx, lx == hx && ly == hy && lx == ly
	default:
		return top, true // arithmetic on an index: not tracked
	}
	switch {
	case yes:
		return AVal{Kind: aBool, B: true}, true
	case no:
		return AVal{Kind: aBool, B: false}, true
	}
	return top, true
}

// c05IndexOfLoad: in is `*(&(*(&slice[k])).F)`; returns k.
func c05IndexOfLoad(in ssa.Instruction, slice ssa.Value) ssa.Value {
	u, ok := in.(*ssa.UnOp)
	if !ok || u.Op != token.MUL {
		return nil
	}
	fa, ok := u.X.(*ssa.FieldAddr)
	if !ok {
		return nil
	}
	el, ok := fa.X.(*ssa.UnOp)
	if !ok || el.Op != token.MUL {
		return nil
	}
	ia, ok := el.X.(*ssa.IndexAddr)
	if !ok || ia.X != slice {
		return nil
	}
	return ia.Index
}

// c05WritesResults lists the instructions of fn and of the product functions it reaches that
// store to the Result field of a CertRevocationResult or to an element of a
// []*CertRevocationResult.
func c05WritesResults(w *World, fn *ssa.Function) []ssa.Instruction {
	var out []ssa.Instruction
	for _, g := range w.moduleCallees(fn) {
		for _, b := range g.Blocks {
			for _, in := range b.Instrs {
				st, ok := in.(*ssa.Store)
				if !ok {
					continue
				}
				switch a := st.Addr.(type) {
				case *ssa.FieldAddr:
					if namedOf(a.X.Type()) == "core/revocation/result.CertRevocationResult" && fieldName(a.X.Type(), a.Field) == "Result" {
						out = append(out, in)
					}
				case *ssa.IndexAddr:
					if a.X.Type().String() == c05ResultsType {
						out = append(out, in)
					}
				}
			}
		}
	}
	return out
}

// c05PairedWithRevoked: the values returned as second result on the exits (phi edges of
// the return block, or the return itself) whose first result is the constant Revoked.
func c05PairedWithRevoked(r *ssa.Return, revoked int64) []ssa.Value {
	if len(r.Results) != 2 {
		return nil
	}
	isRev := func(v ssa.Value) bool {
		k, ok := v.(*ssa.Const)
		if !ok || k.Value == nil || k.Value.Kind() != constant.Int {
			return false
		}
		n, exact := constant.Int64Val(k.Value)
		return exact && n == revoked
	}
	if isRev(r.Results[0]) {
		return []ssa.Value{r.Results[1]}
	}
	p0, ok0 := r.Results[0].(*ssa.Phi)
	p1, ok1 := r.Results[1].(*ssa.Phi)
	if !ok0 || !ok1 || p0.Block() != r.Block() || p1.Block() != r.Block() {
		return nil
	}
	var out []ssa.Value
	for i, e := range p0.Edges {
		if isRev(e) {
			out = append(out, p1.Edges[i])
		}
	}
	return out
}

// c05ChainIndex: the index k of the (single) chain[k] element address v is computed from.
func c05ChainIndex(v ssa.Value, chain ssa.Value, depth int) ssa.Value {
	if depth <= 0 {
		return nil
	}
	if ia, ok := v.(*ssa.IndexAddr); ok {
		if ia.X == chain {
			return ia.Index
		}
		return nil
	}
	in, ok := v.(ssa.Instruction)
	if !ok {
		return nil
	}
	if _, isPhi := v.(*ssa.Phi); isPhi {
		return nil
	}
	var found ssa.Value
	for _, op := range in.Operands(nil) {
		if op == nil || *op == nil {
			continue
		}
		if k := c05ChainIndex(*op, chain, depth-1); k != nil {
			if found != nil && found != k {
				return nil
			}
			found = k
		}
	}
	return found
}

// c05Anchors finds R (the function that hands the validators' results to the aggregator), the
// aggregator A (by its []*result.CertRevocationResult parameter) and the two validator calls (by the
// interface method invoked — names of notation-core-go), in R itself or in a helper R reaches by
// static calls.
func c05Anchors(w *World) (R, A *ssa.Function, aCall, vcCall, vCall *ssa.Call, nCand int) {
	for _, fn := range w.FuncsOfPkg("verifier") {
		var ac *ssa.Call
		for _, ci := range allCalls(fn) {
			if call, ok := ci.(*ssa.Call); ok && c05IsAggregator(w, staticCallee(call)) {
				ac = call
			}
		}
		if ac == nil {
			continue
		}
		var vcs, vs []*ssa.Call
		for _, g := range w.moduleCallees(fn) {
			if g == staticCallee(ac) {
				continue
			}
			for _, ci := range allCalls(g) {
				call, ok := ci.(*ssa.Call)
				if !ok {
					continue
				}
				switch calleeName(call) {
				case "invoke:core/revocation.Revocation.Validate":
					vs = append(vs, call)
				case "invoke:core/revocation.Validator.ValidateContext":
					vcs = append(vcs, call)
				}
			}
		}
		if len(vcs) == 1 && len(vs) == 1 {
			R, A, aCall, vcCall, vCall = fn, staticCallee(ac), ac, vcs[0], vs[0]
			nCand++
		}
	}
	return
}

// ---- range-over-func loops over the standard slice iterators ---------------------------
//
// `for k, v := range slices.Backward(s) { B }` (resp. slices.All) is compiled into a closure
// that the iterator calls; the loop-carried variables become heap cells and the loop itself
// lives in the standard library. The loop rules (natural loop, header phis, fixpoint over the
// back edge) do not see such a loop. By the documented contract of the two iterators —
// Backward yields (i, s[i]) for i = len(s)-1 … 0, All for i = 0 … len(s)-1, each index once,
// stopping when the body breaks — the statement is equivalent to
//
//	for k := len(s) - 1; k >= 0; k-- { v := s[k]; B }      (Backward)
//	for k := 0; k < len(s); k++      { v := s[k]; B }      (All)
//
// provided s is a variable that is never assigned and whose address is never taken in the
// function (so len(s) and s[k] are the same in every iteration as at the call of the iterator;
// writes to elements are excluded by aggregator/results-read-only) and the body never assigns k
// (in the iterator form k is a copy, in the three-clause form it steers the loop). break/continue/return/defer
// and per-iteration variables mean the same in both forms. c05Desugar rewrites such loops of
// the aggregator in a copy of the loaded syntax, reloads the tree with that copy as overlay and
// returns the aggregator of the reloaded world, on which the unchanged loop rules are decided.
// Anything else (an iterator over an expression, another iterator) is left alone: the rules then
// report the loop as not recognised.
func c05Desugar(c *Ctx, A *ssa.Function) (*World, *ssa.Function) {
	w := c.W
	decl, ok := A.Syntax().(*ast.FuncDecl)
	if !ok || decl.Body == nil {
		return nil, nil
	}
	pkg, file := w.FileOf(decl.Pos())
	if pkg == nil || file == nil || pkg.TypesInfo == nil {
		return nil, nil
	}
	info := pkg.TypesInfo
	stable := func(obj types.Object) bool {
		ok := true
		same := func(e ast.Expr) bool {
			id, isID := ast.Unparen(e).(*ast.Ident)
			return isID && (info.Uses[id] == obj || info.Defs[id] == obj)
		}
		ast.Inspect(decl.Body, func(n ast.Node) bool {
			switch x := n.(type) {
			case *ast.AssignStmt:
				for _, l := range x.Lhs {
					if same(l) {
						ok = false
					}
				}
			case *ast.UnaryExpr:
				if x.Op == token.AND && same(x.X) {
					ok = false
				}
			case *ast.RangeStmt:
				if x.Tok == token.ASSIGN && ((x.Key != nil && same(x.Key)) || (x.Value != nil && same(x.Value))) {
					ok = false
				}
			case *ast.IncDecStmt:
				if same(x.X) {
					ok = false
				}
			}
			return true
		})
		return ok
	}
	type rewrite struct {
		from *ast.RangeStmt
		to   *ast.ForStmt
	}
	var rws []rewrite
	pkgIdent := ""
	fresh := 0
	ast.Inspect(decl.Body, func(n ast.Node) bool {
		rs, ok := n.(*ast.RangeStmt)
		if !ok || rs.Tok != token.DEFINE {
			return true
		}
		call, ok := ast.Unparen(rs.X).(*ast.CallExpr)
		if !ok || len(call.Args) != 1 || call.Ellipsis.IsValid() {
			return true
		}
		sel, ok := call.Fun.(*ast.SelectorExpr)
		if !ok {
			return true
		}
		f, ok := info.Uses[sel.Sel].(*types.Func)
		if !ok || f.Pkg() == nil || f.Pkg().Path() != "slices" || (f.Name() != "Backward" && f.Name() != "All") {
			return true
		}
		arg, ok := ast.Unparen(call.Args[0]).(*ast.Ident)
		if !ok {
			return true
		}
		obj, ok := info.Uses[arg].(*types.Var)
		if !ok || obj.Pkg() != pkg.Types || obj.Parent() == pkg.Types.Scope() || !stable(obj) {
			return true
		}
		if _, isSlice := obj.Type().Underlying().(*types.Slice); !isSlice {
			return true
		}
		for _, e := range []ast.Expr{rs.Key, rs.Value} {
			if v, ok := e.(*ast.Ident); ok && (v.Name == arg.Name || v.Name == "len") {
				return true // the loop variable would shadow the slice (or len) in the rewritten header
			}
		}
		if k, ok := rs.Key.(*ast.Ident); ok && k.Name != "_" {
			// the key of a range-over-func loop is a copy: assigning it does not steer the iteration, whereas in the
			// three-clause form it would
			if ko := info.Defs[k]; ko == nil || !stable(ko) {
				return true
			}
		}
		if x, ok := sel.X.(*ast.Ident); ok {
			pkgIdent = x.Name
		}
		id := func(name string) *ast.Ident { return ast.NewIdent(name) }
		key := ""
		if k, ok := rs.Key.(*ast.Ident); ok && k.Name != "_" {
			key = k.Name
		} else {
			fresh++
			key = fmt.Sprintf("c05RangeIndex%d", fresh)
		}
		lenS := &ast.CallExpr{Fun: id("len"), Args: []ast.Expr{id(arg.Name)}}
		fs := &ast.ForStmt{For: rs.For}
		if f.Name() == "Backward" {
			fs.Init = &ast.AssignStmt{Lhs: []ast.Expr{id(key)}, Tok: token.DEFINE, Rhs: []ast.Expr{&ast.BinaryExpr{X: lenS, Op: token.SUB, Y: &ast.BasicLit{Kind: token.INT, Value: "1"}}}}
			fs.Cond = &ast.BinaryExpr{X: id(key), Op: token.GEQ, Y: &ast.BasicLit{Kind: token.INT, Value: "0"}}
			fs.Post = &ast.IncDecStmt{X: id(key), Tok: token.DEC}
		} else {
			fs.Init = &ast.AssignStmt{Lhs: []ast.Expr{id(key)}, Tok: token.DEFINE, Rhs: []ast.Expr{&ast.BasicLit{Kind: token.INT, Value: "0"}}}
			fs.Cond = &ast.BinaryExpr{X: id(key), Op: token.LSS, Y: lenS}
			fs.Post = &ast.IncDecStmt{X: id(key), Tok: token.INC}
		}
		body := &ast.BlockStmt{Lbrace: rs.Body.Lbrace, Rbrace: rs.Body.Rbrace}
		if v, ok := rs.Value.(*ast.Ident); ok && v.Name != "_" {
			body.List = append(body.List, &ast.AssignStmt{Lhs: []ast.Expr{id(v.Name)}, Tok: token.DEFINE, Rhs: []ast.Expr{&ast.IndexExpr{X: id(arg.Name), Index: id(key)}}})
		}
		body.List = append(body.List, rs.Body.List...)
		fs.Body = body
		rws = append(rws, rewrite{rs, fs})
		return true
	})
	if len(rws) == 0 || pkgIdent == "" {
		return nil, nil
	}
	swap := func(forward bool) {
		astutil.Apply(decl, func(cur *astutil.Cursor) bool {
			for _, rw := range rws {
				if forward && cur.Node() == ast.Node(rw.from) {
					cur.Replace(rw.to)
				} else if !forward && cur.Node() == ast.Node(rw.to) {
					cur.Replace(rw.from)
				}
			}
			return true
		}, nil)
	}
	// print every loaded file of the root packages (the loaded syntax already contains any overlay the tree was
	// loaded with), the aggregator's file with the loops rewritten
	overlay := map[string][]byte{}
	swap(true)
	failed := false
	for _, p := range w.Pkgs {
		for _, f := range p.Syntax {
			tf := w.Fset.File(f.Pos())
			if tf == nil {
				continue
			}
			var buf bytes.Buffer
			if err := format.Node(&buf, w.Fset, f); err != nil {
				failed = true
				continue
			}
			if f == file {
				// keep the import of the iterator package used
				fmt.Fprintf(&buf, "\nvar _ = %s.All[[]int]\n", pkgIdent)
			}
			overlay[tf.Name()] = buf.Bytes()
		}
	}
	swap(false)
	if failed {
		return nil, nil
	}
	w2, err := LoadWorld(w.RepoDir, w.GOOS, w.GOARCH, overlay)
	if err != nil {
		c.Notes = append(c.Notes, "C05: the index-loop form of the aggregator's iterator loop could not be loaded: "+trunc(err.Error(), 300))
		return nil, nil
	}
	_, A2, _, _, _, n := c05Anchors(w2)
	if n != 1 || A2 == nil || A2.Name() != A.Name() || A2.Signature.String() != A.Signature.String() {
		return nil, nil
	}
	c.Notes = append(c.Notes, fmt.Sprintf("C05: %d range-over-func loop(s) over slices.Backward/slices.All in %s decided on the equivalent index loop", len(rws), fnName(A)))
	return w2, A2
}
