package main

// Helpers of the C06 rule set: the same clock obligations decided on shapes other than the one the reference tree uses.
//
//   - canonical time relations: Before / After / Compare spell one order relation;
//   - frames: a label is read in the frame of the function that owns the data (a read-only local snapshot is the value it
//     was taken from; a parameter of an unexported function with one caller is the caller's argument; a field of a struct
//     parameter is what the caller's literal stored into it; a captured variable is its binding);
//   - result objects whose error is a variable assigned on the branches (a phi stored into the error field at one exit);
//   - result objects built by a constructor function (a call of it is the literal it contains, arguments for parameters);
//   - result objects created up front whose error FIELD is assigned on the branches (c06Cell): the exit reports the reaching
//     definition of the field — one exit per definition, with the facts of the paths on which it is the last one;
//   - a disjunctive gate ("success only if A or B") whose facts are established by a helper or kept in a boolean local (c06Gate);
//   - the timestamp function split into helpers: the regime begins where it calls the helper that handles the
//     countersignature; the decision table is followed through the helpers that take part in the decision (c06Explorer);
//   - whole-chain scans: an inline loop, a module helper that contains the loop, or slices.IndexFunc / ContainsFunc with a
//     predicate — each yields "for every element of the chain these facts hold" on a set of edges; an index loop only if its
//     counter takes the values 0, 1, 2, ... (c06CountsFromZero); facts composed through a closure created in the function
//     name its captured variables, which are read as their read-only bindings (c06FreeSub).

import (
	"fmt"
	"go/constant"
	"go/token"
	"go/types"
	"sort"
	"strings"

	"golang.org/x/tools/go/ssa"
)

// ---------- canonical time relations ------------------------------------------------------------------------------

// c06TimeCallArgs: s is "call:(time.Time).<m>(a,b)"; returns a, b.
func c06TimeCallArgs(s, m string) (string, string, bool) {
	pre := "call:(time.Time)." + m + "("
	if !strings.HasPrefix(s, pre) || !strings.HasSuffix(s, ")") {
		return "", "", false
	}
	_, args := splitTopArgs("X(" + s[len(pre):len(s)-1] + ")")
	if len(args) != 2 {
		return "", "", false
	}
	return args[0], args[1], true
}

// c06Canon renders the fact of an edge that compares two instants as one of BEFORE(a,b) (a is strictly before b) and
// NOTBEFORE(a,b) (a is not before b), whatever the spelling:
//
//	a.Before(b) ≡ b.After(a) ≡ a.Compare(b) < 0 ≡ b.Compare(a) > 0      (package time: Compare returns -1, 0, +1)
//
// Any other label is returned unchanged. The relation is exact (no boundary is moved), so a rule stated on the canonical
// form decides the same clause as one stated on Before/After.
func c06Canon(l string) string {
	op, args := splitTopArgs(l)
	switch {
	case (op == "T" || op == "F") && len(args) == 1:
		if a, b, ok := c06TimeCallArgs(args[0], "Before"); ok {
			if op == "T" {
				return "BEFORE(" + a + "," + b + ")"
			}
			return "NOTBEFORE(" + a + "," + b + ")"
		}
		if a, b, ok := c06TimeCallArgs(args[0], "After"); ok {
			if op == "T" {
				return "BEFORE(" + b + "," + a + ")"
			}
			return "NOTBEFORE(" + b + "," + a + ")"
		}
	case len(args) == 2 && strings.HasPrefix(args[1], "const:"):
		a, b, ok := c06TimeCallArgs(args[0], "Compare")
		if !ok {
			return l
		}
		var k int64
		neg := strings.HasPrefix(args[1], "const:-")
		digits := strings.TrimPrefix(strings.TrimPrefix(args[1], "const:"), "-")
		if digits == "" || len(digits) > 9 {
			return l
		}
		for _, ch := range digits {
			if ch < '0' || ch > '9' {
				return l
			}
			k = k*10 + int64(ch-'0')
		}
		if neg {
			k = -k
		}
		var tok token.Token
		switch op {
		case "EQ":
			tok = token.EQL
		case "NE":
			tok = token.NEQ
		case "LT":
			tok = token.LSS
		case "LE":
			tok = token.LEQ
		case "GT":
			tok = token.GTR
		case "GE":
			tok = token.GEQ
		default:
			return l
		}
		var p [3]bool
		for i, v := range []int64{-1, 0, 1} {
			p[i], _ = cmpInt(tok, v, k)
		}
		switch p {
		case [3]bool{true, false, false}:
			return "BEFORE(" + a + "," + b + ")"
		case [3]bool{false, true, true}:
			return "NOTBEFORE(" + a + "," + b + ")"
		case [3]bool{false, false, true}:
			return "BEFORE(" + b + "," + a + ")"
		case [3]bool{true, true, false}:
			return "NOTBEFORE(" + b + "," + a + ")"
		}
	}
	return l
}

// c06CanonSet: the labels and their canonical forms.
func c06CanonSet(m map[string]string) map[string]string {
	out := make(map[string]string, len(m))
	for l, s := range m {
		out[l] = s
		if cl := c06Canon(l); cl != l {
			out[cl] = s
		}
	}
	return out
}

// ---------- substitution ---------------------------------------------------------------------------------------------

func c06IsIdentByte(ch byte) bool {
	return ch == '_' || ch >= '0' && ch <= '9' || ch >= 'a' && ch <= 'z' || ch >= 'A' && ch <= 'Z'
}

type c06Sub struct {
	keys, vals []string
}

func (s *c06Sub) add(k, v string) {
	for i := range s.keys {
		if s.keys[i] == k {
			if s.vals[i] != v {
				s.vals[i] = "?ambiguous(" + k + ")"
			}
			return
		}
	}
	s.keys = append(s.keys, k)
	s.vals = append(s.vals, v)
}

// apply replaces, in one left-to-right pass, every occurrence of a key that ends at an identifier boundary (longest key
// first); replaced text is not scanned again.
func (s *c06Sub) apply(l string) string {
	if s == nil || len(s.keys) == 0 {
		return l
	}
	hit := false
	for _, k := range s.keys {
		if strings.Contains(l, k) {
			hit = true
			break
		}
	}
	if !hit {
		return l
	}
	idx := make([]int, len(s.keys))
	for i := range idx {
		idx[i] = i
	}
	sort.Slice(idx, func(a, b int) bool { return len(s.keys[idx[a]]) > len(s.keys[idx[b]]) })
	var sb strings.Builder
	for i := 0; i < len(l); {
		done := false
		for _, ki := range idx {
			k := s.keys[ki]
			if !strings.HasPrefix(l[i:], k) {
				continue
			}
			e := i + len(k)
			if c06IsIdentByte(k[len(k)-1]) && e < len(l) && c06IsIdentByte(l[e]) {
				continue
			}
			if i > 0 && c06IsIdentByte(l[i-1]) && c06IsIdentByte(k[0]) {
				continue
			}
			sb.WriteString(s.vals[ki])
			i = e
			done = true
			break
		}
		if !done {
			sb.WriteByte(l[i])
			i++
		}
	}
	return trunc(sb.String(), 1500)
}

// ---------- read-only snapshots ---------------------------------------------------------------------------------------

// c06ReadOnly: nothing is ever written through the address v (or an address derived from it), and it is not kept anywhere:
// it is loaded, narrowed to a field/element address that is itself read-only, captured by a closure that only reads it, or
// handed to a function with a body whose parameter is read-only in the same sense.
func c06ReadOnly(v ssa.Value, depth int, except *ssa.Store) bool {
	if depth > 5 {
		return false
	}
	refs := v.Referrers()
	if refs == nil {
		return false
	}
	for _, r := range *refs {
		switch x := r.(type) {
		case *ssa.DebugRef:
		case *ssa.UnOp:
			if x.Op != token.MUL {
				return false
			}
		case *ssa.Store:
			if x == except && x.Addr == v && x.Val != v {
				continue
			}
			return false
		case *ssa.FieldAddr:
			if !c06ReadOnly(x, depth+1, nil) {
				return false
			}
		case *ssa.IndexAddr:
			if !c06ReadOnly(x, depth+1, nil) {
				return false
			}
		case *ssa.MakeInterface:
			// boxed only to be rendered by a formatting / logging call (the engine's convention: such a call takes no part in
			// the behaviour; fmt reads its operands)
			if !onlyFormatted(x, 0) {
				return false
			}
		case *ssa.MakeClosure:
			fn, ok := x.Fn.(*ssa.Function)
			if !ok {
				return false
			}
			for i, b := range x.Bindings {
				if b == v {
					if i >= len(fn.FreeVars) || !c06ReadOnly(fn.FreeVars[i], depth+1, nil) {
						return false
					}
				}
			}
		case *ssa.Call:
			g := staticCallee(x)
			if g == nil || g.Blocks == nil || x.Call.IsInvoke() || len(x.Call.Args) != len(g.Params) {
				return false
			}
			for i, a := range x.Call.Args {
				if a == v && !c06ReadOnly(g.Params[i], depth+1, nil) {
					return false
				}
			}
		default:
			return false
		}
	}
	return true
}

// c06Snapshot: the local is assigned once, as a whole, where it is declared, and is read-only afterwards (also in the
// closures and callees that receive its address): every read of it, direct or through the pointer, yields that value.
func c06Snapshot(al *ssa.Alloc) ssa.Value {
	refs := al.Referrers()
	if refs == nil {
		return nil
	}
	var st *ssa.Store
	for _, r := range *refs {
		if s, ok := r.(*ssa.Store); ok && s.Addr == al {
			if st != nil {
				return nil
			}
			st = s
		}
	}
	if st == nil || st.Block() != al.Block() || !c06ReadOnly(al, 0, st) {
		return nil
	}
	// nothing looks at the local before it is assigned
	for _, r := range *refs {
		if r != ssa.Instruction(st) && r.Block() == al.Block() && instrIndex(r) < instrIndex(st) {
			if _, dbg := r.(*ssa.DebugRef); !dbg {
				return nil
			}
		}
	}
	return st.Val
}

func c06AllocKey(al *ssa.Alloc) string { return "alloc:" + namedOf(al.Type()) + "<" + al.Comment + ">" }

var c06AllocMemo = map[*ssa.Function]*c06Sub{}

// c06AllocSub: the renderings of the read-only snapshots of fn that the engine leaves opaque (their address is handed
// to a callee or captured), mapped to the rendering of the value they hold.
func c06AllocSub(fn *ssa.Function) *c06Sub {
	if s, ok := c06AllocMemo[fn]; ok {
		return s
	}
	s := &c06Sub{}
	c06AllocMemo[fn] = s
	count := map[string]int{}
	for _, b := range fn.Blocks {
		for _, in := range b.Instrs {
			if al, ok := in.(*ssa.Alloc); ok {
				count[c06AllocKey(al)]++
			}
		}
	}
	for _, b := range fn.Blocks {
		for _, in := range b.Instrs {
			al, ok := in.(*ssa.Alloc)
			if !ok || count[c06AllocKey(al)] != 1 || singleStore(al) != nil {
				continue
			}
			if v := c06Snapshot(al); v != nil {
				s.add(c06AllocKey(al), desc(v))
			}
		}
	}
	// a snapshot taken from another snapshot
	for round := 0; round < 2; round++ {
		for i := range s.vals {
			s.vals[i] = s.apply(s.vals[i])
		}
	}
	return s
}

// ---------- frames -------------------------------------------------------------------------------------------------------

// c06Frame translates labels of a function into the frame of the function that owns the data.
type c06Frame struct {
	Fn    *ssa.Function // the function whose parameters the translated labels name
	steps []*c06Sub
}

func (fr *c06Frame) lift(l string) string {
	for _, s := range fr.steps {
		l = s.apply(l)
	}
	return l
}

func (fr *c06Frame) liftSet(m map[string]string) map[string]string {
	out := make(map[string]string, len(m))
	for l, s := range m {
		out[fr.lift(l)] = s
	}
	return out
}

func (fr *c06Frame) liftExits(exits []*ExitSum) []*ExitSum {
	var out []*ExitSum
	for _, ex := range exits {
		cp := *ex
		cp.Checked = fr.liftSet(ex.Checked)
		out = append(out, &cp)
	}
	return out
}

// c06StructLit: v is a load of a local struct every field of which is written at most once, by a plain store, the
// struct being otherwise only read: field name -> stored value.
func c06StructLit(v ssa.Value) (map[string]ssa.Value, bool) {
	u, ok := v.(*ssa.UnOp)
	if !ok || u.Op != token.MUL {
		return nil, false
	}
	al, ok := u.X.(*ssa.Alloc)
	if !ok {
		return nil, false
	}
	if _, isStruct := al.Type().Underlying().(*types.Pointer).Elem().Underlying().(*types.Struct); !isStruct {
		return nil, false
	}
	out := map[string]ssa.Value{}
	for _, r := range *al.Referrers() {
		switch x := r.(type) {
		case *ssa.DebugRef:
		case *ssa.UnOp:
			if x.Op != token.MUL {
				return nil, false
			}
		case *ssa.FieldAddr:
			name := fieldName(al.Type(), x.Field)
			for _, rr := range *x.Referrers() {
				switch y := rr.(type) {
				case *ssa.DebugRef:
				case *ssa.UnOp:
					if y.Op != token.MUL {
						return nil, false
					}
				case *ssa.Store:
					if y.Addr != x || y.Val == ssa.Value(x) {
						return nil, false
					}
					if _, dup := out[name]; dup || y.Block() != al.Block() || (u.Block() == al.Block() && instrIndex(u) < instrIndex(y)) {
						return nil, false // written twice, conditionally, or after the copy was taken
					}
					out[name] = y.Val
				default:
					return nil, false
				}
			}
		default:
			return nil, false
		}
	}
	return out, true
}

// c06UsedAsValue: fn is referenced other than as the static callee of a call (stored, bound, passed), or — for a method —
// its receiver type is converted to an interface somewhere in the product code (it may then be invoked dynamically);
// a conversion whose only use is to be rendered by a formatting call cannot invoke it (fmt calls Error/String/Format only).
func c06UsedAsValue(w *World, fn *ssa.Function) bool {
	var recv types.Type
	if fn.Signature.Recv() != nil {
		recv = fn.Signature.Recv().Type()
		if p, ok := recv.(*types.Pointer); ok {
			recv = p.Elem()
		}
	}
	for _, g := range w.Funcs {
		for _, b := range g.Blocks {
			for _, in := range b.Instrs {
				if mi, ok := in.(*ssa.MakeInterface); ok && recv != nil && !onlyFormatted(mi, 0) {
					t := mi.X.Type()
					if p, ok := t.(*types.Pointer); ok {
						t = p.Elem()
					}
					if types.Identical(t, recv) {
						return true
					}
				}
				if ci, ok := in.(ssa.CallInstruction); ok && !ci.Common().IsInvoke() && ci.Common().Value == ssa.Value(fn) {
					if c06ArgIs(ci, fn) {
						return true
					}
					continue
				}
				for _, op := range in.Operands(nil) {
					if op != nil && *op == ssa.Value(fn) {
						return true
					}
				}
			}
		}
	}
	return false
}

func c06ArgIs(ci ssa.CallInstruction, fn *ssa.Function) bool {
	for _, a := range ci.Common().Args {
		if a == ssa.Value(fn) {
			return true
		}
	}
	return false
}

var c06FrameMemo = map[*ssa.Function]*c06Frame{}

// c06FrameOf: the frame in which the labels of fn are judged.
//
// An unexported function that is only ever called statically, from one product function, sees exactly the values that
// caller passes: each parameter is replaced by the caller's argument — a pointer to a read-only snapshot by the value the
// snapshot holds, a struct built field by field by what was stored into each field — and the caller's own snapshots are
// resolved. If the conditions do not hold the labels stay in fn's own frame (and a rule that needs the provenance of a
// parameter does not find it).
func c06FrameOf(w *World, fn *ssa.Function) *c06Frame {
	if fr, ok := c06FrameMemo[fn]; ok {
		return fr
	}
	fr := &c06Frame{Fn: fn, steps: []*c06Sub{c06AllocSub(fn)}}
	c06FrameMemo[fn] = fr
	if fn.Parent() != nil || token.IsExported(fn.Name()) || fn.Synthetic != "" || c06UsedAsValue(w, fn) {
		return fr
	}
	var caller *ssa.Function
	sub := &c06Sub{}
	n := 0
	for _, g := range w.Funcs {
		if strings.HasPrefix(g.Synthetic, "wrapper for ") {
			// the method-set wrapper go/ssa synthesises once the receiver type is boxed: reachable only through an interface
			// value, which c06UsedAsValue has excluded (bound-method and thunk wrappers are not skipped: they are real uses)
			continue
		}
		for _, ci := range allCalls(g) {
			if staticCallee(ci) != fn {
				continue
			}
			call, isCall := ci.(*ssa.Call)
			if !isCall || (caller != nil && caller != g) || len(call.Call.Args) != len(fn.Params) || g == fn {
				return fr
			}
			caller = g
			n++
			for i, p := range fn.Params {
				a := call.Call.Args[i]
				key := "param:" + p.Name()
				if al, ok := a.(*ssa.Alloc); ok {
					if v := c06Snapshot(al); v != nil {
						sub.add(key, desc(v))
						continue
					}
				}
				if fields, ok := c06StructLit(a); ok {
					for f, v := range fields {
						sub.add(key+"."+f, desc(v))
					}
					sub.add(key, "param?:"+p.Name())
					continue
				}
				sub.add(key, desc(a))
			}
		}
	}
	if n == 0 || caller == nil {
		return fr
	}
	fr.Fn = caller
	fr.steps = append(fr.steps, sub, c06AllocSub(caller))
	return fr
}

// ---------- result objects whose error is a variable ---------------------------------------------------------------

// ---------- result constructors ------------------------------------------------------------------------------------------

// c06Ctor: a module function that only builds a fresh result object: every return hands out an object allocated in the
// function, whose error field is either never written (errParam -1: the error is always nil), written once — in a block
// that dominates the return — with one parameter of the function (errParam: the error of the result IS that argument), or
// written with a provably non-nil value (errFail). The Type field is a parameter (typeParam) or a constant (typeConst).
// A call of such a function is the composite literal it contains, with the arguments in place of the parameters.
type c06Ctor struct {
	errParam  int
	errFail   bool
	typeParam int
	typeConst string
}

var c06CtorMemo = map[*ssa.Function]*c06Ctor{}

// c06AllocErr: al is a fresh object that is only filled in field by field (plain stores) and returned. Returns the single
// store into its error field (nil if the field is never written) and the single store into the field named Type.
func c06AllocErr(al *ssa.Alloc) (errStore, typeStore *ssa.Store, ok bool) {
	ef := errFieldOf(al.Type())
	if ef < 0 || al.Referrers() == nil {
		return nil, nil, false
	}
	for _, ref := range *al.Referrers() {
		switch x := ref.(type) {
		case *ssa.DebugRef, *ssa.Return:
		case *ssa.FieldAddr:
			for _, rr := range *x.Referrers() {
				st, isSt := rr.(*ssa.Store)
				if !isSt || st.Addr != x {
					if _, isDbg := rr.(*ssa.DebugRef); !isDbg {
						return nil, nil, false
					}
					continue
				}
				switch {
				case x.Field == ef:
					if errStore != nil {
						return nil, nil, false
					}
					errStore = st
				case fieldName(al.Type(), x.Field) == "Type":
					if typeStore != nil {
						return nil, nil, false
					}
					typeStore = st
				}
			}
		default:
			return nil, nil, false
		}
	}
	return errStore, typeStore, true
}

func c06CtorOf(w *World, g *ssa.Function) *c06Ctor {
	if ct, ok := c06CtorMemo[g]; ok {
		return ct
	}
	c06CtorMemo[g] = nil
	if g == nil || g.Blocks == nil || !w.IsProductFn(g) || g.Signature.Results().Len() != 1 || errFieldOf(g.Signature.Results().At(0).Type()) < 0 {
		return nil
	}
	gi := w.Info(g)
	paramIdx := func(v ssa.Value) int {
		for i, p := range g.Params {
			if ssa.Value(p) == v {
				return i
			}
		}
		return -1
	}
	var out *c06Ctor
	for _, b := range g.Blocks {
		r, ok := blockTerm(b).(*ssa.Return)
		if !ok {
			continue
		}
		ct := &c06Ctor{errParam: -1, typeParam: -1}
		// a constructor that delegates to another one: what it hands over is what the result holds
		if call, isCall := r.Results[0].(*ssa.Call); isCall && !call.Call.IsInvoke() {
			h := staticCallee(call)
			if h == g {
				return nil
			}
			hc := c06CtorOf(w, h)
			if hc == nil {
				return nil
			}
			ct.errFail, ct.typeConst = hc.errFail, hc.typeConst
			if hc.errParam >= 0 && hc.errParam < len(call.Call.Args) && !hc.errFail {
				a := call.Call.Args[hc.errParam]
				if i := paramIdx(a); i >= 0 {
					ct.errParam = i
				} else if !isNilConst(a) {
					if !gi.nonNil(a, b) {
						return nil
					}
					ct.errFail = true
				}
			}
			if hc.typeParam >= 0 && hc.typeParam < len(call.Call.Args) {
				a := call.Call.Args[hc.typeParam]
				if i := paramIdx(a); i >= 0 {
					ct.typeParam = i
				} else if k, isK := a.(*ssa.Const); isK {
					ct.typeConst = constString(k)
				}
			}
			if out != nil && *out != *ct {
				return nil
			}
			out = ct
			continue
		}
		al, ok := r.Results[0].(*ssa.Alloc)
		if !ok || !al.Heap {
			return nil
		}
		es, ts, ok := c06AllocErr(al)
		if !ok {
			return nil
		}
		if es != nil {
			if !es.Block().Dominates(b) {
				return nil // written on some paths only
			}
			if i := paramIdx(es.Val); i >= 0 {
				ct.errParam = i
			} else if !isNilConst(es.Val) {
				if !gi.nonNil(es.Val, es.Block()) {
					return nil
				}
				ct.errFail = true
			}
		}
		if ts != nil && ts.Block().Dominates(b) {
			if i := paramIdx(ts.Val); i >= 0 {
				ct.typeParam = i
			} else if k, isK := ts.Val.(*ssa.Const); isK {
				ct.typeConst = constString(k)
			}
		}
		if out != nil && *out != *ct {
			return nil
		}
		out = ct
	}
	c06CtorMemo[g] = out
	return out
}

// c06YieldsType: fn produces a result object whose Type is the (quoted) constant: it fills one in itself, or obtains it
// from a constructor that it hands the constant, or that is specific to that constant.
func c06YieldsType(w *World, fn *ssa.Function, konst string) bool {
	if allocatesType(w, fn, konst) {
		return true
	}
	for _, ci := range allCalls(fn) {
		call, ok := ci.(*ssa.Call)
		if !ok {
			continue
		}
		ct := c06CtorOf(w, staticCallee(call))
		if ct == nil {
			continue
		}
		if ct.typeConst == konst {
			return true
		}
		if ct.typeParam >= 0 && ct.typeParam < len(call.Call.Args) {
			if k, isK := call.Call.Args[ct.typeParam].(*ssa.Const); isK && constString(k) == konst {
				return true
			}
		}
	}
	return false
}

// c06RetErr: what the error field of the result object returned as result K holds at this return.
//   - built: the object is obtained from a constructor call (not a literal of the function itself);
//   - isNil: the field is never written / written with nil; isFail: it provably holds a failure;
//   - otherwise val is the value it holds (a variable assigned on the branches, the error of a call, ...).
type c06RetErr struct {
	val           ssa.Value
	isNil, isFail bool
	built         bool
}

func c06RetErrOf(w *World, fi *FnInfo, r *ssa.Return, K int) (c06RetErr, bool) {
	if K >= len(r.Results) {
		return c06RetErr{}, false
	}
	switch x := r.Results[K].(type) {
	case *ssa.Alloc:
		es, _, ok := c06AllocErr(x)
		if !ok || es == nil || !es.Block().Dominates(r.Block()) {
			return c06RetErr{}, false
		}
		return c06RetErr{val: es.Val, isNil: isNilConst(es.Val)}, true
	case *ssa.Call:
		ct := c06CtorOf(w, staticCallee(x))
		if ct == nil || x.Call.IsInvoke() {
			return c06RetErr{}, false
		}
		// the object goes from the constructor straight to the caller: nothing is written into it in between
		if refs := x.Referrers(); refs != nil {
			for _, ref := range *refs {
				switch ref.(type) {
				case *ssa.Return, *ssa.DebugRef:
				default:
					return c06RetErr{}, false
				}
			}
		}
		switch {
		case ct.errFail:
			return c06RetErr{isFail: true, built: true}, true
		case ct.errParam < 0:
			return c06RetErr{isNil: true, built: true}, true
		case ct.errParam < len(x.Call.Args):
			v := x.Call.Args[ct.errParam]
			return c06RetErr{val: v, isNil: isNilConst(v), isFail: !isNilConst(v) && fi.nonNil(v, r.Block()), built: true}, true
		}
	}
	return c06RetErr{}, false
}

// c06PhiRet: a return of a fresh result object (a literal, or a constructor call) whose error is a variable that was
// assigned on the branches (a phi). The phi's block dominates the return, lies on no cycle, and every return reachable
// from it is this one: the edge through which the phi's block is entered decides the error this exit reports.
type c06PhiRet struct {
	ret *ssa.Return
	phi *ssa.Phi
}

func c06PhiRets(fi *FnInfo, K int) []c06PhiRet {
	var out []c06PhiRet
	for _, b := range fi.Fn.Blocks {
		r, ok := blockTerm(b).(*ssa.Return)
		if !ok || K >= len(r.Results) {
			continue
		}
		re, ok := c06RetErrOf(fi.W, fi, r, K)
		if !ok {
			continue
		}
		phi, _ := re.val.(*ssa.Phi)
		if phi == nil {
			continue
		}
		pb := phi.Block()
		if !pb.Dominates(b) {
			continue
		}
		// forward closure of the phi's block
		seen := map[*ssa.BasicBlock]bool{}
		stack := append([]*ssa.BasicBlock(nil), pb.Succs...)
		okShape := true
		for len(stack) > 0 {
			q := stack[len(stack)-1]
			stack = stack[:len(stack)-1]
			if seen[q] {
				continue
			}
			seen[q] = true
			if q == pb {
				okShape = false // on a cycle
				break
			}
			stack = append(stack, q.Succs...)
		}
		for q := range seen {
			if rr, isRet := blockTerm(q).(*ssa.Return); isRet && rr != r {
				okShape = false
			}
		}
		if rr, isRet := blockTerm(pb).(*ssa.Return); isRet && rr != r {
			okShape = false
		}
		if okShape {
			out = append(out, c06PhiRet{r, phi})
		}
	}
	return out
}

// c06FailCut: the edges into such a phi's block on which the variable holds a provably non-nil error, and the edges into
// a return whose constructor-built result carries a provably non-nil error. Every path through one of them ends at that
// return with a failure, so removing them removes no success path.
// With fi.ignoreTail set (exits that merely forward the verdict of one of these calls are set aside, as the engine does
// for literal results), the edges on which the reported error is the error of such a call are removed as well.
func c06FailCut(fi *FnInfo, K int) map[edgeKey]bool {
	cut := map[edgeKey]bool{}
	dead := func(e ssa.Value, at *ssa.BasicBlock) bool {
		if isNilConst(e) {
			return false
		}
		if fi.nonNil(e, at) {
			return true
		}
		if t := callOf(e); t != nil && isErrorType(e.Type()) && fi.ignoreTail[t] {
			return true
		}
		return false
	}
	phiRet := map[*ssa.Return]bool{}
	for _, pr := range c06PhiRets(fi, K) {
		phiRet[pr.ret] = true
		pb := pr.phi.Block()
		for i, e := range pr.phi.Edges {
			if !dead(e, pb.Preds[i]) {
				continue
			}
			for j, s := range pb.Preds[i].Succs {
				if s == pb {
					// a predecessor listed twice (both branches to the same block) carries one value per edge; cut only if all agree
					same := true
					for i2, p2 := range pb.Preds {
						if p2 == pb.Preds[i] && !dead(pr.phi.Edges[i2], p2) {
							same = false
						}
					}
					if same {
						cut[edgeKey{pb.Preds[i].Index, j}] = true
					}
				}
			}
		}
	}
	// the error field of an object created up front, assigned on the branches (c06Cell): a defining block whose definition
	// is such a failure, from which no other defining block can be reached and from which every return reached hands out
	// that object — every path through it ends at a return of the object with this very definition in the field
	cells := map[ssa.Value]*c06Cell{}
	for _, b := range fi.Fn.Blocks {
		r, ok := blockTerm(b).(*ssa.Return)
		if !ok || phiRet[r] || K >= len(r.Results) {
			continue
		}
		obj := r.Results[K]
		if _, seen := cells[obj]; seen {
			continue
		}
		cell := c06CellOf(fi.W, fi, obj)
		cells[obj] = cell
		if cell == nil {
			continue
		}
		for db, d := range cell.defs {
			if !d.fail && (d.val == nil || !dead(d.val, db)) {
				continue
			}
			final := true
			seen := map[*ssa.BasicBlock]bool{}
			stack := append([]*ssa.BasicBlock(nil), db.Succs...)
			for len(stack) > 0 && final {
				q := stack[len(stack)-1]
				stack = stack[:len(stack)-1]
				if seen[q] || q == db {
					continue
				}
				seen[q] = true
				if _, isDef := cell.defs[q]; isDef {
					final = false
				}
				stack = append(stack, q.Succs...)
			}
			seen[db] = true
			for q := range seen {
				if rr, isRet := blockTerm(q).(*ssa.Return); isRet && (K >= len(rr.Results) || rr.Results[K] != obj) {
					final = false
				}
			}
			if final {
				cutInto(fi, db, cut)
			}
		}
	}
	// a constructor-built result whose error argument is not a variable: the return block has no successor, so a block
	// whose result is a failure can be removed as a whole
	for _, b := range fi.Fn.Blocks {
		r, ok := blockTerm(b).(*ssa.Return)
		if !ok || phiRet[r] {
			continue
		}
		re, ok := c06RetErrOf(fi.W, fi, r, K)
		if !ok || !re.built || re.isNil {
			continue
		}
		if re.isFail || (re.val != nil && dead(re.val, b)) {
			cutInto(fi, b, cut)
		}
	}
	return cut
}

// c06Witness: successWitness that also understands the error-variable shape of result objects and results built by a
// constructor.
func c06Witness(fi *FnInfo, mode Mode, starts []state, cut map[edgeKey]bool) []string {
	if mode.Kind == mObj {
		merged := map[edgeKey]bool{}
		for k := range cut {
			merged[k] = true
		}
		for k := range c06FailCut(fi, mode.K) {
			merged[k] = true
		}
		cut = merged
	}
	return fi.successWitness(mode, starts, cut)
}

// ---------- result objects created up front, the error field assigned on the branches --------------------------------------
//
// `res := &R{Type: ..}; switch .. { case A: res.Error = f() ; default: for .. { if bad { res.Error = fmt.Errorf(..); break } } }; return res`
//
// The error the exit reports is a variable here too — the field of the fresh object itself instead of a local that one
// literal reports (c06PhiRet). Its value at a return is decided by the last assignment executed on the path (its reaching
// definition), or is nil if the path assigns nothing (a fresh object is zeroed). This holds because the object is private to
// the function until it is returned: its address is only used to address its fields, the fields are only stored to and
// loaded from by the function itself (c06ErrCell checks exactly that), so no callee, closure or alias can write the field.

// c06ErrCell: obj is a fresh object with one error field — allocated by the function itself, or obtained from a constructor
// (c06Ctor: an object allocated there and handed out unaliased) — that is only filled in field by field, read, and returned.
// Returns, per block that assigns the error field, the last such assignment of the block, and what the field holds when
// the object is created: nil (a zeroed allocation, a constructor that leaves the field alone), the constructor's error
// argument, or a failure (initFail).
func c06ErrCell(w *World, obj ssa.Value) (stores map[*ssa.BasicBlock]*ssa.Store, init ssa.Value, initFail, ok bool) {
	ef := errFieldOf(obj.Type())
	if ef < 0 {
		return nil, nil, false, false
	}
	var refs *[]ssa.Instruction
	switch x := obj.(type) {
	case *ssa.Alloc:
		if !x.Heap {
			return nil, nil, false, false
		}
		refs = x.Referrers()
	case *ssa.Call:
		ct := c06CtorOf(w, staticCallee(x))
		if ct == nil || x.Call.IsInvoke() {
			return nil, nil, false, false
		}
		switch {
		case ct.errFail:
			initFail = true
		case ct.errParam >= 0 && ct.errParam < len(x.Call.Args):
			if a := x.Call.Args[ct.errParam]; !isNilConst(a) {
				init = a
			}
		case ct.errParam >= 0:
			return nil, nil, false, false
		}
		refs = x.Referrers()
	default:
		return nil, nil, false, false
	}
	if refs == nil {
		return nil, nil, false, false
	}
	stores = map[*ssa.BasicBlock]*ssa.Store{}
	for _, ref := range *refs {
		switch x := ref.(type) {
		case *ssa.DebugRef, *ssa.Return:
		case *ssa.FieldAddr:
			if x.X != obj || x.Referrers() == nil {
				return nil, nil, false, false
			}
			for _, rr := range *x.Referrers() {
				switch y := rr.(type) {
				case *ssa.DebugRef:
				case *ssa.UnOp:
					if y.Op != token.MUL {
						return nil, nil, false, false
					}
				case *ssa.Store:
					if y.Addr != ssa.Value(x) {
						return nil, nil, false, false // the field's address is itself stored somewhere
					}
					if x.Field != ef {
						continue
					}
					if prev := stores[y.Block()]; prev == nil || instrIndex(prev) < instrIndex(y) {
						stores[y.Block()] = y
					}
				default:
					return nil, nil, false, false
				}
			}
		default:
			return nil, nil, false, false
		}
	}
	return stores, init, initFail, true
}

// c06CellDef: one reaching definition of the error field at a return: the value it holds (val nil: the field is nil;
// fail: it provably holds a failure), the block that defines it, and the facts every path passes on which this definition
// is the one that reaches the return.
type c06CellDef struct {
	val   ssa.Value
	fail  bool
	at    *ssa.BasicBlock
	facts map[string]string
}

type c06Cell struct {
	obj  ssa.Value
	defs map[*ssa.BasicBlock]c06CellDef // per defining block: the block that creates the object, the blocks that assign the field
}

// c06CellOf: the definitions of the error field of the fresh object obj. The block that creates the object defines the
// initial value (unless it goes on to assign the field: the assignment comes after the creation); entering it again would
// create another object, so it ends the reach of every earlier definition like an assignment does.
func c06CellOf(w *World, fi *FnInfo, obj ssa.Value) *c06Cell {
	in, isIn := obj.(ssa.Instruction)
	if !isIn || in.Block() == nil {
		return nil
	}
	stores, init, initFail, ok := c06ErrCell(w, obj)
	if !ok || len(stores) == 0 {
		return nil
	}
	cell := &c06Cell{obj: obj, defs: map[*ssa.BasicBlock]c06CellDef{}}
	cell.defs[in.Block()] = c06CellDef{val: init, fail: initFail || (init != nil && fi.nonNil(init, in.Block())), at: in.Block()}
	for b, st := range stores {
		d := c06CellDef{at: b}
		if !isNilConst(st.Val) {
			d.val = st.Val
			d.fail = fi.nonNil(st.Val, b)
		}
		cell.defs[b] = d
	}
	return cell
}

func (cell *c06Cell) killCut(fi *FnInfo) map[edgeKey]bool {
	cut := map[edgeKey]bool{}
	for b := range cell.defs {
		cutInto(fi, b, cut)
	}
	return cut
}

// c06CellDefs: the reaching definitions of the error field of obj at the return r, when there are several (with one, the
// engine's own exit is exact). A path on which the definition of block B is the last one consists of a path from the entry
// to B and a path from B to the return that enters no defining block: it passes what every entry->B path passes and what
// every B->return path of the graph without the edges into defining blocks passes.
func c06CellDefs(w *World, fi *FnInfo, r *ssa.Return, obj ssa.Value) ([]c06CellDef, bool) {
	cell := c06CellOf(w, fi, obj)
	if cell == nil {
		return nil, false
	}
	rb := r.Block()
	kill := cell.killCut(fi)
	var blocks []*ssa.BasicBlock
	for b := range cell.defs {
		blocks = append(blocks, b)
	}
	sort.Slice(blocks, func(i, j int) bool { return blocks[i].Index < blocks[j].Index })
	var defs []c06CellDef
	for _, b := range blocks {
		facts := map[string]string{}
		if b.Index != 0 {
			l, ok := fi.mustPassBetween([]int{0}, map[int]bool{b.Index: true})
			if !ok {
				continue // the definition is unreachable
			}
			facts = l
		}
		if b != rb {
			post, ok := fi.mustPassBetweenCut([]int{b.Index}, map[int]bool{rb.Index: true}, kill)
			if !ok {
				continue // every path from it to this return passes another definition
			}
			for l, s := range post {
				if _, has := facts[l]; !has {
					facts[l] = s
				}
			}
		}
		d := cell.defs[b]
		d.facts = facts
		defs = append(defs, d)
	}
	if len(defs) < 2 {
		return nil, false
	}
	return defs, true
}

// c06ObjExits: the success-capable exits of fn under mObj, with an exit of the error-variable shape split into one exit
// per entering edge of the phi's block: facts = what every path from the entry to that edge passes; an edge that carries
// the error of a call is a tail exit of that call, a nil edge a success exit, a provably non-nil edge no exit.
// An exit whose result is built by a constructor reports the constructor's error argument in the same way.
func c06ObjExits(w *World, fn *ssa.Function, K int) ([]*ExitSum, int) {
	fi := w.Info(fn)
	s := w.Summarize(fn, Mode{Kind: mObj, K: K})
	phiOf := map[*ssa.Return]*ssa.Phi{}
	for _, pr := range c06PhiRets(fi, K) {
		phiOf[pr.ret] = pr.phi
	}
	// tailOf: the exit reports the error of call t — it succeeds when t does, after everything t checks
	tailOf := func(nx *ExitSum, e ssa.Value) {
		t := callOf(e)
		if t == nil || !isErrorType(e.Type()) {
			return
		}
		nx.Tail = calleeName(t)
		if ts := w.summarizeCall(t, Mode{Kind: mErr}); ts != nil {
			for l, st := range ts.Checked {
				if _, has := nx.Checked[l]; !has {
					nx.Checked[l] = st
				}
			}
		}
		nx.Checked["EQ("+descTailErr(t)+",nil)"] = w.InstrPos(t)
	}
	var out []*ExitSum
	done := map[*ssa.Return]bool{}
	for _, ex := range s.Exits {
		phi := phiOf[ex.Ret]
		// the object was created up front and its error field is assigned on the branches: one exit per reaching definition
		// of the field (c06CellDefs) — an assignment of nil or no assignment is a success exit, an assignment of the error
		// of a call a tail exit of that call, an assignment of a provably non-nil value no exit
		if obj := modeOperand(ex.Ret, Mode{Kind: mObj, K: K}); obj != nil && phi == nil {
			if defs, ok := c06CellDefs(w, fi, ex.Ret, obj); ok {
				if done[ex.Ret] {
					continue
				}
				done[ex.Ret] = true
				for i, d := range defs {
					if d.fail {
						continue
					}
					nx := &ExitSum{Ret: ex.Ret, Pred: -1 - i, Class: clMaybe, Checked: d.facts, InheritParam: -1, InheritField: -1}
					if d.val == nil {
						nx.Class = clSuccess
					} else {
						tailOf(nx, d.val)
					}
					out = append(out, nx)
				}
				continue
			}
		}
		if phi == nil {
			re, ok := c06RetErrOf(w, fi, ex.Ret, K)
			if !ok || !re.built {
				out = append(out, ex)
				continue
			}
			if re.isFail {
				continue
			}
			nx := &ExitSum{Ret: ex.Ret, Pred: ex.Pred, Class: clMaybe, Checked: map[string]string{}, InheritParam: -1, InheritField: -1}
			for l, st := range ex.Checked {
				nx.Checked[l] = st
			}
			if re.isNil {
				nx.Class = clSuccess
			} else {
				tailOf(nx, re.val)
			}
			out = append(out, nx)
			continue
		}
		if done[ex.Ret] {
			continue
		}
		done[ex.Ret] = true
		pb := phi.Block()
		for i, e := range phi.Edges {
			pred := pb.Preds[i]
			if !isNilConst(e) && fi.nonNil(e, pred) {
				continue
			}
			others := map[edgeKey]bool{}
			for _, p := range pb.Preds {
				if p == pred {
					continue
				}
				for j, sc := range p.Succs {
					if sc == pb {
						others[edgeKey{p.Index, j}] = true
					}
				}
			}
			labels, ok := fi.mustPassBetweenCut([]int{0}, map[int]bool{pb.Index: true}, others)
			if !ok {
				continue
			}
			nx := &ExitSum{Ret: ex.Ret, Pred: i, Class: clMaybe, Checked: labels, InheritParam: -1, InheritField: -1}
			if isNilConst(e) {
				nx.Class = clSuccess
			} else {
				tailOf(nx, e)
			}
			out = append(out, nx)
		}
	}
	return out, s.States
}

// ---------- a disjunctive gate, followed through helpers and boolean locals ----------------------------------------------
//
// The obligation "success only if A or B" is decided by removing every edge that carries A or B and asking whether a
// success-capable exit can still be reached (no single edge is passed by every success path, so must-pass facts do not
// express it). c06Gate finds the edges that carry the disjunction in three spellings:
//
//   - an edge whose own label is A or B (pass(label) != "");
//   - an edge "the helper answered want" / "the helper's error is nil", when the helper — a module function with a body,
//     judged with the caller's arguments in place of its parameters — cannot give that answer except through edges that
//     carry A or B: the answer then implies the disjunction exactly as an inline edge does; an exit that merely forwards such
//     a helper's error is set aside in the same way (it is error-free only if the helper's is);
//   - an edge of a branch on a boolean local (a phi of the branching block, possibly negated): entered from a predecessor
//     whose value for the local is a constant that contradicts the edge, the edge is not taken; entered through an edge that
//     already carries the disjunction (or from a block that can only be reached through such edges), the path has passed it
//     — the facts are about values that do not change (the expiry of the envelope, one reading of the clock); entered with
//     a computed value v, the edge says v (or !v), whose own label is looked at. If every predecessor is of one of these
//     three kinds, every path that takes the edge has passed A or B.
type c06Gate struct {
	w     *World
	pass  func(label string) string // "" or the kind of passing fact the lifted canonical label states
	kinds map[string]bool
	evals int
	stack []*ssa.Function
}

func (g *c06Gate) onStack(fn *ssa.Function) bool {
	for _, f := range g.stack {
		if f == fn {
			return true
		}
	}
	return false
}

// c06TimeTests: fn or a module function it (transitively) calls compares instants.
func c06TimeTests(w *World, fn *ssa.Function) bool {
	for _, f := range w.moduleCallees(fn) {
		if len(findCalls(f, "(time.Time).IsZero", "(time.Time).Before", "(time.Time).After", "(time.Time).Compare")) > 0 {
			return true
		}
	}
	return false
}

// cut: the edges of fn that carry the disjunction, and the calls whose verdict, when forwarded, does. For a predicate
// (mode mBool) also the edges into a return that answers a computed value v: the answer is mode.Want only if v is (or is
// not), and if that is a passing fact the exit is behind the disjunction like an exit behind a passing edge.
func (g *c06Gate) cut(fn *ssa.Function, mode Mode, lift func(string) string) (map[edgeKey]bool, map[*ssa.Call]bool) {
	w := g.w
	fi := w.Info(fn)
	isPass := func(l string) bool {
		if k := g.pass(lift(c06Canon(l))); k != "" {
			g.kinds[k] = true
			return true
		}
		return false
	}
	cut := fi.edgesMatching(func(l string, _ *ssa.If, _ bool) bool { return isPass(l) })
	tails := map[*ssa.Call]bool{}
	// helpers
	if len(g.stack) < 4 {
		for _, ci := range allCalls(fn) {
			call, ok := ci.(*ssa.Call)
			if !ok || call.Call.IsInvoke() {
				continue
			}
			h := staticCallee(call)
			if h == nil || h == fn || h.Blocks == nil || !w.IsProductFn(h) || len(call.Call.Args) != len(h.Params) || g.onStack(h) || !c06TimeTests(w, h) {
				continue
			}
			rs := h.Signature.Results()
			if rs.Len() == 0 {
				continue
			}
			sub := &c06Sub{}
			for k, p := range h.Params {
				sub.add("param:"+p.Name(), lift(desc(call.Call.Args[k])))
			}
			if mc, isMC := call.Call.Value.(*ssa.MakeClosure); isMC {
				for k, b := range mc.Bindings {
					if k < len(h.FreeVars) {
						sub.add("free:"+h.FreeVars[k].Name(), lift(c06BindingDesc(b)))
					}
				}
			}
			asub := c06AllocSub(h)
			hLift := func(l string) string { return sub.apply(asub.apply(l)) }
			if isErrorType(rs.At(rs.Len() - 1).Type()) {
				if g.witness(h, Mode{Kind: mErr}, hLift, nil) == nil {
					tails[call] = true
					for _, b := range fn.Blocks {
						if iff, ok := blockTerm(b).(*ssa.If); ok && len(b.Succs) == 2 && b.Succs[0] != b.Succs[1] {
							if j := c06ErrNilEdge(iff, call); j >= 0 {
								cut[edgeKey{b.Index, j}] = true
							}
						}
					}
				}
			} else if bt, isB := rs.At(0).Type().Underlying().(*types.Basic); isB && rs.Len() == 1 && bt.Kind() == types.Bool {
				for _, want := range []bool{false, true} {
					if g.witness(h, Mode{Kind: mBool, Want: want}, hLift, nil) != nil {
						continue
					}
					for _, b := range fn.Blocks {
						if iff, ok := blockTerm(b).(*ssa.If); ok && len(b.Succs) == 2 && b.Succs[0] != b.Succs[1] {
							if j := c06BoolEdge(iff, call, want); j >= 0 {
								cut[edgeKey{b.Index, j}] = true
							}
						}
					}
				}
			}
		}
	}
	// boolean locals: to a fixpoint (one derived edge may cover a block that feeds the next local)
	for changed := true; changed; {
		changed = false
		covered := c06CoveredBlocks(fn, cut)
		for _, b := range fn.Blocks {
			iff, ok := blockTerm(b).(*ssa.If)
			if !ok || len(b.Succs) != 2 || b.Succs[0] == b.Succs[1] {
				continue
			}
			truth := true
			phi, isPhi := stripNot(iff.Cond, &truth).(*ssa.Phi)
			if !isPhi || phi.Block() != b || len(phi.Edges) != len(b.Preds) {
				continue
			}
			for j := 0; j < 2; j++ {
				if cut[edgeKey{b.Index, j}] {
					continue
				}
				want := truth == (j == 0) // the value of the local on edge j
				all := true
				for i, e := range phi.Edges {
					p := b.Preds[i]
					if k, isK := boolConst(e); isK && k != want {
						continue
					}
					if covered[p] || c06EdgeCut(p, b, cut) {
						continue
					}
					if _, isK := boolConst(e); !isK && isPass(condLabel(e, want)) {
						continue
					}
					all = false
					break
				}
				if all {
					cut[edgeKey{b.Index, j}] = true
					changed = true
				}
			}
		}
	}
	if mode.Kind == mBool {
		for _, b := range fn.Blocks {
			r, ok := blockTerm(b).(*ssa.Return)
			if !ok || len(r.Results) != 1 {
				continue
			}
			v := r.Results[0]
			if phi, isPhi := v.(*ssa.Phi); isPhi && phi.Block() == b && len(phi.Edges) == len(b.Preds) {
				for i, e := range phi.Edges {
					if _, isK := boolConst(e); isK || !isPass(condLabel(e, mode.Want)) {
						continue
					}
					twice := false
					for i2, p2 := range b.Preds {
						if i2 != i && p2 == b.Preds[i] {
							twice = true // both branches of the predecessor lead here, with one value each: not told apart by an edge
						}
					}
					if twice {
						continue
					}
					for j, sc := range b.Preds[i].Succs {
						if sc == b {
							cut[edgeKey{b.Preds[i].Index, j}] = true
						}
					}
				}
			} else if _, isK := boolConst(v); !isK && b.Index != 0 && isPass(condLabel(v, mode.Want)) {
				cutInto(fi, b, cut)
			}
		}
	}
	return cut, tails
}

// c06EdgeCut: every edge from p to b is in the cut (and p branches).
func c06EdgeCut(p, b *ssa.BasicBlock, cut map[edgeKey]bool) bool {
	n := 0
	for j, s := range p.Succs {
		if s == b {
			if !cut[edgeKey{p.Index, j}] {
				return false
			}
			n++
		}
	}
	return n > 0
}

// c06CoveredBlocks: the blocks that can only be entered through edges of the cut, or from blocks that can only be.
func c06CoveredBlocks(fn *ssa.Function, cut map[edgeKey]bool) map[*ssa.BasicBlock]bool {
	// the blocks reachable from the entry without a cut edge are exactly the ones that are not covered
	reach := map[*ssa.BasicBlock]bool{}
	if len(fn.Blocks) == 0 {
		return reach
	}
	stack := []*ssa.BasicBlock{fn.Blocks[0]}
	reach[fn.Blocks[0]] = true
	for len(stack) > 0 {
		q := stack[len(stack)-1]
		stack = stack[:len(stack)-1]
		for j, s := range q.Succs {
			if !cut[edgeKey{q.Index, j}] && !reach[s] {
				reach[s] = true
				stack = append(stack, s)
			}
		}
	}
	out := map[*ssa.BasicBlock]bool{}
	for _, b := range fn.Blocks {
		if !reach[b] {
			out[b] = true
		}
	}
	return out
}

// c06BindingDesc: what a closure sees through a captured variable: the value a read-only snapshot holds, else the binding.
func c06BindingDesc(b ssa.Value) string {
	if al, isAl := b.(*ssa.Alloc); isAl {
		if v := c06Snapshot(al); v != nil {
			return desc(v)
		}
	}
	return desc(b)
}

// witness: a path of fn to a success-capable exit under mode that takes no edge carrying the disjunction (nil: none).
func (g *c06Gate) witness(fn *ssa.Function, mode Mode, lift func(string) string, base map[edgeKey]bool) []string {
	g.stack = append(g.stack, fn)
	defer func() { g.stack = g.stack[:len(g.stack)-1] }()
	fi := g.w.Info(fn)
	cut, tails := g.cut(fn, mode, lift)
	for k := range base {
		cut[k] = true
	}
	g.evals++
	saved := fi.ignoreTail
	fi.ignoreTail = tails
	wit := c06Witness(fi, mode, entryState(), cut)
	fi.ignoreTail = saved
	if wit == nil {
		return nil
	}
	if len(wit) == 0 {
		wit = []string{g.w.FnPos(fn)}
	}
	return wit
}

// ---------- whole-chain scans ----------------------------------------------------------------------------------------------

// c06Scan: on every edge of Pass (and when the result of a call of Tails is forwarded and reports success), every element
// of the slice rendered Chain satisfies Facts; the element is rendered Chain+"[*]".
// Exists (predicate scans only): facts of some element when the predicate gives the other answer.
type c06Scan struct {
	Chain  string
	Facts  map[string]bool
	Exists map[string]bool
	Pass   map[edgeKey]bool
	Tails  map[*ssa.Call]bool
	Call   *ssa.Call // the call that performs the scan (nil: a loop of the function itself)
	Want   bool      // Call is a predicate: the answer on which Facts hold
	Site   string
}

type c06ScanKey struct {
	fn   *ssa.Function
	mode Mode
}

type c06Scanner struct {
	w    *World
	memo map[*ssa.Function][]*c06Scan
	busy map[*ssa.Function]bool
	cov  map[c06ScanKey][]*c06Scan
}

func newC06Scanner(w *World) *c06Scanner {
	return &c06Scanner{w: w, memo: map[*ssa.Function][]*c06Scan{}, busy: map[*ssa.Function]bool{}, cov: map[c06ScanKey][]*c06Scan{}}
}

// c06ElemStar replaces the renderings chain[@<index>] by chain[*].
func c06ElemStar(l, chain string) string {
	pre := chain + "[@"
	for {
		i := strings.Index(l, pre)
		if i < 0 {
			return l
		}
		j := strings.IndexByte(l[i+len(pre):], ']')
		if j < 0 {
			return l
		}
		l = l[:i] + chain + "[*]" + l[i+len(pre)+j+1:]
	}
}

func c06FactSet(labels map[string]string, f func(string) string) map[string]bool {
	out := map[string]bool{}
	for l := range labels {
		l = f(l)
		out[l] = true
		out[c06Canon(l)] = true
	}
	return out
}

// c06PredFn: v is a function value the rule can read: a closure (with its bindings) or a named module function.
func c06PredFn(v ssa.Value) (*ssa.Function, []ssa.Value) {
	switch x := unwrap(v).(type) {
	case *ssa.MakeClosure:
		if f, ok := x.Fn.(*ssa.Function); ok {
			return f, x.Bindings
		}
	case *ssa.Function:
		return x, nil
	}
	return nil, nil
}

// nilEdge: the edge of `iff` on which the error result of call c is nil (-1 if the condition is not such a test).
func c06ErrNilEdge(iff *ssa.If, c *ssa.Call) int {
	truth := true
	cond := stripNot(iff.Cond, &truth)
	bo, ok := cond.(*ssa.BinOp)
	if !ok || (bo.Op != token.EQL && bo.Op != token.NEQ) {
		return -1
	}
	var o ssa.Value
	if isNilConst(bo.Y) {
		o = bo.X
	} else if isNilConst(bo.X) {
		o = bo.Y
	} else {
		return -1
	}
	if !isErrorType(o.Type()) || callOf(o) != c {
		return -1
	}
	isNilWhenTrue := (bo.Op == token.EQL) == truth
	if isNilWhenTrue {
		return 0
	}
	return 1
}

// c06BoolEdge: the edge of `iff` on which the boolean call result c equals want (-1 if the condition is not c or !c).
func c06BoolEdge(iff *ssa.If, c *ssa.Call, want bool) int {
	truth := true
	cond := stripNot(iff.Cond, &truth)
	if cond != ssa.Value(c) {
		return -1
	}
	if truth == want {
		return 0
	}
	return 1
}

// c06NoneEdge: the edge of `iff` on which the index answered by c (slices.IndexFunc) is -1, i.e. no element matched.
func c06NoneEdge(iff *ssa.If, c *ssa.Call) int {
	truth := true
	cond := stripNot(iff.Cond, &truth)
	bo, ok := cond.(*ssa.BinOp)
	if !ok {
		return -1
	}
	op := bo.Op
	var k *ssa.Const
	if bo.X == ssa.Value(c) {
		k, _ = bo.Y.(*ssa.Const)
	} else if bo.Y == ssa.Value(c) {
		k, _ = bo.X.(*ssa.Const)
		switch op {
		case token.LSS:
			op = token.GTR
		case token.GTR:
			op = token.LSS
		case token.LEQ:
			op = token.GEQ
		case token.GEQ:
			op = token.LEQ
		}
	}
	if k == nil || k.Value == nil || k.Value.Kind() != constant.Int {
		return -1
	}
	kv, exact := constant.Int64Val(k.Value)
	if !exact {
		return -1
	}
	for j := 0; j < 2; j++ {
		t := truth == (j == 0) // the comparison's value on edge j
		holds := func(v int64) bool {
			r, ok := cmpInt(op, v, kv)
			return ok && r == t
		}
		if holds(-1) && !holds(0) && !holds(1) && !holds(1<<40) {
			return j
		}
	}
	return -1
}

// c06CountsFromZero: the index the loop header compares with the length (cond: idx < len) takes the values 0, 1, 2, ... —
// it is the loop's counter (a phi of the header) that starts at 0 and is incremented by exactly 1 on every way round, or
// (range loops) that counter plus one, the counter starting at -1. A loop that starts further on, steps wider or moves the
// counter in its body does not visit every element.
func c06CountsFromZero(header *ssa.BasicBlock, cond *ssa.BinOp) bool {
	isInt := func(v ssa.Value, want int64) bool {
		k, ok := v.(*ssa.Const)
		if !ok || k.Value == nil || k.Value.Kind() != constant.Int {
			return false
		}
		n, exact := constant.Int64Val(k.Value)
		return exact && n == want
	}
	plusOne := func(v ssa.Value) ssa.Value {
		bo, ok := v.(*ssa.BinOp)
		if !ok || bo.Op != token.ADD {
			return nil
		}
		if isInt(bo.Y, 1) {
			return bo.X
		}
		if isInt(bo.X, 1) {
			return bo.Y
		}
		return nil
	}
	if cond.Op != token.LSS {
		return false
	}
	var phi *ssa.Phi
	first := int64(0)
	if p, ok := cond.X.(*ssa.Phi); ok {
		phi = p
	} else if p, ok := plusOne(cond.X).(*ssa.Phi); ok {
		phi, first = p, -1
	}
	if phi == nil || phi.Block() != header || len(phi.Edges) != len(header.Preds) {
		return false
	}
	inLoop := loopBlocks(header)
	nIn, nOut := 0, 0
	for i, e := range phi.Edges {
		if inLoop[header.Preds[i].Index] {
			if plusOne(e) != ssa.Value(phi) {
				return false
			}
			nIn++
		} else {
			if !isInt(e, first) {
				return false
			}
			nOut++
		}
	}
	return nIn > 0 && nOut > 0
}

// c06FreeSub: the facts the engine composes through a call of a closure created in fn name the closure's captured
// variables ("free:x"); in fn's frame such a variable is its binding — the value a read-only snapshot holds (c06Snapshot:
// assigned once, never written again, also not by the closure), otherwise the opaque local itself, which no rule matches.
// Two closures that capture different things under one name make the name ambiguous (c06Sub.add).
func c06FreeSub(fn *ssa.Function) *c06Sub {
	sub := &c06Sub{}
	for _, b := range fn.Blocks {
		for _, in := range b.Instrs {
			mc, ok := in.(*ssa.MakeClosure)
			if !ok {
				continue
			}
			cf, ok := mc.Fn.(*ssa.Function)
			if !ok {
				continue
			}
			for k, bnd := range mc.Bindings {
				if k < len(cf.FreeVars) {
					sub.add("free:"+cf.FreeVars[k].Name(), c06BindingDesc(bnd))
				}
			}
		}
	}
	return sub
}

// scans returns the whole-chain scans of fn in fn's own frame (its read-only snapshots resolved).
func (sc *c06Scanner) scans(fn *ssa.Function) []*c06Scan {
	if s, ok := sc.memo[fn]; ok {
		return s
	}
	if sc.busy[fn] || fn.Blocks == nil {
		return nil
	}
	sc.busy[fn] = true
	defer delete(sc.busy, fn)
	w := sc.w
	fi := w.Info(fn)
	asub := c06AllocSub(fn)
	var out []*c06Scan
	// (1) a loop of the function itself over the slice: the facts of one iteration (body entry -> back to the header)
	// hold for the element of that iteration; the loop has visited every element when it leaves through the header's exit edge.
	for _, sl := range sliceLoops(fn) {
		iff, ok := blockTerm(sl.Header).(*ssa.If)
		if !ok {
			continue
		}
		bo, ok := iff.Cond.(*ssa.BinOp)
		if !ok || !c06CountsFromZero(sl.Header, bo) {
			continue
		}
		// the edges a re-test of an already decided condition cannot take (c06RetestDead) are not ways through the iteration
		labels, ok := fi.mustPassBetweenCut([]int{sl.Body.Index}, map[int]bool{sl.Header.Index: true}, c06RetestDead(fn))
		if !ok {
			continue
		}
		chain := desc(sl.X)
		elem := chain + "[@" + bo.X.Name() + "]"
		s := &c06Scan{Chain: asub.apply(chain), Pass: map[edgeKey]bool{}, Tails: map[*ssa.Call]bool{}, Site: w.InstrPos(iff)}
		fsub := c06FreeSub(fn)
		s.Facts = c06FactSet(labels, func(l string) string { return asub.apply(fsub.apply(strings.ReplaceAll(l, elem, chain+"[*]"))) })
		for j, t := range sl.Header.Succs {
			if t == sl.Exit && t != sl.Body {
				s.Pass[edgeKey{sl.Header.Index, j}] = true
			}
		}
		out = append(out, s)
	}
	for _, ci := range allCalls(fn) {
		c, ok := ci.(*ssa.Call)
		if !ok {
			continue
		}
		name := calleeName(c)
		// (2) slices.IndexFunc / slices.ContainsFunc (standard library): a left-to-right search for the first element the
		// predicate accepts; "none found" means the predicate answered false for every element, "found" that it answered
		// true for some element.
		if (name == "slices.IndexFunc" || name == "slices.ContainsFunc") && len(c.Call.Args) == 2 {
			pf, binds := c06PredFn(c.Call.Args[1])
			if pf == nil || pf.Blocks == nil || !w.IsProductFn(pf) || len(pf.Params) != 1 {
				continue
			}
			chain := desc(c.Call.Args[0])
			sub := &c06Sub{}
			sub.add("param:"+pf.Params[0].Name(), chain+"[*]")
			for i, b := range binds {
				if i >= len(pf.FreeVars) {
					break
				}
				d := desc(b)
				if al, isAl := b.(*ssa.Alloc); isAl {
					if v := c06Snapshot(al); v != nil {
						d = desc(v)
					}
				}
				sub.add("free:"+pf.FreeVars[i].Name(), d)
			}
			tr := func(l string) string { return asub.apply(sub.apply(l)) }
			sF := w.Summarize(pf, Mode{Kind: mBool, Want: false})
			if sF == nil || !sF.Complete || len(sF.Exits) == 0 {
				continue
			}
			s := &c06Scan{Chain: asub.apply(chain), Facts: c06FactSet(sF.Checked, tr), Pass: map[edgeKey]bool{}, Tails: map[*ssa.Call]bool{}, Call: c, Want: false, Site: w.InstrPos(c)}
			if sT := w.Summarize(pf, Mode{Kind: mBool, Want: true}); sT != nil && sT.Complete && len(sT.Exits) > 0 {
				s.Exists = c06FactSet(sT.Checked, tr)
			}
			for _, b := range fn.Blocks {
				iff, ok := blockTerm(b).(*ssa.If)
				if !ok || len(b.Succs) != 2 || b.Succs[0] == b.Succs[1] {
					continue
				}
				j := -1
				if name == "slices.ContainsFunc" {
					j = c06BoolEdge(iff, c, false)
				} else {
					j = c06NoneEdge(iff, c)
				}
				if j >= 0 {
					s.Pass[edgeKey{b.Index, j}] = true
				}
			}
			out = append(out, s)
			continue
		}
		// (3) a module function that contains the scan: when every exit of the helper that reports success (an error
		// helper) or the answer `want` (a predicate) lies behind a scan of the helper, the caller's edge "helper succeeded"
		// / "helper answered want" carries the helper's per-element facts, parameters replaced by the arguments.
		g := staticCallee(c)
		if g == nil || g == fn || g.Blocks == nil || !w.IsProductFn(g) || len(c.Call.Args) != len(g.Params) {
			continue
		}
		rs := g.Signature.Results()
		if rs.Len() == 0 {
			continue
		}
		sub := &c06Sub{}
		for i, p := range g.Params {
			sub.add("param:"+p.Name(), desc(c.Call.Args[i]))
		}
		tr := func(l string) string { return asub.apply(sub.apply(l)) }
		trSet := func(m map[string]bool) map[string]bool {
			o := map[string]bool{}
			for l := range m {
				o[tr(l)] = true
			}
			return o
		}
		if isErrorType(rs.At(rs.Len() - 1).Type()) {
			for _, hs := range sc.covering(g, Mode{Kind: mErr}) {
				s := &c06Scan{Chain: tr(hs.Chain), Facts: trSet(hs.Facts), Pass: map[edgeKey]bool{}, Tails: map[*ssa.Call]bool{c: true}, Call: c, Site: w.InstrPos(c)}
				for _, b := range fn.Blocks {
					if iff, ok := blockTerm(b).(*ssa.If); ok && len(b.Succs) == 2 && b.Succs[0] != b.Succs[1] {
						if j := c06ErrNilEdge(iff, c); j >= 0 {
							s.Pass[edgeKey{b.Index, j}] = true
						}
					}
				}
				out = append(out, s)
			}
		} else if bt, isB := rs.At(0).Type().Underlying().(*types.Basic); isB && rs.Len() == 1 && bt.Kind() == types.Bool {
			for _, want := range []bool{false, true} {
				for _, hs := range sc.covering(g, Mode{Kind: mBool, Want: want}) {
					s := &c06Scan{Chain: tr(hs.Chain), Facts: trSet(hs.Facts), Pass: map[edgeKey]bool{}, Tails: map[*ssa.Call]bool{}, Call: c, Want: want, Site: w.InstrPos(c)}
					if so := w.Summarize(g, Mode{Kind: mBool, Want: !want}); so != nil && so.Complete && len(so.Exits) > 0 {
						s.Exists = c06FactSet(so.Checked, func(l string) string { return tr(c06ElemStar(l, hs.Chain)) })
					}
					for _, b := range fn.Blocks {
						if iff, ok := blockTerm(b).(*ssa.If); ok && len(b.Succs) == 2 && b.Succs[0] != b.Succs[1] {
							if j := c06BoolEdge(iff, c, want); j >= 0 {
								s.Pass[edgeKey{b.Index, j}] = true
							}
						}
					}
					out = append(out, s)
				}
			}
		}
	}
	sc.memo[fn] = out
	return out
}

// covers: no success-capable exit of fi.Fn under mode is reachable from the start states once the scan's passing edges
// (and the edges of baseCut) are removed, exits that forward the scan helper's own verdict aside.
func (sc *c06Scanner) covers(fi *FnInfo, mode Mode, starts []state, baseCut map[edgeKey]bool, s *c06Scan) []string {
	cut := map[edgeKey]bool{}
	for k := range baseCut {
		cut[k] = true
	}
	for k := range s.Pass {
		cut[k] = true
	}
	saved := fi.ignoreTail
	fi.ignoreTail = s.Tails
	wit := c06Witness(fi, mode, starts, cut)
	fi.ignoreTail = saved
	return wit
}

// covering: the scans of g behind which every exit of g that is success-capable under mode lies.
func (sc *c06Scanner) covering(g *ssa.Function, mode Mode) []*c06Scan {
	k := c06ScanKey{g, mode}
	if r, ok := sc.cov[k]; ok {
		return r
	}
	var out []*c06Scan
	fi := sc.w.Info(g)
	for _, s := range sc.scans(g) {
		if len(s.Pass) == 0 && len(s.Tails) == 0 {
			continue
		}
		if sc.covers(fi, mode, entryState(), nil, s) == nil {
			out = append(out, s)
		}
	}
	sc.cov[k] = out
	return out
}

// lifted: the scans of fn in the frame fr.
func (sc *c06Scanner) lifted(fn *ssa.Function, fr *c06Frame) []*c06Scan {
	var out []*c06Scan
	for _, s := range sc.scans(fn) {
		cp := *s
		cp.Chain = fr.lift(s.Chain)
		cp.Facts = map[string]bool{}
		for l := range s.Facts {
			cp.Facts[fr.lift(l)] = true
		}
		if s.Exists != nil {
			cp.Exists = map[string]bool{}
			for l := range s.Exists {
				cp.Exists[fr.lift(l)] = true
			}
		}
		out = append(out, &cp)
	}
	return out
}

func c06HasFact(facts map[string]bool, pre, suf string) bool {
	for l := range facts {
		if strings.HasPrefix(l, pre) && strings.HasSuffix(l, suf) && len(l) >= len(pre)+len(suf) {
			return true
		}
	}
	return false
}

// ---------- the timestamp function and its helpers ---------------------------------------------------------------------------

// c06ReachesParse: the countersignature is parsed in g or in a module function g (transitively) calls.
func c06ReachesParse(w *World, g *ssa.Function) bool {
	if g == nil || g.Blocks == nil {
		return false
	}
	if r, ok := c06ParseMemo[g]; ok {
		return r
	}
	r := false
	for _, f := range w.moduleCallees(g) {
		if len(findCalls(f, "tspclient.ParseSignedToken")) > 0 {
			r = true
			break
		}
	}
	c06ParseMemo[g] = r
	return r
}

var c06ParseMemo = map[*ssa.Function]bool{}

// c06TsBlocks: where the timestamp regime begins in T — the block of the countersignature presence test (or of the
// parsing) if T does that itself, otherwise the block(s) from which T calls the helper that does. Whether control reaches
// such a block is "the countersignature is going to be verified"; what lies behind it is judged by the must-pass facts the
// engine composes through the calls.
func c06TsBlocks(w *World, T *ssa.Function) []*ssa.BasicBlock {
	if b := tsStopBlock(T); b != nil {
		return []*ssa.BasicBlock{b}
	}
	var out []*ssa.BasicBlock
	seen := map[*ssa.BasicBlock]bool{}
	for _, ci := range allCalls(T) {
		g := staticCallee(ci)
		if g == nil || g == T || !w.IsProductFn(g) || !c06ReachesParse(w, g) {
			continue
		}
		if b := ci.Block(); !seen[b] {
			seen[b] = true
			out = append(out, b)
		}
	}
	return out
}

// c06LifterIn: the translation of a label of g — a function of T's call tree — into the frame T's own labels are judged
// in: up the chain of single callers (c06FrameOf) until T is reached, then T's frame. A function that cannot be lifted
// keeps its own frame (and a rule that needs the provenance of one of its parameters does not find it).
func c06LifterIn(w *World, g, T *ssa.Function, frT *c06Frame) func(string) string {
	if g == T {
		return frT.lift
	}
	var chain []*c06Frame
	cur := g
	for i := 0; i < 4 && cur != T; i++ {
		fr := c06FrameOf(w, cur)
		if fr.Fn == cur {
			break
		}
		chain = append(chain, fr)
		cur = fr.Fn
	}
	return func(l string) string {
		for _, fr := range chain {
			l = fr.lift(l)
		}
		if cur == T {
			l = frT.lift(l)
		}
		return l
	}
}

// c06TreeCalls: the calls of the named callees in T and in the module functions T (transitively) calls.
func c06TreeCalls(w *World, T *ssa.Function, names ...string) []*ssa.Call {
	var out []*ssa.Call
	for _, f := range w.moduleCallees(T) {
		for _, ci := range findCalls(f, names...) {
			if call, ok := ci.(*ssa.Call); ok {
				out = append(out, call)
			}
		}
	}
	return out
}

// ---------- the regime decision, followed through helpers -----------------------------------------------------------------

const c06aTuple = 100 // marker: the results of this call were bound to its Extract instructions

// c06Explorer follows every abstract path of the timestamp function from its entry until it returns or enters the
// timestamp regime, over the abstract inputs "a tsa store is listed", "the verifyTimestamp option" and "a certificate is
// expired". It is the engine's abstract interpreter (same instruction semantics: Interp.eval) with one addition: a call of
// a module function that takes part in the decision — it is handed an abstractly known value, or answers a boolean — is
// followed into the callee with the abstract arguments bound to its parameters, and each of the callee's returns continues
// the caller's path with the abstract value it returned. Executing the helper's body on the caller's values is what the
// call does, so the table obtained is that of the program with the helper inlined.
type c06Explorer struct {
	w        *World
	sc       *c06Scanner
	root     *ssa.Function
	stops    map[*ssa.BasicBlock]bool
	G        *ssa.Function // the tsa-enabled helper: its answer is an abstract input
	tsaIn    bool
	expIn    bool
	optIn    string
	Steps    int
	Overflow bool
	outs     []c06XOut
	// Blind: the loops over a slice (by the site of their header) that decide on the expiry of a certificate and in which
	// an iteration can go round without comparing the element's NotAfter with time.Now() (blindIterations)
	Blind     map[string]bool
	Loops     int
	blindDone map[*ssa.Function]bool
}

type c06XFrame struct {
	fn       *ssa.Function
	lift     func(string) string
	ip       *Interp
	fi       *FnInfo
	expScans map[*ssa.Call]*c06Scan
	expEdge  map[*ssa.BasicBlock]int8
	depth    int
	parent   *c06XFrame
}

type c06PathKey struct {
	b    *ssa.BasicBlock
	saw  bool
	vars string
}

type c06XOut struct {
	Stop  *ssa.BasicBlock
	Ret   *ssa.Return
	Vals  []AVal
	Saw   bool // the path took an edge "a certificate's NotAfter is before time.Now()" (or was told so by a proven scan)
	Panic bool
}

func (x *c06Explorer) newFrame(fn *ssa.Function, lift func(string) string, parent *c06XFrame) *c06XFrame {
	fr := &c06XFrame{fn: fn, fi: x.w.Info(fn), lift: lift, parent: parent, expScans: map[*ssa.Call]*c06Scan{}, expEdge: map[*ssa.BasicBlock]int8{}}
	if parent != nil {
		fr.depth = parent.depth + 1
	}
	// the "chain expired" decision taken by a call instead of an inline loop: a boolean call q that is a whole-chain scan
	// (helper containing the loop, or slices.ContainsFunc) with: q == Want  =>  for every certificate NotAfter is not before
	// time.Now() (none expired), and q != Want  =>  for some certificate NotAfter is before time.Now() (one expired).
	// Then q's answer is the abstract input "expired" of the decision table, exactly what the inline loop computes.
	for _, s := range x.sc.scans(fn) {
		if s.Call == nil || s.Exists == nil {
			continue
		}
		if bt, isB := s.Call.Type().Underlying().(*types.Basic); !isB || bt.Kind() != types.Bool {
			continue
		}
		chain := lift(s.Chain)
		if !strings.HasSuffix(chain, ".SignerInfo.CertificateChain") {
			continue
		}
		all, some := false, false
		for l := range s.Facts {
			if lift(l) == "NOTBEFORE("+chain+"[*].NotAfter,call:time.Now())" {
				all = true
			}
		}
		for l := range s.Exists {
			if lift(l) == "BEFORE("+chain+"[*].NotAfter,call:time.Now())" {
				some = true
			}
		}
		if all && some {
			fr.expScans[s.Call] = s
		}
	}
	x.blindIterations(fr)
	fr.ip = &Interp{Fn: fn, TrackStrings: true, IntTypes: map[string]bool{"*": true}} // integer constants are tracked: a helper may answer with an enumeration
	fr.ip.Hook = func(in ssa.Instruction, env map[ssa.Value]AVal) (AVal, bool) {
		if call, ok := in.(*ssa.Call); ok {
			if s := fr.expScans[call]; s != nil {
				return AVal{Kind: aBool, B: x.expIn != s.Want}, true
			}
		}
		if ex, ok := in.(*ssa.Extract); ok {
			if gc, isCall := ex.Tuple.(*ssa.Call); isCall && x.G != nil && staticCallee(gc) == x.G {
				if ex.Index == 0 {
					return AVal{Kind: aBool, B: x.tsaIn}, true
				}
				return AVal{Kind: aNil}, true
			}
		}
		if v, ok := in.(ssa.Value); ok {
			switch in.(type) {
			case *ssa.UnOp, *ssa.Field:
				if strings.HasSuffix(lift(desc(v)), ".VerifyTimestamp") {
					return AVal{Kind: aStr, Str: x.optIn}, true
				}
			}
		}
		return AVal{}, false
	}
	return fr
}

// expiredEdge: the true edge of the block's branch carries "this certificate's NotAfter is before time.Now()".
func (fr *c06XFrame) expiredEdge(from, to *ssa.BasicBlock) bool {
	iff, ok := blockTerm(from).(*ssa.If)
	if !ok || from.Succs[0] != to {
		return false
	}
	r, ok := fr.expEdge[from]
	if !ok {
		r = -1
		if fr.expiredLabel(condLabel(iff.Cond, true)) {
			r = 1
		} else if comp := fr.fi.composeCond(iff.Cond, true); comp != nil && comp.Complete {
			// the test handed to a module predicate: what every "true" answer of the predicate has established, in this frame
			for l := range comp.Checked {
				if fr.expiredLabel(l) {
					r = 1
				}
			}
		}
		fr.expEdge[from] = r
	}
	return r == 1
}

// expiredLabel: the fact reads "an element's NotAfter is before time.Now()" in the frame of the timestamp function.
func (fr *c06XFrame) expiredLabel(l string) bool {
	op, args := splitTopArgs(fr.lift(c06Canon(l)))
	return op == "BEFORE" && len(args) == 2 && strings.HasSuffix(args[0], "].NotAfter") && args[1] == "call:time.Now()"
}

func (fr *c06XFrame) onStack(g *ssa.Function) bool {
	for f := fr; f != nil; f = f.parent {
		if f.fn == g {
			return true
		}
	}
	return false
}

// seed binds the parameters of the frame's function: to the abstract value of the argument, and — whatever it is called —
// to the option input when what the caller passes is the policy's VerifyTimestamp.
func (x *c06Explorer) seed(fr *c06XFrame, env map[ssa.Value]AVal, args []AVal) {
	for i, p := range fr.fn.Params {
		a := top
		if i < len(args) {
			a = args[i]
		}
		if a.Kind == aTop && strings.HasSuffix(fr.lift("param:"+p.Name()), ".VerifyTimestamp") {
			a = AVal{Kind: aStr, Str: x.optIn}
		}
		env[p] = a
	}
}

// Run explores the root function under the current inputs.
func (x *c06Explorer) Run(frT *c06Frame) []c06XOut {
	x.outs = nil
	fr := x.newFrame(x.root, frT.lift, nil)
	env := map[ssa.Value]AVal{}
	x.seed(fr, env, nil)
	x.walk(fr, x.root.Blocks[0], 0, nil, env, map[c06PathKey]bool{}, false, true, func(o c06XOut) { x.outs = append(x.outs, o) })
	return x.outs
}

func (x *c06Explorer) follow(fr *c06XFrame, c *ssa.Call, env map[ssa.Value]AVal) *ssa.Function {
	g := staticCallee(c)
	if g == nil || g.Blocks == nil || !x.w.IsProductFn(g) || c.Call.IsInvoke() || len(c.Call.Args) != len(g.Params) {
		return nil
	}
	if g == x.G || fr.expScans[c] != nil || fr.depth >= 4 || fr.onStack(g) || c06ReachesParse(x.w, g) {
		return nil
	}
	rs := g.Signature.Results()
	for i := 0; i < rs.Len(); i++ {
		if bt, ok := rs.At(i).Type().Underlying().(*types.Basic); ok && bt.Kind() == types.Bool {
			return g
		}
	}
	for _, a := range c.Call.Args {
		if fr.ip.val(a, env).Kind != aTop {
			return g
		}
	}
	return nil
}

func (x *c06Explorer) walk(fr *c06XFrame, b *ssa.BasicBlock, idx int, from *ssa.BasicBlock, env map[ssa.Value]AVal, onPath map[c06PathKey]bool, saw, first bool, emit func(c06XOut)) {
	if x.Overflow {
		return
	}
	if x.Steps > 3000000 {
		x.Overflow = true
		return
	}
	ip := fr.ip
	if idx == 0 {
		if !first && fr.parent == nil && x.stops[b] {
			emit(c06XOut{Stop: b, Saw: saw})
			return
		}
		if from != nil {
			pi := -1
			for i, p := range b.Preds {
				if p == from {
					pi = i
				}
			}
			newVals := map[ssa.Value]AVal{}
			for _, in := range b.Instrs {
				p, ok := in.(*ssa.Phi)
				if !ok {
					break
				}
				if pi >= 0 && pi < len(p.Edges) {
					newVals[p] = ip.val(p.Edges[pi], env)
				} else {
					newVals[p] = top
				}
			}
			for k, v := range newVals {
				env[k] = v
			}
		}
		// the block revisited on this path in the same abstract state (a loop went round and nothing changed): nothing new.
		// The state is what the path has learnt (a certificate is expired) and the abstract values of the variables merged at
		// the block (a flag the loop body sets or clears), so "expired, then not expired" is followed to its end.
		pk := c06PathKey{b, saw, ""}
		for _, in := range b.Instrs {
			p, ok := in.(*ssa.Phi)
			if !ok {
				break
			}
			pk.vars += env[p].String() + "|"
		}
		if onPath[pk] {
			return
		}
		onPath[pk] = true
		defer delete(onPath, pk)
	}
	for i := idx; i < len(b.Instrs); i++ {
		in := b.Instrs[i]
		x.Steps++
		switch t := in.(type) {
		case *ssa.Phi:
			continue
		case *ssa.Return:
			o := c06XOut{Ret: t, Saw: saw}
			for _, r := range t.Results {
				o.Vals = append(o.Vals, ip.val(r, env))
			}
			emit(o)
			return
		case *ssa.Panic:
			emit(c06XOut{Panic: true, Saw: saw})
			return
		case *ssa.If:
			cv := ip.val(t.Cond, env)
			for j, s := range b.Succs {
				if cv.Kind == aBool && cv.B != (j == 0) {
					continue
				}
				e2 := env
				if cv.Kind != aBool {
					e2 = copyEnv(env)
				}
				x.walk(fr, s, 0, b, e2, onPath, saw || fr.expiredEdge(b, s), false, emit)
			}
			return
		case *ssa.Jump:
			x.walk(fr, b.Succs[0], 0, b, env, onPath, saw, false, emit)
			return
		case *ssa.Extract:
			if tv, ok := env[t.Tuple]; ok && tv.Kind == c06aTuple {
				if _, bound := env[t]; bound {
					continue
				}
			}
			ip.eval(in, env)
		case *ssa.Call:
			if s := fr.expScans[t]; s != nil && x.expIn {
				saw = true
			}
			g := x.follow(fr, t, env)
			if g == nil {
				ip.eval(in, env)
				switch calleeName(t) {
				case "fmt.Errorf", "errors.New":
					env[t] = AVal{Kind: aNonNil} // never nil (the engine's nonNil knows the same two)
				}
				continue
			}
			// the callee's frame: its labels name the caller's values
			sub := &c06Sub{}
			var args []AVal
			for k, p := range g.Params {
				sub.add("param:"+p.Name(), fr.lift(desc(t.Call.Args[k])))
				args = append(args, ip.val(t.Call.Args[k], env))
			}
			asub := c06AllocSub(g)
			cfr := x.newFrame(g, func(l string) string { return sub.apply(asub.apply(l)) }, fr)
			cenv := map[ssa.Value]AVal{}
			x.seed(cfr, cenv, args)
			_, isTuple := t.Type().(*types.Tuple)
			x.walk(cfr, g.Blocks[0], 0, nil, cenv, map[c06PathKey]bool{}, saw, true, func(o c06XOut) {
				if o.Ret == nil {
					if o.Panic {
						emit(o)
					}
					return
				}
				e2 := copyEnv(env)
				if isTuple {
					e2[t] = AVal{Kind: c06aTuple}
					if refs := t.Referrers(); refs != nil {
						for _, r := range *refs {
							if ex, ok := r.(*ssa.Extract); ok && ex.Index < len(o.Vals) {
								e2[ex] = o.Vals[ex.Index]
							}
						}
					}
				} else if len(o.Vals) == 1 {
					e2[t] = o.Vals[0]
				} else {
					e2[t] = top
				}
				x.walk(fr, b, i+1, from, e2, onPath, o.Saw, false, emit)
			})
			return
		default:
			ip.eval(in, env)
		}
	}
}

// ---------- provenance of a value across the call tree -------------------------------------------------------------------

// c06Prov decides where a value comes from on SSA values, across the call tree: "on every call chain that reaches this
// point, the value is what was read from field <field> of a <pkg> type" (the statement's trust stores: field TrustStores
// of a trustpolicy type). How the value travels is immaterial as long as every hop hands on the very same value:
//
//   - a parameter of a function that is only ever called statically: the corresponding argument at EVERY call site
//     (context-insensitive: all callers must agree, which over-approximates the chains that really occur);
//   - a field read of a struct value (several parameters bundled into a struct, an options/state struct, a method
//     receiver): the value stored into that very field where the struct was built — a composite literal or a local
//     filled field by field, each field written once before the first read and the object read-only afterwards, here and in
//     the callees/closures that see its address (c06FieldLit) — or the same field of the value the struct was copied from
//     (c06Snapshot); by value or through a pointer (the pointer parameter is the callers' argument);
//   - a variable captured by a closure: the binding at every site that creates the closure;
//   - a phi: every incoming value;
//   - the result of a module function (a constructor that builds the bundle): what each of its returns hands out.
//
// Anything else (a value that was computed, re-sliced, loaded from memory that is written elsewhere, received by an
// exported or dynamically callable function) is not followed: the answer is then "no", and the obligation fails.
type c06Prov struct {
	w      *World
	pkg    string // package (relative to the module) that declares the struct type
	field  string
	active map[string]bool
	steps  int
}

func c06Prepend(s string, path []string) []string {
	return append([]string{s}, path...)
}

// isSource: v reads field <field> of a struct type declared in <pkg> (by value or through a pointer).
func (p *c06Prov) isSource(v ssa.Value) bool {
	var t types.Type
	var idx int
	switch x := v.(type) {
	case *ssa.Field:
		t, idx = x.X.Type(), x.Field
	case *ssa.UnOp:
		fa, ok := x.X.(*ssa.FieldAddr)
		if x.Op != token.MUL || !ok {
			return false
		}
		t, idx = fa.X.Type(), fa.Field
	default:
		return false
	}
	if fieldName(t, idx) != p.field {
		return false
	}
	if pt, ok := t.Underlying().(*types.Pointer); ok {
		t = pt.Elem()
	}
	if a, ok := t.(*types.Alias); ok {
		t = types.Unalias(a)
	}
	n, ok := t.(*types.Named)
	return ok && n.Obj().Pkg() != nil && n.Obj().Pkg().Path() == modPath+"/"+p.pkg
}

var c06StaticMemo = map[*ssa.Function]bool{}

// c06StaticOnly: every execution of fn starts at a static call in the product code: it is a declared, unexported function
// or method, it is never used as a value (stored, bound, passed, method value/expression), and — for a method — no
// interface call anywhere in the product names a method of that name (an unexported method can only be invoked through
// an interface of its own package).
func c06StaticOnly(w *World, fn *ssa.Function) bool {
	if r, ok := c06StaticMemo[fn]; ok {
		return r
	}
	r := fn.Parent() == nil && fn.Synthetic == "" && !token.IsExported(fn.Name()) && fn.Blocks != nil
	for _, g := range w.Funcs {
		if !r {
			break
		}
		for _, b := range g.Blocks {
			for _, in := range b.Instrs {
				if ci, ok := in.(ssa.CallInstruction); ok {
					cc := ci.Common()
					if cc.IsInvoke() {
						if fn.Signature.Recv() != nil && cc.Method != nil && cc.Method.Name() == fn.Name() {
							r = false
						}
					} else if cc.Value == ssa.Value(fn) {
						if c06ArgIs(ci, fn) {
							r = false
						}
						continue
					}
				}
				for _, op := range in.Operands(nil) {
					if op != nil && *op == ssa.Value(fn) {
						r = false
					}
				}
			}
		}
	}
	c06StaticMemo[fn] = r
	return r
}

// callers: f holds for the argument in par's position at every static call site of fn (and there is one).
func (p *c06Prov) callers(fn *ssa.Function, par *ssa.Parameter, f func(g *ssa.Function, a ssa.Value) bool) bool {
	idx := -1
	for i, q := range fn.Params {
		if q == par {
			idx = i
		}
	}
	if idx < 0 || !c06StaticOnly(p.w, fn) {
		return false
	}
	n := 0
	for _, g := range p.w.Funcs {
		if strings.HasPrefix(g.Synthetic, "wrapper for ") {
			continue // reachable only through an interface value or a method expression, which c06StaticOnly has excluded
		}
		for _, ci := range allCalls(g) {
			if staticCallee(ci) != fn {
				continue
			}
			args := ci.Common().Args
			if len(args) != len(fn.Params) || g == fn {
				return false
			}
			n++
			if !f(g, args[idx]) {
				return false
			}
		}
	}
	return n > 0
}

// bindings: f holds for what the free variable is bound to at every site that creates the closure.
func (p *c06Prov) bindings(fn *ssa.Function, fv *ssa.FreeVar, f func(g *ssa.Function, a ssa.Value) bool) bool {
	idx := -1
	for i, q := range fn.FreeVars {
		if q == fv {
			idx = i
		}
	}
	par := fn.Parent()
	if idx < 0 || par == nil {
		return false
	}
	n := 0
	for _, b := range par.Blocks {
		for _, in := range b.Instrs {
			if mc, ok := in.(*ssa.MakeClosure); ok && mc.Fn == ssa.Value(fn) {
				if idx >= len(mc.Bindings) {
					return false
				}
				n++
				if !f(par, mc.Bindings[idx]) {
					return false
				}
			}
		}
	}
	return n > 0
}

func (p *c06Prov) enter(kind string, v ssa.Value, path []string, depth int) (string, bool) {
	p.steps++
	if v == nil || depth > 14 || p.steps > 5000 {
		return "", false
	}
	key := fmt.Sprintf("%s/%p/%s", kind, v, strings.Join(path, "."))
	if p.active[key] {
		return "", false
	}
	p.active[key] = true
	return key, true
}

// value: the value v of fn, narrowed by the field path (outermost selection first), is the source field's value.
func (p *c06Prov) value(fn *ssa.Function, v ssa.Value, path []string, depth int) bool {
	if len(path) == 0 && p.isSource(v) {
		return true
	}
	key, ok := p.enter("v", v, path, depth)
	if !ok {
		return false
	}
	defer delete(p.active, key)
	switch x := v.(type) {
	case *ssa.Parameter:
		return p.callers(fn, x, func(g *ssa.Function, a ssa.Value) bool { return p.value(g, a, path, depth+1) })
	case *ssa.ChangeType:
		if len(path) == 0 {
			return p.value(fn, x.X, path, depth+1)
		}
	case *ssa.Field:
		return p.value(fn, x.X, c06Prepend(fieldName(x.X.Type(), x.Field), path), depth+1)
	case *ssa.Phi:
		for _, e := range x.Edges {
			if !p.value(fn, e, path, depth+1) {
				return false
			}
		}
		return len(x.Edges) > 0
	case *ssa.UnOp:
		if x.Op == token.MUL {
			return p.deref(fn, x.X, path, depth+1)
		}
	case *ssa.Call:
		return p.result(x, 0, 1, func(g *ssa.Function, r ssa.Value) bool { return p.value(g, r, path, depth+1) })
	case *ssa.Extract:
		if c, isCall := x.Tuple.(*ssa.Call); isCall {
			return p.result(c, x.Index, c.Call.Signature().Results().Len(), func(g *ssa.Function, r ssa.Value) bool { return p.value(g, r, path, depth+1) })
		}
	}
	return false
}

// result: f holds for the k-th value of every return of the module function the call names.
func (p *c06Prov) result(c *ssa.Call, k, n int, f func(g *ssa.Function, r ssa.Value) bool) bool {
	g := staticCallee(c)
	if g == nil || g.Blocks == nil || !p.w.IsProductFn(g) || c.Call.IsInvoke() || g.Signature.Results().Len() != n || g.Recover != nil {
		return false
	}
	m := 0
	for _, b := range g.Blocks {
		if r, ok := blockTerm(b).(*ssa.Return); ok {
			if k >= len(r.Results) || !f(g, r.Results[k]) {
				return false
			}
			m++
		}
	}
	return m > 0
}

// deref: what is stored at the address ptr of fn, narrowed by the field path, is the source field's value — whenever it is
// read (the memory is written once, before the first read: c06FieldLit / c06Snapshot).
func (p *c06Prov) deref(fn *ssa.Function, ptr ssa.Value, path []string, depth int) bool {
	key, ok := p.enter("d", ptr, path, depth)
	if !ok {
		return false
	}
	defer delete(p.active, key)
	switch x := ptr.(type) {
	case *ssa.Alloc:
		if len(path) > 0 {
			if fields, ok := c06FieldLit(x); ok {
				// the one store that covers the path (a store into the field itself, or into the struct it is nested in); a field
				// that was never written holds the zero value, one that is covered twice is not decided
				n, k := 0, 0
				for i := 1; i <= len(path); i++ {
					if _, has := fields[strings.Join(path[:i], ".")]; has {
						n, k = n+1, i
					}
				}
				if n == 1 {
					return p.value(fn, fields[strings.Join(path[:k], ".")], path[k:], depth+1)
				}
				return false
			}
		}
		if snap := c06Snapshot(x); snap != nil {
			return p.value(fn, snap, path, depth+1)
		}
	case *ssa.FieldAddr:
		return p.deref(fn, x.X, c06Prepend(fieldName(x.X.Type(), x.Field), path), depth+1)
	case *ssa.Parameter:
		return p.callers(fn, x, func(g *ssa.Function, a ssa.Value) bool { return p.deref(g, a, path, depth+1) })
	case *ssa.FreeVar:
		return p.bindings(fn, x, func(g *ssa.Function, a ssa.Value) bool { return p.deref(g, a, path, depth+1) })
	case *ssa.Phi:
		for _, e := range x.Edges {
			if !p.deref(fn, e, path, depth+1) {
				return false
			}
		}
		return len(x.Edges) > 0
	case *ssa.Call:
		// a constructor that hands out the address of a fresh object: nobody writes through the result here (in the callee the
		// object must be complete and read-only but for being returned: c06FieldLit)
		if !c06ReadOnly(x, 0, nil) {
			return false
		}
		return p.result(x, 0, 1, func(g *ssa.Function, r ssa.Value) bool {
			al, isAlloc := r.(*ssa.Alloc)
			if !isAlloc || !c06OnlyCalledReadOnly(p.w, g) {
				return false
			}
			return p.deref(g, al, path, depth+1)
		})
	}
	return false
}

// c06OnlyCalledReadOnly: g is only called statically and no caller writes through (or keeps) the pointer it returns.
func c06OnlyCalledReadOnly(w *World, g *ssa.Function) bool {
	if !c06StaticOnly(w, g) {
		return false
	}
	for _, f := range w.Funcs {
		for _, ci := range allCalls(f) {
			if staticCallee(ci) != g {
				continue
			}
			c, ok := ci.(*ssa.Call)
			if !ok || !c06ReadOnly(c, 0, nil) {
				return false
			}
		}
	}
	return true
}

// c06ReadOnlyBut is c06ReadOnly with a set of excepted stores (the initialising stores of the fields) that is handed down
// to the field addresses, and — for an object a constructor hands out — tolerating that the address is returned.
func c06ReadOnlyBut(v ssa.Value, depth int, except map[*ssa.Store]bool, retOK bool) bool {
	if depth > 5 {
		return false
	}
	refs := v.Referrers()
	if refs == nil {
		return false
	}
	for _, r := range *refs {
		switch x := r.(type) {
		case *ssa.DebugRef:
		case *ssa.UnOp:
			if x.Op != token.MUL {
				return false
			}
		case *ssa.Store:
			if except[x] && x.Addr == v && x.Val != v {
				continue
			}
			return false
		case *ssa.FieldAddr:
			if !c06ReadOnlyBut(x, depth+1, except, false) {
				return false
			}
		case *ssa.IndexAddr:
			if !c06ReadOnly(x, depth+1, nil) {
				return false
			}
		case *ssa.Return:
			if !retOK {
				return false
			}
		case *ssa.MakeInterface:
			if !onlyFormatted(x, 0) {
				return false
			}
		case *ssa.MakeClosure:
			fn, ok := x.Fn.(*ssa.Function)
			if !ok {
				return false
			}
			for i, b := range x.Bindings {
				if b == v {
					if i >= len(fn.FreeVars) || !c06ReadOnly(fn.FreeVars[i], depth+1, nil) {
						return false
					}
				}
			}
		case *ssa.Call:
			g := staticCallee(x)
			if g == nil || g.Blocks == nil || x.Call.IsInvoke() || len(x.Call.Args) != len(g.Params) {
				return false
			}
			for i, a := range x.Call.Args {
				if a == v && !c06ReadOnly(g.Params[i], depth+1, nil) {
					return false
				}
			}
		default:
			return false
		}
	}
	return true
}

// c06FieldLit: the struct object al is built field by field — each field (of the object or of a struct nested in it: the
// key is then the dotted path) written at most once, by a plain store in the block that creates the object and before
// anything reads the object or sees its address — and is read-only afterwards, in this function and in the callees and
// closures its address reaches (a constructor may return it): field path -> stored value. Every read of a field, whenever
// it happens and through whichever copy of the address, yields that value.
func c06FieldLit(al *ssa.Alloc) (map[string]ssa.Value, bool) {
	pt, ok := al.Type().Underlying().(*types.Pointer)
	if !ok || al.Referrers() == nil {
		return nil, false
	}
	if _, isStruct := pt.Elem().Underlying().(*types.Struct); !isStruct {
		return nil, false
	}
	out := map[string]ssa.Value{}
	except := map[*ssa.Store]bool{}
	last := -1
	var collect func(base ssa.Value, prefix string, depth int) bool
	collect = func(base ssa.Value, prefix string, depth int) bool {
		if base.Referrers() == nil || depth > 4 {
			return false
		}
		for _, r := range *base.Referrers() {
			fa, ok := r.(*ssa.FieldAddr)
			if !ok || fa.Referrers() == nil {
				continue
			}
			name := prefix + fieldName(base.Type(), fa.Field)
			for _, rr := range *fa.Referrers() {
				st, ok := rr.(*ssa.Store)
				if !ok || st.Addr != ssa.Value(fa) {
					continue
				}
				if _, dup := out[name]; dup || st.Block() != al.Block() || st.Val == ssa.Value(fa) {
					return false
				}
				out[name] = st.Val
				except[st] = true
				if i := instrIndex(st); i > last {
					last = i
				}
			}
			if !collect(fa, name+".", depth+1) {
				return false
			}
		}
		return true
	}
	if !collect(al, "", 0) || !c06ReadOnlyBut(al, 0, except, true) {
		return nil, false
	}
	// nothing looks at the object before it is complete
	var early func(base ssa.Value) bool
	early = func(base ssa.Value) bool {
		for _, r := range *base.Referrers() {
			if st, isSt := r.(*ssa.Store); isSt && except[st] {
				continue
			}
			if fa, ok := r.(*ssa.FieldAddr); ok {
				if fa.Referrers() != nil && early(fa) {
					return true
				}
				continue
			}
			if _, dbg := r.(*ssa.DebugRef); !dbg && r.Block() == al.Block() && instrIndex(r) < last {
				return true
			}
		}
		return false
	}
	if early(al) {
		return nil, false
	}
	return out, true
}

// c06ScannedLists: the lists whose elements the helper judges by their type prefix — the operand of strings.Cut /
// strings.HasPrefix is an element of the list (range or index loop).
func c06ScannedLists(g *ssa.Function) []ssa.Value {
	var out []ssa.Value
	seen := map[ssa.Value]bool{}
	for _, ci := range findCalls(g, "strings.Cut", "strings.HasPrefix", "strings.Index", "strings.SplitN", "strings.Split") {
		args := ci.Common().Args
		if len(args) == 0 {
			continue
		}
		ld, ok := unwrap(args[0]).(*ssa.UnOp)
		if !ok || ld.Op != token.MUL {
			continue
		}
		ia, ok := ld.X.(*ssa.IndexAddr)
		if !ok {
			continue
		}
		if !seen[ia.X] {
			seen[ia.X] = true
			out = append(out, ia.X)
		}
	}
	return out
}

// c06FromPolicyStores: the value is, on every call chain, the TrustStores field of a trust policy statement.
func c06FromPolicyStores(w *World, fn *ssa.Function, v ssa.Value) bool {
	p := &c06Prov{w: w, pkg: "verifier/trustpolicy", field: "TrustStores", active: map[string]bool{}}
	return p.value(fn, v, nil, 0)
}

// ---------- the tsa-enabled helper never misses a listed tsa store -------------------------------------------------------

// c06TsaNeverMissed: the converse of regime/tsa-enabled-helper. That rule says the helper answers true ONLY for a listed
// tsa store; this one says it answers "none" (false, without an error) only when no listed store is a tsa store.
//
// Why the property needs it: the helper's answer is the input "a tsa store is listed" of the regime decision. When the
// policy lists a tsa store and timestamp verification applies, the envelope must carry a valid countersignature; if the
// helper can answer false although a tsa store is listed (the test was weakened by a conjunct, only part of the list is
// looked at, an exit before the scan), the decision falls back to "judge the chain at time.Now()" and a signature
// without (or with a forged) countersignature is accepted as long as its chain is valid now — fail-open.
//
// Formulated as a cut set, not on the spelling of the test: take the whole-list scans of the helper (c06Scanner: an
// inline loop that counts 0,1,2,.., a slices.ContainsFunc/IndexFunc search, a module helper containing the loop) whose
// per-element must-pass facts — what EVERY way through one iteration has established when the scan goes on to the next
// element — include "the type prefix of this element is not tsa", in any of the forms the positive rule knows
// (Cut(e, ":")#0 != "tsa", e[:Index(e, ":")] != "tsa", !HasPrefix(e, "tsa:")); remove the edges on which such a scan has
// visited every element; then no exit that answers false with a possibly-nil error may be reachable from the entry.
// Exits that answer true, exits whose error is provably non-nil (a malformed entry: the caller fails closed on them)
// and exits guarded by "the list is empty" are not "none" answers over a non-empty list and are left alone.
// Nested ifs, swapped operands, a switch, the test in a small predicate (composed by the engine) yield the same facts.
func c06TsaNeverMissed(c *Ctx, sc *c06Scanner, G *ssa.Function) {
	w := c.W
	fi := w.Info(G)
	rule := "the tsa-enabled helper answers false without an error only after every element of the scanned trust stores failed the test \"type prefix equals tsa\" (a listed tsa store is never missed)"
	targets := map[int]bool{}
	for _, b := range G.Blocks {
		r, ok := blockTerm(b).(*ssa.Return)
		if !ok || len(r.Results) != 2 {
			continue
		}
		if v, isB := boolConst(r.Results[0]); isB && v {
			continue // answers "listed"
		}
		if fi.nonNil(r.Results[1], b) {
			continue // an error exit
		}
		targets[b.Index] = true
	}
	c.Evals++
	if len(targets) == 0 {
		c.Unk("regime/tsa-store-never-missed", rule, w.FnPos(G), "the helper has no exit that answers false without an error")
		return
	}
	cut := map[edgeKey]bool{}
	var chains []string
	for _, s := range sc.scans(G) {
		if len(s.Pass) == 0 || !c06NotTsaFact(s.Facts, s.Chain+"[*]") {
			continue
		}
		for k := range s.Pass {
			cut[k] = true
		}
		chains = append(chains, s.Chain)
	}
	if len(chains) == 0 {
		c.Bad("regime/tsa-store-never-missed", rule, w.FnPos(G), "no whole-list scan of the helper establishes for every element that its type prefix is not tsa before going on: a listed tsa store can be passed over")
		return
	}
	// exits guarded by "the list is empty" need no scan
	asub := c06AllocSub(G)
	for bi := range targets {
		gl := fi.GuardsOf(blockTerm(G.Blocks[bi]))
		for l := range gl {
			l = asub.apply(l)
			for _, ch := range chains {
				if l == "EQ(len("+ch+"),const:0)" || l == "EQ("+ch+",nil)" {
					delete(targets, bi)
				}
			}
		}
	}
	for k := range c06RetestDead(G) {
		cut[k] = true
	}
	var wit []string
	for bi := range targets {
		if bi == 0 || fi.reachHit(entryState(), cut, map[int]bool{bi: true}) {
			wit = append(wit, fi.blockPos(G.Blocks[bi]))
		}
	}
	sort.Strings(wit)
	c.Check(len(wit) == 0, "regime/tsa-store-never-missed", rule, w.FnPos(G), "false is answered without an error on a path that has not seen every listed store fail the tsa test", wit...)
}

// c06NotTsaFact: the facts say that the type prefix of elem (what precedes its first ":") is not "tsa".
func c06NotTsaFact(facts map[string]bool, elem string) bool {
	for l := range facts {
		switch l {
		case `NE(call:strings.Cut(` + elem + `,const:":")#0,const:"tsa")`, `F(call:strings.HasPrefix(` + elem + `,const:"tsa:"))`:
			return true
		}
	}
	return false
}

// c06RetestDead: the edges of fn that cannot be taken because the very same SSA value was already branched on: block b2
// tests a value (negations stripped) that a dominating block b1 tested, and b2 is only reachable through one successor of
// b1 (that successor has b1 as its single predecessor and dominates b2). An SSA value is computed once per execution of
// its definition, and between that branch of b1 and b2 the definition cannot have run again without passing b1 again, so
// b2 sees the value b1 saw: the edge of b2 for the opposite value is dead. (`if !found { return } ... if found { .. }`.)
func c06RetestDead(fn *ssa.Function) map[edgeKey]bool {
	dead := map[edgeKey]bool{}
	for _, b2 := range fn.Blocks {
		if2, ok := blockTerm(b2).(*ssa.If)
		if !ok || len(b2.Succs) != 2 {
			continue
		}
		t2 := true
		c2 := stripNot(if2.Cond, &t2)
		if _, isK := c2.(*ssa.Const); isK {
			continue
		}
		for d := b2; d != nil && d.Idom() != nil; d = d.Idom() {
			b1 := d.Idom()
			if1, ok := blockTerm(b1).(*ssa.If)
			if !ok || len(b1.Succs) != 2 || b1.Succs[0] == b1.Succs[1] || len(d.Preds) != 1 {
				continue
			}
			t1 := true
			if stripNot(if1.Cond, &t1) != c2 {
				continue
			}
			k := -1
			for j, sc := range b1.Succs {
				if sc == d {
					k = j
				}
			}
			if k < 0 {
				continue
			}
			val := (k == 0) == t1 // the value of c2 on the way to b2
			for j := 0; j < 2; j++ {
				if ((j == 0) == t2) != val {
					dead[edgeKey{b2.Index, j}] = true
				}
			}
		}
	}
	return dead
}

// ---------- the decision "no certificate is expired" looks at every certificate ------------------------------------------

// expiredTest: the block branches on "this element's NotAfter is before time.Now()" (either polarity).
func (fr *c06XFrame) expiredTest(b *ssa.BasicBlock) bool {
	iff, ok := blockTerm(b).(*ssa.If)
	if !ok || len(b.Succs) != 2 {
		return false
	}
	for _, truth := range []bool{true, false} {
		if fr.expiredLabel(condLabel(iff.Cond, truth)) {
			return true
		}
		// handed to a module predicate: it is this test only if one answer establishes "expired" and the other "not expired"
		// (a predicate that answers false for other reasons as well leaves a way round the comparison)
		yes, no := fr.fi.composeCond(iff.Cond, truth), fr.fi.composeCond(iff.Cond, !truth)
		if yes == nil || no == nil || !yes.Complete || !no.Complete {
			continue
		}
		exp, notExp := false, false
		for l := range yes.Checked {
			exp = exp || fr.expiredLabel(l)
		}
		for l := range no.Checked {
			op, args := splitTopArgs(fr.lift(c06Canon(l)))
			notExp = notExp || (op == "NOTBEFORE" && len(args) == 2 && strings.HasSuffix(args[0], "].NotAfter") && args[1] == "call:time.Now()")
		}
		if exp && notExp {
			return true
		}
	}
	return false
}

// blindIterations: the decision table follows paths; a path that goes round the deciding loop without testing the
// certificate of that iteration has "not seen an expired certificate" and is judged like a path that saw an unexpired
// one. That is only right if no such way round exists. So, for every loop over a slice of a function the decision is
// followed through — in the timestamp function itself only the loops before the decision (the timestamp regime can be
// reached from them, and they cannot be reached from it; the valid-now scan and the loops of the regime are judged by
// their own rules) — that contains a test "NotAfter is before time.Now()": with both edges of these tests removed (and
// the edges a re-test cannot take, c06RetestDead), the loop header is not reachable from the loop body inside the loop.
// A cut set: it does not matter how the test is spelled, only that every way round passes it. A weakened test
// (`len(chain) > 1 && now.After(NotAfter)`) has a way round that skips it: an expired certificate is then not noticed,
// afterCertExpiry does not reach the timestamp regime and the chain is judged at time.Now() instead of the
// countersignature's time.
func (x *c06Explorer) blindIterations(fr *c06XFrame) {
	if x.blindDone == nil {
		x.blindDone = map[*ssa.Function]bool{}
		x.Blind = map[string]bool{}
	}
	fn := fr.fn
	if x.blindDone[fn] {
		return
	}
	x.blindDone[fn] = true
	// tests: the branches both of whose edges decide the comparison; learns: the branches one edge of which tells the
	// decision table "expired" (a predicate that answers false for other reasons too is of the second kind only)
	var tests, learns []*ssa.BasicBlock
	for _, b := range fn.Blocks {
		if fr.expiredTest(b) {
			tests = append(tests, b)
			learns = append(learns, b)
		} else if len(b.Succs) == 2 && fr.expiredEdge(b, b.Succs[0]) {
			learns = append(learns, b)
		}
	}
	if len(learns) == 0 {
		return
	}
	fi := x.w.Info(fn)
	dead := c06RetestDead(fn)
	for _, sl := range sliceLoops(fn) {
		lb := loopBlocks(sl.Header)
		cut := map[edgeKey]bool{}
		for _, b := range tests {
			if lb[b.Index] {
				cut[edgeKey{b.Index, 0}] = true
				cut[edgeKey{b.Index, 1}] = true
			}
		}
		decides := false
		for _, b := range learns {
			decides = decides || lb[b.Index]
		}
		if !decides || !lb[sl.Body.Index] {
			continue
		}
		if fr.parent == nil && !x.beforeDecision(sl.Header) {
			continue
		}
		x.Loops++
		for k := range dead {
			cut[k] = true
		}
		for bi := range lb {
			for j, t := range fn.Blocks[bi].Succs {
				if !lb[t.Index] {
					cut[edgeKey{bi, j}] = true
				}
			}
		}
		if fi.reachHit([]state{{sl.Body.Index, 0, -1}}, cut, map[int]bool{sl.Header.Index: true}) {
			x.Blind[x.w.InstrPos(blockTerm(sl.Header))] = true
		}
	}
}

// beforeDecision: a stop block (the timestamp regime) is reachable from b, and b is not reachable from a stop block.
func (x *c06Explorer) beforeDecision(b *ssa.BasicBlock) bool {
	reach := func(from []*ssa.BasicBlock) map[*ssa.BasicBlock]bool {
		seen := map[*ssa.BasicBlock]bool{}
		stack := append([]*ssa.BasicBlock{}, from...)
		for len(stack) > 0 {
			c := stack[len(stack)-1]
			stack = stack[:len(stack)-1]
			for _, t := range c.Succs {
				if !seen[t] {
					seen[t] = true
					stack = append(stack, t)
				}
			}
		}
		return seen
	}
	fromB := reach([]*ssa.BasicBlock{b})
	var stops []*ssa.BasicBlock
	hit := false
	for sb := range x.stops {
		stops = append(stops, sb)
		if fromB[sb] {
			hit = true
		}
	}
	return hit && !reach(stops)[b] && !x.stops[b]
}
