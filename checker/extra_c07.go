package main

import (
	"fmt"
	"go/constant"
	"go/token"
	"go/types"
	"sort"
	"strings"
	"sync"

	"golang.org/x/tools/go/ssa"
)

// Helpers of the C07 rule set that decide obligations on SSA values and across module helpers
// (rather than on the printed form of one function body).

// ---- the marshalled payload: where it is built, whom it reaches -----------------

// c07Sink: a store of the marshalled payload bytes into the Content / Payload field of a request object.
type c07Sink struct {
	Fn    *ssa.Function // the function that fills the request (the signer proper)
	Store *ssa.Store
	// DescParam: the parameter of Fn (an ocispec.Descriptor) the payload was built from, followed hop by hop through
	// the helpers' arguments; nil when the chain is broken somewhere (DescWhy says where).
	DescParam *ssa.Parameter
	DescWhy   string
}

// c07Writer: one json.Marshal(envelope.Payload) site with everything decided about it.
type c07Writer struct {
	Marshal *ssa.Call
	In      *ssa.Function
	// TargetOK: the marshalled value is a local Payload whose TargetArtifact is written only with sanitise(<parameter of In>)
	TargetOK bool
	Target   string // rendering of what TargetArtifact receives (for the detail)
	Sinks    []c07Sink
}

// c07Writers finds the payload writers (all product packages; the caller selects).
//
// Soundness of following the bytes through a helper: result k of a module function g is, at a call site of g, exactly the
// value g's Return hands back as result k. So "the bytes json.Marshal produced are what the request carries" holds in
// the caller when (1) the helper returns result 0 of that Marshal call as its result k and (2) the caller stores result
// k of its call of the helper into the request. Likewise "the payload describes the signer's descriptor parameter" holds
// when the helper builds the payload from its own parameter i and every caller on the way passes its descriptor
// parameter as argument i. Both are decided on SSA values, hop by hop; nothing is assumed about names or file layout.
func c07Writers(w *World, san *ssa.Function) []*c07Writer {
	var out []*c07Writer
	for _, fn := range w.Funcs {
		for _, ci := range allCalls(fn) {
			call, ok := ci.(*ssa.Call)
			if !ok || calleeName(call) != "encoding/json.Marshal" || len(call.Call.Args) != 1 {
				continue
			}
			a := unwrap(call.Call.Args[0])
			if namedOf(a.Type()) != "ngo/internal/envelope.Payload" {
				continue
			}
			wr := &c07Writer{Marshal: call, In: fn}
			var from *ssa.Parameter
			nStore := 0
			wr.TargetOK = true
			if al, isAl := unwrapLoadAlloc(a); isAl && al.Referrers() != nil {
				for _, r := range *al.Referrers() {
					fa, ok := r.(*ssa.FieldAddr)
					if !ok || fieldName(al.Type(), fa.Field) != "TargetArtifact" || fa.Referrers() == nil {
						continue
					}
					for _, rr := range *fa.Referrers() {
						st, ok := rr.(*ssa.Store)
						if !ok || st.Addr != ssa.Value(fa) {
							continue
						}
						nStore++
						wr.Target = desc(st.Val)
						p := c07SanitisedParam(st.Val, san, fn)
						if p == nil || (from != nil && from != p) {
							wr.TargetOK = false
							continue
						}
						from = p
					}
				}
			}
			if nStore == 0 || from == nil {
				wr.TargetOK = false
			}
			var bytes ssa.Value
			if refs := call.Referrers(); refs != nil {
				for _, r := range *refs {
					if ex, ok := r.(*ssa.Extract); ok && ex.Index == 0 {
						bytes = ex
					}
				}
			}
			if bytes != nil {
				if !wr.TargetOK {
					from = nil
				}
				c07FollowBytes(w, fn, bytes, from, "", 0, &wr.Sinks)
			}
			out = append(out, wr)
		}
	}
	return out
}

// c07SanitisedParam: v is san(<p>) with p a parameter of fn of type ocispec.Descriptor (read directly or through the
// parameter's spill cell); returns p.
func c07SanitisedParam(v ssa.Value, san, fn *ssa.Function) *ssa.Parameter {
	call, ok := v.(*ssa.Call)
	if !ok || san == nil || staticCallee(call) != san || len(call.Call.Args) != 1 {
		return nil
	}
	return c07ParamOf(call.Call.Args[0], fn)
}

// c07ParamOf: the value is a parameter of fn (or the load of the cell that holds nothing but that parameter).
func c07ParamOf(v ssa.Value, fn *ssa.Function) *ssa.Parameter {
	p, ok := loadOrigin(v).(*ssa.Parameter)
	if !ok || p.Parent() != fn {
		return nil
	}
	return p
}

func c07ParamIndex(fn *ssa.Function, p *ssa.Parameter) int {
	for i, q := range fn.Params {
		if q == p {
			return i
		}
	}
	return -1
}

// c07FollowBytes: v holds the marshalled payload in f, built from f's parameter `from` (nil: chain already broken, why says
// where). Records the request fields it is stored into, in f or — when f returns it — in f's callers.
func c07FollowBytes(w *World, f *ssa.Function, v ssa.Value, from *ssa.Parameter, why string, depth int, out *[]c07Sink) {
	if depth > 3 || v.Referrers() == nil {
		return
	}
	if from == nil && why == "" {
		why = "the payload marshalled in " + fnName(f) + " is not built from sanitise(<descriptor parameter>)"
	}
	for _, r := range *v.Referrers() {
		switch x := r.(type) {
		case *ssa.Store:
			fa, ok := x.Addr.(*ssa.FieldAddr)
			if !ok || x.Val != v {
				continue
			}
			if fld := fieldName(fa.X.Type(), fa.Field); fld == "Content" || fld == "Payload" {
				*out = append(*out, c07Sink{Fn: f, Store: x, DescParam: from, DescWhy: why})
			}
		case *ssa.Call:
			// handed to a module function (a constructor of the request, say): the callee's parameter is this very value
			c07FollowDown(w, f, x, v, from, why, depth+1, out)
		case *ssa.Return:
			for k, rv := range x.Results {
				if rv != v {
					continue
				}
				for _, g := range w.Funcs {
					for _, ci := range allCalls(g) {
						call, ok := ci.(*ssa.Call)
						if !ok || staticCallee(call) != f {
							continue
						}
						rk := c07ResultOf(call, k)
						if rk == nil {
							continue
						}
						var from2 *ssa.Parameter
						why2 := why
						if from != nil {
							if i := c07ParamIndex(f, from); i >= 0 && i < len(call.Call.Args) {
								from2 = c07ParamOf(call.Call.Args[i], g)
								if from2 == nil {
									why2 = fnName(g) + " hands " + desc(call.Call.Args[i]) + " (not its descriptor parameter) to " + fnName(f)
								}
							}
						}
						c07FollowBytes(w, g, rk, from2, why2, depth+1, out)
					}
				}
			}
		}
	}
}

// c07FollowDown: v (the marshalled payload, in the signing function `signer`) is an argument of call. A parameter of a
// module function is, during that call, the argument passed for it; so a store of the parameter into the Content /
// Payload field of a request inside the callee (or a callee of it) is a store of the signer's bytes. The sink is booked on
// the signer (it is the function whose descriptor parameter the payload was built from); the store tells where the request
// is filled.
func c07FollowDown(w *World, signer *ssa.Function, call *ssa.Call, v ssa.Value, from *ssa.Parameter, why string, depth int, out *[]c07Sink) {
	g := staticCallee(call)
	if depth > 3 || g == nil || g.Blocks == nil || !w.IsProductFn(g) || len(call.Call.Args) != len(g.Params) {
		return
	}
	var follow func(pv ssa.Value, n int)
	follow = func(pv ssa.Value, n int) {
		if n > 3 || pv.Referrers() == nil {
			return
		}
		for _, r := range *pv.Referrers() {
			switch x := r.(type) {
			case *ssa.Store:
				if x.Val != pv {
					continue
				}
				if fa, ok := x.Addr.(*ssa.FieldAddr); ok {
					if fld := fieldName(fa.X.Type(), fa.Field); fld == "Content" || fld == "Payload" {
						*out = append(*out, c07Sink{Fn: signer, Store: x, DescParam: from, DescWhy: why})
					}
				} else if al, ok := x.Addr.(*ssa.Alloc); ok && onlyDirectStore(al) == pv && al.Referrers() != nil {
					// the parameter's spill cell: its loads are the parameter
					for _, lr := range *al.Referrers() {
						if ld, ok := lr.(*ssa.UnOp); ok && ld.Op == token.MUL {
							follow(ld, n+1)
						}
					}
				}
			case *ssa.Call:
				c07FollowDown(w, signer, x, pv, from, why, depth+1, out)
			}
		}
	}
	for i, a := range call.Call.Args {
		if a == v {
			follow(g.Params[i], 0)
		}
	}
}

// c07DecidedUpward: the quantity rendered d in fn's vocabulary satisfies ok in fn — or, when fn is a helper that is
// handed less than the signer was (a closed list of call sites, c07CallSites: the helper runs only on behalf of those
// calls, its parameters being their arguments), in every caller, after rewriting d into the caller's vocabulary.
func c07DecidedUpward(w *World, fn *ssa.Function, d string, ok func(fn *ssa.Function, d string) bool, depth int) bool {
	if ok(fn, d) {
		return true
	}
	if depth >= 3 || !strings.Contains(d, "param:") {
		return false
	}
	sites, closed := c07CallSites(w, fn)
	if !closed || len(sites) == 0 {
		return false
	}
	for _, site := range sites {
		up := c07LiftOnce(d, fn, site)
		if strings.Contains(up, "param?:") || !c07DecidedUpward(w, site.Parent(), up, ok, depth+1) {
			return false
		}
	}
	return true
}

// c07ResultOf: the value of result k of a call (the call itself for a single result).
func c07ResultOf(call *ssa.Call, k int) ssa.Value {
	if _, isTuple := call.Type().(*types.Tuple); !isTuple {
		if k == 0 {
			return call
		}
		return nil
	}
	if call.Referrers() == nil {
		return nil
	}
	for _, r := range *call.Referrers() {
		if ex, ok := r.(*ssa.Extract); ok && ex.Index == k {
			return ex
		}
	}
	return nil
}

// c07SinkFns: the distinct functions that put the payload of some writer into a request, in a stable order.
func c07SinkFns(ws []*c07Writer) []*ssa.Function {
	var out []*ssa.Function
	seen := map[*ssa.Function]bool{}
	for _, wr := range ws {
		for _, s := range wr.Sinks {
			if !seen[s.Fn] {
				seen[s.Fn] = true
				out = append(out, s.Fn)
			}
		}
	}
	return out
}

// ---- values followed through phis, locals and module helpers ---------------------------
//
// Several clauses of C07 are statements about *which value* ends up somewhere (the expiry stored in the request, the map
// UserMetadata returns, the descriptor VerifyBlob returns). Where the value is computed is not part of the property: it
// may be written in place, held in a local that is defaulted and overwritten (a phi), or computed by a module helper
// that is handed the ingredients. c07Origins enumerates every way the value can have been produced, each with the
// facts known to hold whenever that way is the one taken, so the clause is decided once per origin.

// c07Frame: the body of Fn, entered through the call Call sitting in the frame Up (the root frame — the function the
// obligation is anchored in — has no Call and no Up).
type c07Frame struct {
	Fn   *ssa.Function
	Call *ssa.Call
	Up   *c07Frame
}

func (f *c07Frame) depth() int {
	n := 0
	for g := f; g.Up != nil; g = g.Up {
		n++
	}
	return n
}

func (f *c07Frame) root() *c07Frame {
	for f.Up != nil {
		f = f.Up
	}
	return f
}

// c07LiftOnce rewrites a rendering made in the vocabulary of fn into the vocabulary of the function containing call
// (a call of fn): every param:<p> becomes the rendering of the argument bound to p at that call.
func c07LiftOnce(s string, fn *ssa.Function, call *ssa.Call) string {
	var names, descs []string
	args := call.Call.Args
	for i, p := range fn.Params {
		if i < len(args) {
			names = append(names, p.Name())
			descs = append(descs, desc(args[i]))
		}
	}
	return substParams(s, names, descs)
}

// lift renders, in the vocabulary of the root frame, a description or label made in f's vocabulary.
func (f *c07Frame) lift(s string) string {
	for g := f; g.Up != nil; g = g.Up {
		s = c07LiftOnce(s, g.Fn, g.Call)
	}
	return s
}

func (f *c07Frame) liftAll(labels map[string]string) map[string]string {
	if f.Up == nil || len(labels) == 0 {
		return labels
	}
	out := map[string]string{}
	for l, site := range labels {
		if ll := f.lift(l); !strings.Contains(ll, "param?:") {
			out[ll] = site
		}
	}
	return out
}

// resolve follows a value that is a parameter bound by the frame's call to the argument in the calling frame
// (repeatedly), looking through locals that hold nothing but one value.
func (f *c07Frame) resolve(v ssa.Value) (ssa.Value, *c07Frame) {
	for {
		v = loadOrigin(v)
		p, ok := v.(*ssa.Parameter)
		if !ok || f.Up == nil || p.Parent() != f.Fn {
			return v, f
		}
		i := c07ParamIndex(f.Fn, p)
		if i < 0 || i >= len(f.Call.Call.Args) {
			return v, f
		}
		v, f = f.Call.Call.Args[i], f.Up
	}
}

// c07Enter: the frame of the static module callee of call (nil: not a module function with a body, recursion, too deep).
func c07Enter(w *World, f *c07Frame, call *ssa.Call) *c07Frame {
	g := staticCallee(call)
	if g == nil || g.Blocks == nil || !w.IsProductFn(g) || len(call.Call.Args) != len(g.Params) || f.depth() >= 3 {
		return nil
	}
	for h := f; h != nil; h = h.Up {
		if h.Fn == g {
			return nil
		}
	}
	return &c07Frame{Fn: g, Call: call, Up: f}
}

func c07Union(a, b map[string]string) map[string]string {
	if len(b) == 0 {
		return a
	}
	out := make(map[string]string, len(a)+len(b))
	for k, v := range a {
		out[k] = v
	}
	for k, v := range b {
		if _, ok := out[k]; !ok {
			out[k] = v
		}
	}
	return out
}

// c07PhiEdgeGuards: the facts known when phi takes its i-th edge — everything every path from the entry to the
// predecessor block must pass, plus the branch fact of the edge itself when the predecessor ends in a test.
func c07PhiEdgeGuards(fi *FnInfo, phi *ssa.Phi, i int) map[string]string {
	b := phi.Block()
	if i >= len(b.Preds) {
		return nil
	}
	p := b.Preds[i]
	out := map[string]string{}
	if t := blockTerm(p); t != nil {
		for l, s := range fi.GuardsOf(t) {
			out[l] = s
		}
	}
	if iff, ok := blockTerm(p).(*ssa.If); ok && len(p.Succs) == 2 && p.Succs[0] != p.Succs[1] {
		l := condLabel(iff.Cond, p.Succs[0] == b)
		out[l] = fi.W.InstrPos(iff)
		if tw, ok := labelTwin(l); ok {
			out[tw] = fi.W.InstrPos(iff)
		}
	}
	return out
}

// c07ExitValue: result k at a success-capable exit. The engine keeps the exits of a return block whose operand is a phi
// of that block apart by predecessor (ExitSum.Pred), so at such an exit the phi is the edge of that predecessor and the
// exit's must-pass facts are those of the paths through that edge.
func c07ExitValue(ex *ExitSum, k int) ssa.Value {
	v := ex.Ret.Results[k]
	if p, ok := v.(*ssa.Phi); ok && p.Block() == ex.Ret.Block() && ex.Pred >= 0 && ex.Pred < len(p.Edges) {
		return p.Edges[ex.Pred]
	}
	return v
}

// c07Origin: one way a value can have been produced.
type c07Origin struct {
	V      ssa.Value         // not a phi, not a bound parameter, not the result of a module function with a body
	F      *c07Frame         // the frame V lives in
	Guards map[string]string // facts that hold whenever V is the value that arrives, in the root frame's vocabulary
}

// c07Origins enumerates the origins of v (a value of frame f) given the facts `guards` already known at the use.
//
// Soundness of the steps:
//   - local holding one value (loadOrigin): the load yields that value;
//   - definition guards: an SSA value exists only on paths through its defining instruction, so what every path to the
//     definition must pass holds at every use;
//   - phi: the value is one of the edges, and on edge i the facts of c07PhiEdgeGuards hold;
//   - parameter of an entered frame: it is the argument of the call the frame was entered through;
//   - result k of a call of a module function g: it is operand k of one of g's Returns, under what every path to that
//     Return must pass in g (the callee's parameters rewritten to the call's arguments). When the caller is known to have
//     seen a nil error from that call, only g's success-capable exits (engine summary) can have delivered the value.
//
// complete is false when the walk was cut (depth): the list is then not exhaustive and nothing may be concluded from it.
func c07Origins(w *World, f *c07Frame, v ssa.Value, guards map[string]string) (out []c07Origin, complete bool) {
	return c07OriginsUntil(w, f, v, guards, nil)
}

// c07OriginsUntil is c07Origins with a stop predicate: a value for which stop holds is reported as an origin as it stands
// (with the facts collected so far) instead of being followed further — used where the clause is about a value being the
// result of a particular kind of computation (an application of the hash table) rather than about its ingredients.
func c07OriginsUntil(w *World, f *c07Frame, v ssa.Value, guards map[string]string, stop func(ssa.Value) bool) (out []c07Origin, complete bool) {
	complete = true
	type pk struct {
		f *c07Frame
		p *ssa.Phi
	}
	seen := map[pk]bool{}
	var walk func(f *c07Frame, v ssa.Value, g map[string]string, depth int)
	walk = func(f *c07Frame, v ssa.Value, g map[string]string, depth int) {
		v = loadOrigin(v)
		if depth > 10 {
			complete = false
			out = append(out, c07Origin{v, f, g})
			return
		}
		fi := w.Info(f.Fn)
		if in, ok := v.(ssa.Instruction); ok && in.Parent() == f.Fn && in.Block() != nil {
			g = c07Union(g, f.liftAll(fi.GuardsOf(in)))
		}
		if stop != nil && stop(v) {
			out = append(out, c07Origin{v, f, g})
			return
		}
		switch x := v.(type) {
		case *ssa.Phi:
			if seen[pk{f, x}] {
				return
			}
			seen[pk{f, x}] = true
			for i, e := range x.Edges {
				walk(f, e, c07Union(g, f.liftAll(c07PhiEdgeGuards(fi, x, i))), depth+1)
			}
			return
		case *ssa.Parameter:
			if f.Up != nil && x.Parent() == f.Fn {
				if i := c07ParamIndex(f.Fn, x); i >= 0 && i < len(f.Call.Call.Args) {
					walk(f.Up, f.Call.Call.Args[i], g, depth+1)
					return
				}
			}
		case *ssa.Call:
			if _, isTuple := x.Type().(*types.Tuple); !isTuple {
				if nf := c07Enter(w, f, x); nf != nil {
					c07WalkReturns(w, nf, 0, false, g, func(rv ssa.Value, rg map[string]string) { walk(nf, rv, rg, depth+1) })
					return
				}
			}
		case *ssa.Extract:
			if call, ok := x.Tuple.(*ssa.Call); ok {
				if nf := c07Enter(w, f, call); nf != nil {
					errNil := labelHas(g, f.lift("EQ("+desc(call)+"#err,nil)"))
					c07WalkReturns(w, nf, x.Index, errNil, g, func(rv ssa.Value, rg map[string]string) { walk(nf, rv, rg, depth+1) })
					return
				}
			}
		case *ssa.UnOp:
			// a variable captured by the closure whose frame this is: it holds the one value the enclosing function
			// stored into it before the call of the closure (c07CapturedValue)
			if fv, isFV := x.X.(*ssa.FreeVar); isFV && x.Op == token.MUL {
				if bv := c07CapturedValue(f, fv); bv != nil {
					walk(f.Up, bv, g, depth+1)
					return
				}
			}
		}
		out = append(out, c07Origin{v, f, g})
	}
	walk(f, v, guards, 0)
	return out, complete
}

// c07Before: a is executed before b on every path that reaches b (same function): a stands earlier in b's block, or in a
// block that dominates b's.
func c07Before(a, b ssa.Instruction) bool {
	if a == nil || b == nil || a.Parent() != b.Parent() || a.Block() == nil || b.Block() == nil {
		return false
	}
	if a.Block() != b.Block() {
		return a.Block().Dominates(b.Block())
	}
	for _, in := range a.Block().Instrs {
		if in == a {
			return true
		}
		if in == b {
			return false
		}
	}
	return false
}

// c07CapturedValue: what a load of the captured variable fv yields inside the closure whose frame f is (entered through
// f.Call, a call of the very function value the enclosing function made: the callee operand is the MakeClosure).
//
// go/ssa captures variables by reference: the binding is the enclosing function's cell (Alloc). The load yields value X if
//   - the cell is written by exactly one Store of X in the whole program (singleStore: no second store, no write through a
//     field/element address, the address does not escape, no closure that captures the cell writes it), and
//   - that Store is executed before the call of the closure on every path reaching the call (c07Before). The cell is
//     allocated before the Store (the Store uses it), so between the last allocation and the call the Store has run: the
//     cell the closure was bound to holds X, not the zero value it was created with.
//
// nil: not decidable this way (the value is then reported as an origin as it stands, which no clause accepts).
func c07CapturedValue(f *c07Frame, fv *ssa.FreeVar) ssa.Value {
	if f == nil || f.Up == nil || f.Call == nil || fv.Parent() != f.Fn {
		return nil
	}
	mc, ok := f.Call.Call.Value.(*ssa.MakeClosure)
	if !ok || mc.Fn != ssa.Value(f.Fn) || f.Call.Parent() != f.Up.Fn {
		return nil
	}
	for i, x := range f.Fn.FreeVars {
		if x != fv || i >= len(mc.Bindings) {
			continue
		}
		al, isAlloc := mc.Bindings[i].(*ssa.Alloc)
		if !isAlloc || al.Parent() != f.Up.Fn || singleStore(al) == nil {
			return nil
		}
		for _, r := range *al.Referrers() {
			if st, isSt := r.(*ssa.Store); isSt && st.Addr == ssa.Value(al) {
				if c07Before(st, f.Call) {
					return st.Val
				}
				return nil
			}
		}
	}
	return nil
}

// c07WalkReturns visits operand k of the Returns of nf.Fn that can have delivered the call's result: all of them, or —
// when the caller has seen a nil error (errNil) and the function's last result is its error — the success-capable exits
// of the engine's summary, each with its own must-pass facts.
func c07WalkReturns(w *World, nf *c07Frame, k int, errNil bool, g map[string]string, visit func(ssa.Value, map[string]string)) {
	fn := nf.Fn
	res := fn.Signature.Results()
	if errNil && res.Len() > 1 && k != res.Len()-1 && isErrorType(res.At(res.Len()-1).Type()) {
		if s := w.Summarize(fn, Mode{Kind: mErr}); s != nil && s.Complete {
			for _, ex := range s.Exits {
				if k < len(ex.Ret.Results) {
					visit(c07ExitValue(ex, k), c07Union(g, nf.liftAll(ex.Checked)))
				}
			}
			return
		}
	}
	fi := w.Info(fn)
	for _, b := range fn.Blocks {
		if r, ok := blockTerm(b).(*ssa.Return); ok && k < len(r.Results) {
			visit(r.Results[k], c07Union(g, nf.liftAll(fi.GuardsOf(r))))
		}
	}
}

// c07CallSites returns the static call sites of fn in the product code. closed is false when fn may also be entered in a
// way the list does not show: it is exported, a closure, used as a value (method value, argument, closure binding),
// started by go/defer, or is a method an interface call of the module may dispatch to. Only a closed list licenses
// "every caller …" arguments. (Same construction as C05's call-site list; kept here so that this rule set stands alone.)
func c07CallSites(w *World, fn *ssa.Function) (sites []*ssa.Call, closed bool) {
	closed = fn.Parent() == nil && fn.Synthetic == "" && !token.IsExported(fn.Name())
	var recvT types.Type
	if r := fn.Signature.Recv(); r != nil {
		recvT = r.Type()
	}
	for _, g := range w.Funcs {
		for _, b := range g.Blocks {
			for _, in := range b.Instrs {
				if ci, ok := in.(ssa.CallInstruction); ok {
					com := ci.Common()
					if com.IsInvoke() {
						if recvT != nil && com.Method.Name() == fn.Name() {
							if it, ok := com.Value.Type().Underlying().(*types.Interface); ok && types.Implements(recvT, it) {
								closed = false
							}
						}
					} else if com.StaticCallee() == fn {
						if call, ok := in.(*ssa.Call); ok {
							sites = append(sites, call)
						} else {
							closed = false
						}
					}
					for _, a := range com.Args {
						if a == ssa.Value(fn) {
							closed = false
						}
					}
					continue
				}
				for _, op := range in.Operands(nil) {
					if op != nil && *op == ssa.Value(fn) {
						closed = false
					}
				}
				if mc, ok := in.(*ssa.MakeClosure); ok {
					if wf, ok := mc.Fn.(*ssa.Function); ok && wf.Synthetic != "" && strings.HasPrefix(wf.Name(), fn.Name()+"$") {
						closed = false
					}
				}
			}
		}
	}
	return sites, closed
}

// ---- expiry -----------------------------------------------------------------------

// c07ExpiryValue decides the value stored into <request>.Expiry (st.Addr == fa, fa = &X.Expiry).
//
// The clause: the request's expiry is its own signing time plus the requested duration, and it is left zero (= no expiry)
// when the duration is zero. Every origin (c07Origins: in place, through a local computed ahead of the request, through a
// module helper that is handed the ingredients) of the stored value must be either
//   - the zero time.Time (no expiry), or
//   - T.Add(D) where
//     T is the signing time of the same request: the field X.SigningTime read back (in the storing function, or in a
//     helper through a parameter bound to X), or the very SSA value that is the only thing stored into X.SigningTime
//     (one evaluation of the clock feeds both fields, so Expiry - SigningTime == duration exactly); a helper's parameter
//     counts as the argument bound to it;
//     D is the requested duration, known to be non-zero where the sum is computed or stored (c07RequestedDuration),
//
// and at least one origin must be of the second kind. The test D != 0 may guard the Add, the call of the helper that adds,
// the helper's Return, or the store: each of them lies on every path that brings this sum into the field.
func c07ExpiryValue(w *World, fi *FnInfo, st *ssa.Store, fa *ssa.FieldAddr) (bool, string) {
	X := fa.X
	var stTimes []ssa.Value
	if X.Referrers() != nil {
		for _, r := range *X.Referrers() {
			f2, ok := r.(*ssa.FieldAddr)
			if !ok || fieldName(X.Type(), f2.Field) != "SigningTime" || f2.Referrers() == nil {
				continue
			}
			for _, rr := range *f2.Referrers() {
				if s2, ok := rr.(*ssa.Store); ok && s2.Addr == ssa.Value(f2) {
					stTimes = append(stTimes, s2.Val)
				}
			}
		}
	}
	isSigningTime := func(t ssa.Value, f *c07Frame) bool {
		v, vf := f.resolve(t)
		if vf.Up == nil && len(stTimes) == 1 && loadOrigin(stTimes[0]) == v {
			return true
		}
		// <r>.SigningTime read back, r being the request object itself (by identity of the SSA value, not by its
		// rendering: two requests built in one function render alike) — in the storing function, or in a helper through a
		// parameter bound to the request
		if un, ok := v.(*ssa.UnOp); ok && un.Op == token.MUL {
			if f2, ok := un.X.(*ssa.FieldAddr); ok && fieldName(f2.X.Type(), f2.Field) == "SigningTime" {
				b, bf := vf.resolve(f2.X)
				if bf.Up == nil && (b == X || loadOrigin(b) == loadOrigin(X)) {
					return true
				}
			}
		}
		return false
	}
	root := &c07Frame{Fn: fi.Fn}
	origins, complete := c07Origins(w, root, st.Val, fi.GuardsOf(st))
	if !complete {
		return false, "value too deep to follow"
	}
	nAdd := 0
	for _, o := range origins {
		switch x := o.V.(type) {
		case *ssa.Const:
			if x.Value == nil && namedOf(x.Type()) == "time.Time" {
				continue
			}
		case *ssa.Call:
			if calleeName(x) == "(time.Time).Add" && len(x.Call.Args) == 2 {
				dur := o.F.lift(desc(x.Call.Args[1]))
				tested := labelHas(o.Guards, "NE("+dur+",const:0)")
				if ok, why := c07RequestedDuration(w, fi.Fn, dur, tested, 0); !ok {
					return false, why
				}
				if !isSigningTime(x.Call.Args[0], o.F) {
					return false, "the duration is added to " + o.F.lift(desc(x.Call.Args[0])) + ", not to the signing time of the same request"
				}
				nAdd++
				continue
			}
		}
		return false, "the expiry may be " + o.F.lift(desc(o.V))
	}
	if nAdd == 0 {
		return false, "no SigningTime.Add(ExpiryDuration) reaches the field"
	}
	return true, ""
}

// c07RequestedDuration: the quantity rendered dur in fn's vocabulary (tested: already known to be non-zero where it is
// used) is the ExpiryDuration of the options the signer was called with, and is known non-zero.
//
// Decided in fn when fn itself receives the options (a parameter with an ExpiryDuration field). A function that receives
// less — the bare duration, or the options but is only called under the test — is decided at its call sites instead:
// when the list of call sites is closed (c07CallSites) the function runs only on behalf of those calls, so the quantity is
// what each of them passes and the facts guarding each call hold inside. Every call site must then qualify.
func c07RequestedDuration(w *World, fn *ssa.Function, dur string, tested bool, depth int) (bool, string) {
	opt := paramWhere(fn, hasField("ExpiryDuration"))
	isReq := opt != "param:?" && dur == opt+".ExpiryDuration"
	if isReq && tested {
		return true, ""
	}
	fail := func() (bool, string) {
		if !isReq {
			return false, "the duration added is " + dur + " in " + fnName(fn) + " (not the ExpiryDuration of the signing options)"
		}
		return false, "the sum is computed and stored without the test ExpiryDuration != 0"
	}
	if depth >= 3 || !strings.Contains(dur, "param:") {
		return fail()
	}
	sites, closed := c07CallSites(w, fn)
	if !closed || len(sites) == 0 {
		return fail()
	}
	for _, site := range sites {
		up := c07LiftOnce(dur, fn, site)
		if strings.Contains(up, "param?:") {
			return fail()
		}
		t := tested || labelHas(w.Info(site.Parent()).GuardsOf(site), "NE("+up+",const:0)")
		if ok, why := c07RequestedDuration(w, site.Parent(), up, t, depth+1); !ok {
			return false, why
		}
	}
	return true, ""
}

// ---- blob descriptor generator ------------------------------------------------------

// c07Capture: one value the maker of a generator puts into it.
type c07Capture struct {
	// Reads: how the captured value is rendered where the body reads it ("free:x" in a function literal,
	// "param:recv.field" in a bound method), or "?:why" when a read there is not known to yield Val.
	Reads string
	Val   ssa.Value // the value captured, in the maker's frame
	Type  types.Type
}

// c07Generator: a function value created as descriptor generator, with what its maker put into it.
type c07Generator struct {
	Made *ssa.MakeClosure // the function value
	// Maker: the function in whose frame the captured values live — the function that creates the function value (a
	// builder both wrappers call, or a wrapper itself) or, for a method bound to an object obtained from a constructor,
	// that constructor (Via is then the call of the constructor next to Made).
	Maker *ssa.Function
	Via   *ssa.Call
	Body  *ssa.Function // the code it runs: the literal's body, or the method behind a bound method value
	Caps  []c07Capture
}

// capture: the capture whose type satisfies pred; it must be the only one (the role "the media type" / "the reader" is
// given by the type, so two candidates leave the role undecided).
func (g c07Generator) capture(pred func(types.Type) bool) c07Capture {
	var found []c07Capture
	for _, cp := range g.Caps {
		if cp.Type != nil && pred(cp.Type) {
			found = append(found, cp)
		}
	}
	switch len(found) {
	case 1:
		return found[0]
	case 0:
		return c07Capture{Reads: "?:nothing-of-that-type-captured"}
	}
	return c07Capture{Reads: "?:ambiguous"}
}

// c07Generators returns the generator function values fn creates.
//
// Two shapes say the same thing: a function literal that captures variables of its maker, and a method value bound to a
// receiver object the maker has just allocated and filled.
//
// Literal: a captured variable reads, inside the literal, as the one value the maker stores into it, provided the
// variable is stored exactly once in the maker and neither this literal nor one nested in it writes it.
//
// Bound method: a read of recv.f inside the method yields the value the maker stored provided (1) the receiver object is
// allocated in the maker and used there only to fill its fields and to bind the method — or the maker is a constructor
// that only fills the object and returns it, and the function binding the method uses the constructor's result for
// nothing else — so the only other holder of the object is the method's receiver; (2) field f of this object is written exactly once in the maker; (3) every other
// write of field f of that struct type anywhere in the module goes to an object the writing function has itself just
// allocated (the base of the field address is an Alloc instruction of that function): an allocation yields a new object
// each time it runs, so such a write cannot hit the object bound here — this is what lets two wrappers each fill their
// own object; (4) the method uses its receiver only to read or address fields (it does not overwrite the object as a
// whole or pass it on). All four are checked here.
func c07Generators(w *World, maker *ssa.Function) []c07Generator {
	var out []c07Generator
	for _, b := range maker.Blocks {
		for _, in := range b.Instrs {
			mc, ok := in.(*ssa.MakeClosure)
			if !ok {
				continue
			}
			fn, ok := mc.Fn.(*ssa.Function)
			if !ok {
				continue
			}
			if !strings.HasPrefix(fn.Synthetic, "bound method wrapper") {
				gen := c07Generator{Made: mc, Maker: maker, Body: fn}
				for i, bd := range mc.Bindings {
					if i >= len(fn.FreeVars) {
						break
					}
					cp := c07Capture{Reads: "free:" + fn.FreeVars[i].Name(), Val: bd, Type: bd.Type()}
					if al, isAl := bd.(*ssa.Alloc); isAl {
						// captured by reference
						cp.Type = al.Type().Underlying().(*types.Pointer).Elem()
						cp.Val = onlyDirectStore(al)
						if cp.Val == nil {
							cp.Reads = "?:captured-variable-assigned-more-than-once"
						} else if closureWrites(mc, al, 0) {
							cp.Reads = "?:captured-variable-written-by-the-literal"
						}
					}
					gen.Caps = append(gen.Caps, cp)
				}
				out = append(out, gen)
				continue
			}
			mobj, _ := fn.Object().(*types.Func)
			if mobj == nil || len(mc.Bindings) != 1 {
				continue
			}
			m := w.Prog.FuncValue(mobj)
			if m == nil || m.Blocks == nil || len(m.Params) == 0 || !w.IsProductFn(m) {
				continue
			}
			gen := c07Generator{Made: mc, Maker: maker, Body: m}
			switch r := mc.Bindings[0].(type) {
			case *ssa.Alloc:
				gen.Caps = c07BoundCaptures(w, r, mc, m)
			case *ssa.Call:
				// the receiver object comes from a constructor: a module function every Return of which hands back the one
				// object it allocates, and whose result is used here for nothing but binding the method
				gen.Caps = []c07Capture{{Reads: "?:receiver-not-local"}}
				ctor := staticCallee(r)
				if ctor == nil || ctor.Blocks == nil || !w.IsProductFn(ctor) || ctor.Signature.Results().Len() != 1 || len(r.Call.Args) != len(ctor.Params) {
					break
				}
				var obj *ssa.Alloc
				okObj := true
				for _, cb := range ctor.Blocks {
					if ret, ok := blockTerm(cb).(*ssa.Return); ok {
						al, isAl := ret.Results[0].(*ssa.Alloc)
						if !isAl || (obj != nil && obj != al) {
							okObj = false
						}
						obj = al
					}
				}
				if r.Referrers() != nil {
					for _, rr := range *r.Referrers() {
						if _, isDbg := rr.(*ssa.DebugRef); !isDbg && rr != ssa.Instruction(mc) {
							okObj = false
						}
					}
				}
				if okObj && obj != nil {
					gen.Maker, gen.Via = ctor, r
					gen.Caps = c07BoundCaptures(w, obj, nil, m)
				}
			default:
				gen.Caps = []c07Capture{{Reads: "?:receiver-not-local"}}
			}
			out = append(out, gen)
		}
	}
	return out
}

// c07BoundCaptures: the fields of the receiver object of a bound method value, as captures (conditions (1)–(4) above).
//
// recvAlloc is the allocation of the receiver object; mc the method value it is bound into when that happens in the
// allocating function itself, nil when the allocating function is a constructor that returns the object instead (the
// caller has checked that the constructor's result is used for nothing but binding the method).
func c07BoundCaptures(w *World, recvAlloc *ssa.Alloc, mc *ssa.MakeClosure, m *ssa.Function) []c07Capture {
	broken := func(why string) []c07Capture {
		// nothing is known about what the method reads: every role stays undecided
		return []c07Capture{{Reads: "?:" + why}}
	}
	if recvAlloc == nil || recvAlloc.Referrers() == nil {
		return broken("receiver-not-local")
	}
	st, isStruct := recvAlloc.Type().Underlying().(*types.Pointer).Elem().Underlying().(*types.Struct)
	if !isStruct {
		return broken("receiver-not-a-struct")
	}
	// (1) the receiver object is only filled and bound
	for _, r := range *recvAlloc.Referrers() {
		switch x := r.(type) {
		case *ssa.FieldAddr, *ssa.DebugRef:
		case *ssa.MakeClosure:
			if mc == nil || x != mc {
				return broken("receiver-shared")
			}
		case *ssa.Return:
			if mc != nil {
				return broken("receiver-escapes")
			}
		default:
			return broken("receiver-escapes")
		}
	}
	// (4) the method only reads / addresses fields of its receiver
	recv := m.Params[0]
	if recv.Referrers() != nil {
		for _, r := range *recv.Referrers() {
			switch x := r.(type) {
			case *ssa.FieldAddr, *ssa.DebugRef:
			case *ssa.UnOp:
				if x.Op != token.MUL {
					return broken("receiver-used-as-a-whole-in-the-method")
				}
			default:
				return broken("receiver-used-as-a-whole-in-the-method")
			}
		}
	}
	stored := map[int][]ssa.Value{}
	var order []int
	for _, r := range *recvAlloc.Referrers() {
		fa, ok := r.(*ssa.FieldAddr)
		if !ok || fa.Referrers() == nil {
			continue
		}
		for _, rr := range *fa.Referrers() {
			s, ok := rr.(*ssa.Store)
			if !ok || s.Addr != ssa.Value(fa) {
				return broken("receiver-field-escapes")
			}
			if _, seen := stored[fa.Field]; !seen {
				order = append(order, fa.Field)
			}
			stored[fa.Field] = append(stored[fa.Field], s.Val)
		}
	}
	tname := namedOf(recvAlloc.Type())
	var caps []c07Capture
	for _, fld := range order {
		name := st.Field(fld).Name()
		cp := c07Capture{Reads: "param:" + recv.Name() + "." + name, Val: stored[fld][0], Type: st.Field(fld).Type()}
		if len(stored[fld]) != 1 {
			cp.Reads = fmt.Sprintf("?:field-written-%d-times", len(stored[fld]))
		}
		// (2) written once on this object, (3) otherwise only on objects the writer has just allocated
		n := 0
		for _, g := range w.Funcs {
			for _, gb := range g.Blocks {
				for _, gi := range gb.Instrs {
					fa, ok := gi.(*ssa.FieldAddr)
					if !ok || fa.Field != fld || namedOf(fa.X.Type()) != tname || !addrWritten(fa, 0) {
						continue
					}
					if fa.X == ssa.Value(recvAlloc) {
						n++
					} else if al, isAl := fa.X.(*ssa.Alloc); !isAl || al.Parent() != g {
						cp.Reads = "?:field-written-in-" + fnName(g)
					}
				}
			}
		}
		if n != 1 && !strings.HasPrefix(cp.Reads, "?:") {
			cp.Reads = fmt.Sprintf("?:field-written-%d-times", n)
		}
		caps = append(caps, cp)
	}
	return caps
}

// c07GenUse: a generator as one of the API wrappers hands it on.
type c07GenUse struct {
	Gen c07Generator
	// Call: the wrapper's call of Gen.Maker (the builder that made the generator, or the constructor of the object the
	// wrapper binds the method to); nil when the captured values are values of the wrapper itself.
	Call *ssa.Call
}

// inWrapper: what capture cp holds, as a value of the wrapper's frame — the captured value itself when the wrapper is the
// maker; when a builder or constructor is, the captured value must be a parameter of that function and stands for the
// argument the wrapper passes for it.
func (u c07GenUse) inWrapper(cp c07Capture) ssa.Value {
	if cp.Val == nil || strings.HasPrefix(cp.Reads, "?:") {
		return nil
	}
	if u.Call == nil {
		return cp.Val
	}
	p := c07ParamOf(cp.Val, u.Gen.Maker)
	if p == nil {
		return nil
	}
	if i := c07ParamIndex(u.Gen.Maker, p); i >= 0 && i < len(u.Call.Call.Args) {
		return u.Call.Call.Args[i]
	}
	return nil
}

// c07WrapperGenerators: the descriptor generators the wrapper hands to somebody (anchored by role: an argument of type
// BlobDescriptorGenerator of any call in the wrapper), traced to the function value: made by the wrapper itself, or
// returned by a module function ("builder") the wrapper calls. why explains an argument that could not be traced.
func c07WrapperGenerators(w *World, wrapper *ssa.Function) (uses []c07GenUse, why string) {
	seen := map[ssa.Value]bool{}
	for _, ci := range allCalls(wrapper) {
		for _, a := range ci.Common().Args {
			if namedOf(a.Type()) != "ngo.BlobDescriptorGenerator" {
				continue
			}
			v := loadOrigin(unwrap(loadOrigin(a)))
			if seen[v] {
				continue
			}
			seen[v] = true
			switch x := v.(type) {
			case *ssa.MakeClosure:
				for _, gen := range c07Generators(w, wrapper) {
					if gen.Made == x {
						uses = append(uses, c07GenUse{Gen: gen, Call: gen.Via})
					}
				}
				continue
			case *ssa.Call:
				g := staticCallee(x)
				if g != nil && g.Blocks != nil && w.IsProductFn(g) && g.Signature.Results().Len() == 1 {
					// the function values the builder returns (that it returns nothing else is checked by the caller, per
					// builder); when it returns none of those it creates, all of them are reported so that the caller can say so
					gens := c07Generators(w, g)
					var returned []c07Generator
					for _, gen := range gens {
						for _, b := range g.Blocks {
							if r, ok := blockTerm(b).(*ssa.Return); ok && len(r.Results) == 1 && unwrap(r.Results[0]) == ssa.Value(gen.Made) {
								returned = append(returned, gen)
								break
							}
						}
					}
					if len(returned) > 0 {
						gens = returned
					}
					for _, gen := range gens {
						uses = append(uses, c07GenUse{Gen: gen, Call: x})
					}
					if len(gens) > 0 {
						continue
					}
				}
			}
			why = "the generator handed on at " + w.InstrPos(ci) + " is " + desc(v) + ", not a function value made here or by a module function called here"
		}
	}
	return uses, why
}

// ---- the crypto.Hash -> digest.Algorithm relation ------------------------------------
//
// The clauses "signer and verifier use the same table", "the table covers the hash of every key spec" and "the generator is
// invoked with table[hash of the key]" are statements about a *relation* R ⊆ crypto.Hash × digest.Algorithm and about values
// that are R applied to a key. How the relation is written down is not part of the property. Two spellings say the same:
//
//   - a package-level map[crypto.Hash]digest.Algorithm initialised by a literal and never written afterwards:
//     R = the literal's entries; an application is m[k] (value, and the comma-ok answer "k ∈ dom R");
//   - a module function f(crypto.Hash) (digest.Algorithm, bool) | (digest.Algorithm, error) | digest.Algorithm:
//     R = {(h, a) | f(h) answers "found" with a}, read off by abstract interpretation of f's body once per hash value
//     (c07EvalHashFn); an application is f(k) (result 0, and the found answer: result 1 true / nil, or result 0 != "").
//
// A table is recognised by what it is (its type / signature), in whatever product package it is declared, never by its
// name. The relation of a function is accepted only when, for every hash value tried, all paths through f agree on one
// definite answer and a miss delivers the zero algorithm — exactly what indexing a map gives — so that every rule that
// judges an application m[k] judges f(k) the same way.

type c07HashTable struct {
	Global *ssa.Global       // the map variable, or
	Fn     *ssa.Function     // the function
	Rel    map[string]string // hash constant (decimal) -> digest algorithm; nil: could not be read (Why)
	Why    string
	Steps  int
}

func (t *c07HashTable) name() string {
	if t.Global != nil {
		return desc(t.Global)
	}
	return "func:" + fnName(t.Fn)
}

func (t *c07HashTable) pkg() *types.Package {
	if t.Global != nil {
		return t.Global.Pkg.Pkg
	}
	return fnPkg(t.Fn)
}

func (t *c07HashTable) pos() token.Pos {
	if t.Global != nil {
		return t.Global.Pos()
	}
	return t.Fn.Pos()
}

func c07IsHash(t types.Type) bool { return t.String() == "crypto.Hash" }
func c07IsDigestAlgorithm(t types.Type) bool {
	return strings.HasSuffix(t.String(), "go-digest.Algorithm")
}

// c07TableSignature: func(crypto.Hash) digest.Algorithm [, bool | error], a plain package-level function with a body.
func c07TableSignature(fn *ssa.Function) bool {
	if fn == nil || fn.Blocks == nil || fn.Parent() != nil || fn.Synthetic != "" || fn.Signature.Recv() != nil || fn.TypeParams().Len() != 0 {
		return false
	}
	ps, rs := fn.Signature.Params(), fn.Signature.Results()
	if ps.Len() != 1 || len(fn.Params) != 1 || !c07IsHash(ps.At(0).Type()) || rs.Len() < 1 || rs.Len() > 2 || !c07IsDigestAlgorithm(rs.At(0).Type()) {
		return false
	}
	if rs.Len() == 2 {
		b, isB := rs.At(1).Type().Underlying().(*types.Basic)
		return isErrorType(rs.At(1).Type()) || (isB && b.Kind() == types.Bool)
	}
	return true
}

type c07TableSet struct {
	Tables []*c07HashTable
	Apps   []*c07TableApp
}

var (
	c07TableMu   sync.Mutex
	c07TableMemo = map[*World]*c07TableSet{}
)

// c07HashTables: every hash table of the product code with its relation, and every application of one.
func c07HashTables(w *World) *c07TableSet {
	c07TableMu.Lock()
	defer c07TableMu.Unlock()
	if ts, ok := c07TableMemo[w]; ok {
		return ts
	}
	ts := &c07TableSet{}
	c07TableMemo[w] = ts
	// maps
	byGlobal := map[*ssa.Global]*c07HashTable{}
	for _, p := range w.Product {
		var names []string
		for n := range p.Members {
			names = append(names, n)
		}
		sort.Strings(names)
		for _, n := range names {
			g, ok := p.Members[n].(*ssa.Global)
			if !ok {
				continue
			}
			pt, ok := g.Type().Underlying().(*types.Pointer)
			if !ok || !isHashDigestMap(pt.Elem()) {
				continue
			}
			t := &c07HashTable{Global: g}
			rel := strings.TrimPrefix(strings.TrimPrefix(p.Pkg.Path(), modPath), "/")
			if e, pp := w.pkgVarInit(rel, g.Name()); e == nil {
				t.Why = desc(g) + " has no initialiser"
			} else if m, ok := mapLiteral(pp, e); !ok {
				t.Why = desc(g) + " is not initialised by a map literal"
			} else if why := c07MapWritten(w, g); why != "" {
				// the literal is the relation only as long as nobody changes the map
				t.Why = why
			} else {
				t.Rel = m
			}
			byGlobal[g] = t
			ts.Tables = append(ts.Tables, t)
		}
	}
	// functions (a function may consult a map, or another function: evaluated on demand, cycles cut)
	byFn := map[*ssa.Function]*c07HashTable{}
	for _, fn := range w.Funcs {
		if c07TableSignature(fn) {
			t := &c07HashTable{Fn: fn}
			byFn[fn] = t
			ts.Tables = append(ts.Tables, t)
		}
	}
	universe := c07HashUniverse(w, ts.Tables)
	for _, t := range ts.Tables {
		if t.Fn != nil {
			c07ReadHashFn(w, t, universe, byGlobal)
		}
	}
	// applications
	for _, fn := range w.Funcs {
		for _, b := range fn.Blocks {
			for _, in := range b.Instrs {
				switch x := in.(type) {
				case *ssa.Lookup:
					ld, ok := x.X.(*ssa.UnOp)
					if !ok || ld.Op != token.MUL {
						continue
					}
					g, ok := ld.X.(*ssa.Global)
					if !ok || byGlobal[g] == nil {
						continue
					}
					app := &c07TableApp{In: fn, Table: byGlobal[g], Key: x.Index, At: x}
					if x.CommaOk {
						app.Val, app.Found = c07Extract(x, 0), c07Extract(x, 1)
					} else {
						app.Val = x
					}
					ts.Apps = append(ts.Apps, app)
				case *ssa.Call:
					g := staticCallee(x)
					if g == nil || byFn[g] == nil || len(x.Call.Args) != 1 {
						continue
					}
					app := &c07TableApp{In: fn, Table: byFn[g], Key: x.Call.Args[0], At: x}
					if g.Signature.Results().Len() == 2 {
						app.Val, app.Found = c07Extract(x, 0), c07Extract(x, 1)
					} else {
						app.Val = x
					}
					ts.Apps = append(ts.Apps, app)
				}
			}
		}
	}
	return ts
}

func c07Extract(tuple ssa.Value, k int) ssa.Value {
	if tuple.Referrers() == nil {
		return nil
	}
	for _, r := range *tuple.Referrers() {
		if ex, ok := r.(*ssa.Extract); ok && ex.Index == k {
			return ex
		}
	}
	return nil
}

// c07TableApp: one application of a hash table to a key.
type c07TableApp struct {
	In    *ssa.Function
	At    ssa.Instruction
	Table *c07HashTable
	Key   ssa.Value
	Val   ssa.Value // the algorithm delivered (nil: not used)
	Found ssa.Value // the comma-ok / bool / error answer (nil: the application has none, or it is not used)
}

// foundLabels: the branch facts that say "the key was in the relation" for this application, as the engine prints them.
// With a comma-ok / bool answer: T(answer); with an error answer: EQ(answer,nil) — by the way the relation of a function
// is read (c07ReadHashFn) the answer is true / nil exactly for the keys of the relation. Without an answer: the value is
// not the zero algorithm (a miss delivers the zero algorithm, for a map by the language, for a function by c07ReadHashFn).
func (a *c07TableApp) foundLabels() []string {
	if a.Found != nil {
		if isErrorType(a.Found.Type()) {
			return []string{"EQ(" + desc(a.Found) + ",nil)"}
		}
		return []string{"T(" + desc(a.Found) + ")"}
	}
	if a.Val != nil {
		return []string{"NE(" + desc(a.Val) + `,const:"")`}
	}
	return nil
}

// c07MapWritten: "" when the map variable holds, for the whole run of the program, the map its initialiser built —
// it is stored only by the package initialiser, every other use loads it to index, range over or measure it.
func c07MapWritten(w *World, g *ssa.Global) string {
	fns := w.Funcs
	if ini := g.Pkg.Func("init"); ini != nil {
		fns = append(append([]*ssa.Function{}, fns...), ini)
	}
	seen := map[*ssa.Function]bool{}
	for _, fn := range fns {
		if seen[fn] {
			continue
		}
		seen[fn] = true
		for _, b := range fn.Blocks {
			for _, in := range b.Instrs {
				uses := false
				for _, op := range in.Operands(nil) {
					if op != nil && *op == ssa.Value(g) {
						uses = true
					}
				}
				if !uses {
					continue
				}
				switch x := in.(type) {
				case *ssa.Store:
					if x.Addr == ssa.Value(g) && fn.Synthetic != "" && fn.Name() == "init" && fn.Pkg == g.Pkg {
						continue
					}
					return desc(g) + " is assigned in " + fnName(fn)
				case *ssa.UnOp:
					if x.Op != token.MUL || x.Referrers() == nil {
						return "the address of " + desc(g) + " is used in " + fnName(fn)
					}
					for _, r := range *x.Referrers() {
						switch y := r.(type) {
						case *ssa.Lookup, *ssa.Range, *ssa.DebugRef:
						case *ssa.Call:
							if calleeName(y) != "builtin:len" {
								return desc(g) + " is handed on in " + fnName(fn)
							}
						case *ssa.MapUpdate:
							return desc(g) + " is written in " + fnName(fn)
						default:
							return desc(g) + " is handed on in " + fnName(fn)
						}
					}
				case *ssa.DebugRef:
				default:
					return "the address of " + desc(g) + " is used in " + fnName(fn)
				}
			}
		}
	}
	return ""
}

// c07HashUniverse: the hash values a table function is evaluated on — every crypto.Hash constant of package crypto, 0,
// the keys of every map table, and every integer constant occurring in a table function together with its two
// neighbours. A function whose paths are decided by comparing its parameter with constants (anything else makes the
// interpreter fork both ways, and differing answers make the relation unreadable) cannot tell two values apart that
// compare alike with all of its constants, and every such class has a member in this list; so the relation read on the
// list is the relation of the function.
func c07HashUniverse(w *World, tables []*c07HashTable) []int64 {
	set := map[int64]bool{0: true}
	if p := w.ByPath["crypto"]; p != nil {
		for _, n := range p.Types.Scope().Names() {
			if k, ok := p.Types.Scope().Lookup(n).(*types.Const); ok && c07IsHash(k.Type()) {
				if v, exact := constant.Int64Val(k.Val()); exact {
					set[v] = true
				}
			}
		}
	}
	for _, t := range tables {
		for k := range t.Rel {
			var v int64
			if _, err := fmt.Sscan(k, &v); err == nil {
				set[v] = true
			}
		}
		if t.Fn == nil {
			continue
		}
		for _, b := range t.Fn.Blocks {
			for _, in := range b.Instrs {
				for _, op := range in.Operands(nil) {
					if op == nil || *op == nil {
						continue
					}
					if k, ok := (*op).(*ssa.Const); ok && k.Value != nil && k.Value.Kind() == constant.Int {
						if v, exact := constant.Int64Val(k.Value); exact {
							set[v-1], set[v], set[v+1] = true, true, true
						}
					}
				}
			}
		}
	}
	var out []int64
	for v := range set {
		if v >= 0 {
			out = append(out, v)
		}
	}
	sort.Slice(out, func(i, j int) bool { return out[i] < out[j] })
	return out
}

// c07ReadHashFn reads the relation of a table function: for every hash value h of the universe all paths of f(h) must
// agree on (a, found) with a a definite non-empty string, or on a miss that delivers the zero algorithm.
func c07ReadHashFn(w *World, t *c07HashTable, universe []int64, maps map[*ssa.Global]*c07HashTable) {
	rel := map[string]string{}
	for _, h := range universe {
		outs, steps, why := c07EvalHashFn(w, t.Fn, AVal{Kind: aInt, Int: h}, maps, 0)
		t.Steps += steps
		if why == "" && len(outs) == 0 {
			why = "no path returns"
		}
		var alg string
		found, first := false, true
		for _, o := range outs {
			if why != "" {
				break
			}
			a, f, w2 := c07TableAnswer(t.Fn, o)
			switch {
			case w2 != "":
				why = w2
			case !first && (a != alg || f != found):
				why = "paths disagree"
			}
			alg, found, first = a, f, false
		}
		if why != "" {
			t.Rel, t.Why = nil, fmt.Sprintf("%s(%d): %s", fnName(t.Fn), h, why)
			return
		}
		if found {
			rel[fmt.Sprint(h)] = alg
		}
	}
	t.Rel = rel
}

// c07TableAnswer interprets one returned tuple of a table function.
func c07TableAnswer(fn *ssa.Function, o []AVal) (alg string, found bool, why string) {
	if len(o) == 0 || o[0].Kind != aStr {
		return "", false, "the algorithm returned is not a definite constant"
	}
	alg = o[0].Str
	switch {
	case len(o) == 1:
		found = alg != ""
	case isErrorType(fn.Signature.Results().At(1).Type()):
		switch o[1].Kind {
		case aNil:
			found = true
		case aNonNil:
		default:
			return "", false, "the error returned is not definitely nil or non-nil"
		}
	default:
		if o[1].Kind != aBool {
			return "", false, "the found answer is not a definite boolean"
		}
		found = o[1].B
	}
	if found && alg == "" {
		return "", false, "found, but the zero algorithm is returned"
	}
	if !found && alg != "" {
		return "", false, "a miss returns " + alg + " instead of the zero algorithm (a map lookup yields the zero value)"
	}
	return alg, found, ""
}

// c07EvalHashFn runs fn abstractly on one input and returns the result tuple of every path that returns (why != "": the
// run says nothing — a panic path, too many paths). Beyond the interpreter's own instruction set it understands
//   - indexing a hash table map whose relation is known (plain and comma-ok),
//   - errors.New / fmt.Errorf (a non-nil error),
//   - a call of a one-parameter module function with a definite argument, evaluated the same way (all its paths must agree).
func c07EvalHashFn(w *World, fn *ssa.Function, in AVal, maps map[*ssa.Global]*c07HashTable, depth int) (outs [][]AVal, steps int, why string) {
	ip := &Interp{Fn: fn, TrackStrings: true, IntTypes: map[string]bool{"*": true}, MaxPaths: 2000}
	lookup := func(l *ssa.Lookup, env map[ssa.Value]AVal) (val, ok AVal, known bool) {
		ld, isLd := l.X.(*ssa.UnOp)
		if !isLd || ld.Op != token.MUL {
			return
		}
		g, isG := ld.X.(*ssa.Global)
		if !isG || maps[g] == nil || maps[g].Rel == nil {
			return
		}
		k := ip.val(l.Index, env)
		if k.Kind != aInt {
			return
		}
		a, has := maps[g].Rel[fmt.Sprint(k.Int)]
		return AVal{Kind: aStr, Str: a}, AVal{Kind: aBool, B: has}, true
	}
	callee := func(call *ssa.Call, env map[ssa.Value]AVal) []AVal {
		g := staticCallee(call)
		if g == nil || g == fn || g.Blocks == nil || !w.IsProductFn(g) || len(g.Params) != 1 || len(call.Call.Args) != 1 || depth >= 2 {
			return nil
		}
		a := ip.val(call.Call.Args[0], env)
		if a.Kind != aInt && a.Kind != aStr {
			return nil
		}
		o2, s2, w2 := c07EvalHashFn(w, g, a, maps, depth+1)
		steps += s2
		if w2 != "" || len(o2) == 0 {
			return nil
		}
		for _, o := range o2[1:] {
			for i := range o {
				if o[i] != o2[0][i] {
					return nil
				}
			}
		}
		return o2[0]
	}
	ip.Hook = func(in ssa.Instruction, env map[ssa.Value]AVal) (AVal, bool) {
		switch x := in.(type) {
		case *ssa.Lookup:
			if !x.CommaOk {
				if v, _, known := lookup(x, env); known {
					return v, true
				}
			}
		case *ssa.Extract:
			switch t := x.Tuple.(type) {
			case *ssa.Lookup:
				if v, ok, known := lookup(t, env); known {
					if x.Index == 0 {
						return v, true
					}
					return ok, true
				}
			case *ssa.Call:
				if r := callee(t, env); r != nil && x.Index < len(r) {
					return r[x.Index], true
				}
			}
		case *ssa.Call:
			switch calleeName(x) {
			case "errors.New", "fmt.Errorf":
				return AVal{Kind: aNonNil}, true
			}
			if _, isTuple := x.Type().(*types.Tuple); !isTuple {
				if r := callee(x, env); len(r) == 1 {
					return r[0], true
				}
			}
		}
		return AVal{}, false
	}
	env := map[ssa.Value]AVal{}
	if len(fn.Params) > 0 {
		env[fn.Params[0]] = in
	}
	for _, o := range ip.Run(fn.Blocks[0], nil, env, nil, nil) {
		if o.Ret == nil {
			return nil, steps + ip.Steps, "a path panics"
		}
		var tup []AVal
		for _, r := range o.Ret.Results {
			tup = append(tup, ip.val(r, o.Env))
		}
		outs = append(outs, tup)
	}
	if ip.Overflow {
		return nil, steps + ip.Steps, "too many paths"
	}
	return outs, steps + ip.Steps, ""
}

// c07PkgRelation: the relation of the hash tables of a package — those declared in it or, when it declares none (a table
// shared through another package), those its functions apply. Several tables must all carry the same relation.
func c07PkgRelation(w *World, rel string) (m map[string]string, site string, why string) {
	p := w.Pkg(rel)
	if p == nil {
		return nil, "-", "package " + rel + " not found"
	}
	ts := c07HashTables(w)
	var mine []*c07HashTable
	for _, t := range ts.Tables {
		if t.pkg() == p.Pkg {
			mine = append(mine, t)
		}
	}
	if len(mine) == 0 {
		seen := map[*c07HashTable]bool{}
		for _, a := range ts.Apps {
			if fnPkg(a.In) == p.Pkg && !seen[a.Table] {
				seen[a.Table] = true
				mine = append(mine, a.Table)
			}
		}
	}
	if len(mine) == 0 {
		return nil, "-", "package " + rel + " neither declares nor applies a crypto.Hash -> digest.Algorithm table (map or function)"
	}
	site = w.Pos(mine[0].pos())
	for _, t := range mine {
		if t.Rel == nil {
			return nil, site, t.Why
		}
		if !c07SameRelation(t.Rel, mine[0].Rel) {
			return nil, site, fmt.Sprintf("%s says %v, %s says %v", mine[0].name(), mine[0].Rel, t.name(), t.Rel)
		}
	}
	return mine[0].Rel, site, ""
}

func c07SameRelation(a, b map[string]string) bool {
	if a == nil || b == nil || len(a) != len(b) {
		return false
	}
	for k, v := range a {
		if bv, ok := b[k]; !ok || bv != v {
			return false
		}
	}
	return true
}

// ---- the digest algorithm a generator is invoked with ---------------------------------------

// c07GenCall: one invocation of a BlobDescriptorGenerator value.
type c07GenCall struct {
	Call *ssa.Call
	In   *ssa.Function
}

func c07GeneratorCalls(w *World) []c07GenCall {
	var out []c07GenCall
	for _, fn := range w.Funcs {
		for _, ci := range allCalls(fn) {
			call, ok := ci.(*ssa.Call)
			if !ok || call.Call.IsInvoke() || staticCallee(call) != nil || len(call.Call.Args) != 1 {
				continue
			}
			if namedOf(call.Call.Value.Type()) == "ngo.BlobDescriptorGenerator" {
				out = append(out, c07GenCall{call, fn})
			}
		}
	}
	return out
}

// c07GenSite: one invocation of a generator, seen from the function in whose vocabulary the rule is decided.
//
// Normally that is the function the invocation stands in (Root == In, F the root frame). When the algorithm handed to the
// generator (or the key of the table it was looked up with) is not determined inside that function — it is a parameter of
// the function, or a variable the closure captured — the function is only the place where the evaluation was written
// down: which algorithm the generator gets is decided by whoever calls it. If the function can be entered only through a
// closed list of static calls (c07EntrySites: an unexported module function that is never used as a value, or a function
// literal whose value is only ever called by the function that made it), the invocation is decided once per call site, in
// the caller (Root), with F the chain of frames from the caller down to the invocation: a parameter then reads as the
// argument of that call (c07OriginsUntil), a captured variable as the value its cell holds at the call (c07CapturedValue),
// and the facts known at the invocation are those of every call on the chain plus those of the invocation itself
// (c07SiteGuards). The clause "every evaluation of a generator gets R[hash bound to the key / signature algorithm]" holds
// for the helper iff it holds at every one of its call sites, so nothing is lost; with an open list of callers the site is
// left in the function itself (Open says why) and the parameter is reported as what it is: not a table applied to a key.
type c07GenSite struct {
	c07GenCall
	Root *ssa.Function
	F    *c07Frame
	Open string
}

// c07EntrySites: the calls through which fn can be entered, and whether that list is exhaustive.
// A named function: c07CallSites. A function literal: its function value (the MakeClosure, or the function itself when it
// captures nothing) is made once, by its parent, and every use of that value in the parent is as the callee operand of a
// plain call (not an argument, not stored, not returned, not deferred or started as a goroutine).
func c07EntrySites(w *World, fn *ssa.Function) (sites []*ssa.Call, closed bool) {
	parent := fn.Parent()
	if parent == nil {
		return c07CallSites(w, fn)
	}
	var val ssa.Value = fn
	n := 0
	for _, b := range parent.Blocks {
		for _, in := range b.Instrs {
			if mc, ok := in.(*ssa.MakeClosure); ok && mc.Fn == ssa.Value(fn) {
				val = mc
				n++
			}
		}
	}
	if n > 1 {
		return nil, false
	}
	closed = true
	for _, b := range parent.Blocks {
		for _, in := range b.Instrs {
			if iv, isVal := in.(ssa.Value); isVal && iv == val {
				continue
			}
			for _, op := range in.Operands(nil) {
				if op == nil || *op != val {
					continue
				}
				call, isCall := in.(*ssa.Call)
				if _, isDbg := in.(*ssa.DebugRef); isDbg {
					continue
				}
				if !isCall || call.Call.IsInvoke() || call.Call.Value != val {
					closed = false
					continue
				}
				asArg := false
				for _, a := range call.Call.Args {
					if a == val {
						asArg = true
					}
				}
				if asArg {
					closed = false
					continue
				}
				sites = append(sites, call)
			}
		}
	}
	// a literal that captures nothing is a plain function value: another function literal of the same parent could name it
	// only through a captured variable, i.e. a Store seen above
	return sites, closed
}

// c07IsRootInput: the origin is something the root function of the walk was handed — its parameter, or (a closure) a
// variable it captured.
func c07IsRootInput(o c07Origin) bool {
	if o.F == nil || o.F.Up != nil {
		return false
	}
	switch x := o.V.(type) {
	case *ssa.Parameter:
		return x.Parent() == o.F.Fn
	case *ssa.FreeVar:
		return x.Parent() == o.F.Fn
	case *ssa.UnOp:
		fv, ok := x.X.(*ssa.FreeVar)
		return ok && fv.Parent() == o.F.Fn
	}
	return false
}

func c07IsHashCall(v ssa.Value) bool {
	c, ok := v.(*ssa.Call)
	return ok && calleeName(c) == "(core/internal/algorithm.Algorithm).Hash" && len(c.Call.Args) == 1
}

// c07SiteGuards: the facts known whenever the instruction in (of frame f) is executed, in the root frame's vocabulary:
// what every path to it must pass in its own function, and — for every call on the chain the frame was entered through —
// what every path to that call must pass in the calling function.
func c07SiteGuards(w *World, f *c07Frame, in ssa.Instruction) map[string]string {
	g := f.liftAll(w.Info(f.Fn).GuardsOf(in))
	for h := f; h.Up != nil; h = h.Up {
		g = c07Union(g, h.Up.liftAll(w.Info(h.Up.Fn).GuardsOf(h.Call)))
	}
	if g == nil {
		g = map[string]string{}
	}
	return g
}

// c07GeneratorSites: every generator invocation of the module, each as the sites it is decided at (c07GenSite).
func c07GeneratorSites(w *World) []c07GenSite {
	ts := c07HashTables(w)
	byVal := map[ssa.Value]*c07TableApp{}
	for _, a := range ts.Apps {
		if a.Val != nil {
			byVal[a.Val] = a
		}
	}
	type link struct {
		fn   *ssa.Function
		call *ssa.Call // the call of fn in the function of the link above (nil for the top)
	}
	build := func(chain []link) *c07Frame {
		var f *c07Frame
		for _, l := range chain {
			f = &c07Frame{Fn: l.fn, Call: l.call, Up: f}
		}
		return f
	}
	var out []c07GenSite
	for _, gc := range c07GeneratorCalls(w) {
		// handed: the algorithm, or the key it was looked up with, is (on some origin) an input of the top function
		handed := func(f *c07Frame) bool {
			origins, complete := c07OriginsUntil(w, f, gc.Call.Call.Args[0], nil, func(v ssa.Value) bool { return byVal[v] != nil })
			if !complete {
				return false
			}
			for _, o := range origins {
				if c07IsRootInput(o) {
					return true
				}
				if a := byVal[o.V]; a != nil && a.Key != nil {
					ks, _ := c07OriginsUntil(w, o.F, unwrap(a.Key), nil, c07IsHashCall)
					for _, k := range ks {
						if c07IsRootInput(k) {
							return true
						}
					}
				}
			}
			return false
		}
		var expand func(chain []link)
		expand = func(chain []link) {
			f := build(chain)
			top := chain[0].fn
			site := c07GenSite{c07GenCall: gc, Root: top, F: f}
			if !handed(f) {
				out = append(out, site)
				return
			}
			if len(chain) > 3 {
				site.Open = "the callers of " + fnName(top) + " are too far up to follow"
				out = append(out, site)
				return
			}
			sites, closed := c07EntrySites(w, top)
			if !closed || len(sites) == 0 {
				site.Open = fnName(top) + " is handed the algorithm and its callers are not a closed list (exported, used as a value, or never called)"
				out = append(out, site)
				return
			}
			for _, cs := range sites {
				caller := cs.Parent()
				rec := caller == nil || len(cs.Call.Args) != len(top.Params)
				for _, l := range chain {
					if l.fn == caller {
						rec = true
					}
				}
				if rec {
					site.Open = fnName(top) + " is handed the algorithm by a call that cannot be followed (recursion)"
					out = append(out, site)
					continue
				}
				nc := append([]link{{fn: caller}, {fn: top, call: cs}}, chain[1:]...)
				expand(nc)
			}
		}
		expand([]link{{fn: gc.In}})
	}
	return out
}

// c07AppliedTable: one origin of the algorithm a generator is invoked with, decided.
type c07AppliedTable struct {
	App   *c07TableApp
	Key   string // the key, in the vocabulary of the invoking function
	Found bool   // the facts that hold whenever this origin is the one that arrives include "the key was found"
	// F: the frame the application stands in (the invoking function itself, or a module helper entered from it);
	// Guards: the facts that hold whenever this application's value is the one that reaches the invocation, in the
	// invoking function's vocabulary.
	F      *c07Frame
	Guards map[string]string
}

// c07GeneratorArgument decides what a generator invocation is handed: every origin (c07OriginsUntil: through locals, phis
// and module helpers, each with the facts that hold when it is the one that arrives) must be an application of a hash
// table whose relation is `want` (the relation the table rules have checked). why != "" names the first origin that is not.
//
// Why this is the clause: "the digest algorithm is R[k]" speaks of the value, not of the statement that computes it —
// the application may stand in the invoking function or in a module helper whose result (under a nil error, delivered
// by its success exits only) is handed to the generator; the key and the found-fact are rewritten into the invoking
// function's vocabulary (callee parameters = call arguments), so they can be compared with what that function was given.
// The invocation itself may stand below the deciding function (gs.F: a helper / closure that is handed the algorithm,
// decided per call site — see c07GenSite); the walk then starts in that frame with the facts of the whole chain.
func c07GeneratorArgument(w *World, gs c07GenSite, want map[string]string) (apps []c07AppliedTable, why string) {
	ts := c07HashTables(w)
	byVal := map[ssa.Value]*c07TableApp{}
	for _, a := range ts.Apps {
		if a.Val != nil {
			byVal[a.Val] = a
		}
	}
	origins, complete := c07OriginsUntil(w, gs.F, gs.Call.Call.Args[0], c07SiteGuards(w, gs.F, gs.Call), func(v ssa.Value) bool { return byVal[v] != nil })
	if !complete {
		return nil, "the argument is too deep to follow"
	}
	for _, o := range origins {
		a := byVal[o.V]
		if a == nil {
			why = "the generator may be invoked with " + o.F.lift(desc(o.V)) + ", which is not a hash table applied to a key"
			if gs.Open != "" {
				why += " (" + gs.Open + ")"
			}
			return nil, why
		}
		if a.Table.Rel == nil {
			return nil, "the relation of " + a.Table.name() + " cannot be read: " + a.Table.Why
		}
		if !c07SameRelation(a.Table.Rel, want) {
			return nil, fmt.Sprintf("%s carries %v, not the relation of the signer's and verifier's tables %v", a.Table.name(), a.Table.Rel, want)
		}
		at := c07AppliedTable{App: a, Key: o.F.lift(desc(a.Key)), F: o.F, Guards: o.Guards}
		for _, l := range a.foundLabels() {
			l = o.F.lift(l)
			if labelHas(o.Guards, l) {
				at.Found = true
			} else if tw, ok := labelTwin(l); ok && labelHas(o.Guards, tw) {
				at.Found = true
			}
		}
		apps = append(apps, at)
	}
	if len(apps) == 0 {
		return nil, "no value reaches the invocation"
	}
	return apps, ""
}

// c07KeyOfKeySpec decides, on SSA values, that the key a hash table is applied to is hash(signatureAlgorithm(ks)) with ks
// the key spec of the signing key, for the function `root` that invokes the generator:
//
//   - given: ks is root's own parameter of type KeySpec (the only one), or
//   - obtained: ks is result 0 of a call that yields (KeySpec, error) — the key spec asked from the signing key / the
//     plugin — and that call's error is known to be nil whenever the algorithm looked up reaches the invocation. A key
//     spec written down in the code (a literal, a constant hash, a field of some object) does not qualify.
//
// Where the three steps (obtain the key spec, take the hash of its signature algorithm, apply the table) stand is not part
// of the clause: each may be written in the invoking function or in a module helper, cut at any of the two boundaries
// (helper(ks), helper(hash), helper(signer) that asks for the key spec itself). The key is therefore followed like every
// other value of this rule set (c07OriginsUntil: a helper's parameter is the argument of the call the frame was entered
// through, a helper's result is the operand of its Returns, a local that holds one value is that value, a phi is one of
// its edges under the edge's facts), step by step: every origin of the key must be a call of Algorithm.Hash, every origin
// of its operand a call of KeySpec.SignatureAlgorithm, and every origin of that operand a key spec as above. The facts
// start from those of the application's origin (at.Guards: what holds whenever this application is the one whose value
// arrives at the invocation — the guards of the invocation itself, of the call of the helper, of the helper's success
// exit), so "the error of the call that delivered the key spec is nil" is required on every path that brings the
// algorithm to the generator, which is what the clause "a descriptor is produced only for the hash bound to the key" needs.
func c07KeyOfKeySpec(w *World, root *ssa.Function, at c07AppliedTable) (ok bool, why string) {
	if at.F == nil || at.App == nil || at.App.Key == nil {
		return false, "the application's frame is not known"
	}
	isCallOf := func(name string) func(ssa.Value) bool {
		return func(v ssa.Value) bool {
			c, isC := v.(*ssa.Call)
			return isC && calleeName(c) == name && len(c.Call.Args) == 1
		}
	}
	// step: every origin of every value of `in` is a one-operand call of `name`; returns the operands
	step := func(in []c07Origin, name, what string) ([]c07Origin, string) {
		var out []c07Origin
		for _, o := range in {
			os, complete := c07OriginsUntil(w, o.F, unwrap(o.V), o.Guards, isCallOf(name))
			if !complete {
				return nil, what + " is too deep to follow"
			}
			for _, x := range os {
				if !isCallOf(name)(x.V) {
					return nil, what + " may be " + x.F.lift(desc(x.V)) + ", not " + name + "(...)"
				}
				out = append(out, c07Origin{V: x.V.(*ssa.Call).Call.Args[0], F: x.F, Guards: x.Guards})
			}
		}
		if len(out) == 0 {
			return nil, what + " has no origin"
		}
		return out, ""
	}
	cur := []c07Origin{{V: at.App.Key, F: at.F, Guards: at.Guards}}
	if cur, why = step(cur, "(core/internal/algorithm.Algorithm).Hash", "the key of the table"); why != "" {
		return false, why
	}
	if cur, why = step(cur, "(core/internal/algorithm.KeySpec).SignatureAlgorithm", "the algorithm whose hash is the key"); why != "" {
		return false, why
	}
	isKeySpecType := func(t types.Type) bool {
		n := namedOf(t)
		return n == "core/internal/algorithm.KeySpec" || n == "core/signature.KeySpec"
	}
	// result 0 of a call yielding (KeySpec, error): reported as it stands (a module function that asks the plugin for the
	// key spec is not opened: what it delivers under a nil error *is* the key spec of the key, by its type and role)
	obtained := func(v ssa.Value) *ssa.Call {
		ex, isEx := v.(*ssa.Extract)
		if !isEx || ex.Index != 0 {
			return nil
		}
		src, isC := ex.Tuple.(*ssa.Call)
		if !isC {
			return nil
		}
		tup, isT := src.Type().(*types.Tuple)
		if !isT || tup.Len() != 2 || !isErrorType(tup.At(1).Type()) || !isKeySpecType(tup.At(0).Type()) {
			return nil
		}
		return src
	}
	nKs := 0
	for _, p := range root.Params {
		if isKeySpecType(p.Type()) {
			nKs++
		}
	}
	n := 0
	for _, o := range cur {
		os, complete := c07OriginsUntil(w, o.F, unwrap(o.V), o.Guards, func(v ssa.Value) bool { return obtained(v) != nil })
		if !complete {
			return false, "the key spec is too deep to follow"
		}
		for _, x := range os {
			n++
			if p, isP := x.V.(*ssa.Parameter); isP && x.F.Up == nil && p.Parent() == root && isKeySpecType(p.Type()) {
				if nKs != 1 {
					return false, fnName(root) + " is given several key specs"
				}
				continue
			}
			src := obtained(x.V)
			if src == nil {
				return false, "the key spec whose hash keys the table may be " + x.F.lift(desc(x.V)) + ", neither the key spec " + fnName(root) + " was given nor one obtained from the signing key"
			}
			if nKs != 0 {
				return false, fnName(root) + " is given a key spec but keys the table by another one it obtained itself (" + x.F.lift(desc(src)) + ")"
			}
			// asked from something the invoking function was handed (its receiver's signer / plugin): a call all of whose
			// inputs are written down in the code (a key spec name decoded from a constant) is a literal key spec in disguise
			if up := x.F.lift(desc(src)); !strings.Contains(up, "param:") || strings.Contains(up, "param?:") {
				return false, "the key spec comes from " + up + ", which does not depend on anything " + fnName(root) + " was given (not the key spec of its signing key)"
			}
			if l := x.F.lift("EQ(" + desc(src) + "#err,nil)"); !labelHas(x.Guards, l) {
				return false, "the key spec " + x.F.lift(desc(x.V)) + " is used without the test that the call that delivered it succeeded (" + l + ")"
			}
		}
	}
	if n == 0 {
		return false, "the key spec has no origin"
	}
	return true, ""
}

// c07LiveExits drops from a summary's success-capable exits those that demonstrably return a non-nil error: the exit
// returns, as its error, a phi of the return block (a single `return ..., err` shared by several failure branches), the
// engine keeps such exits apart by predecessor (ExitSum.Pred), and the edge taken — predecessor -> return block — is the
// very branch of a test `e != nil` / `e == nil` on the value e the phi receives over that edge. On that edge e is
// non-nil, so the function reports a failure there and the exit is not one at which a result is delivered; the clause
// "every success exit passed the check" says nothing about it. (The engine's own refinement, FnInfo.nonNil, looks at the
// branches that dominate the predecessor block but not at the predecessor's own terminating branch, which is the case
// when the failure branch of `if x, err = f(); err == nil { ... }` falls straight into the shared return. This belongs in
// gate.go; it is done here, on SSA values only, because the engine files are not to be edited.)
func c07LiveExits(exits []*ExitSum) []*ExitSum {
	var out []*ExitSum
	for _, ex := range exits {
		if c07ExitFailsOnEdge(ex) {
			continue
		}
		out = append(out, ex)
	}
	return out
}

func c07ExitFailsOnEdge(ex *ExitSum) bool {
	if ex == nil || ex.Ret == nil || len(ex.Ret.Results) == 0 {
		return false
	}
	last := ex.Ret.Results[len(ex.Ret.Results)-1]
	if !isErrorType(last.Type()) {
		return false
	}
	b := ex.Ret.Block()
	phi, ok := last.(*ssa.Phi)
	if !ok || phi.Block() != b || ex.Pred < 0 || ex.Pred >= len(phi.Edges) || ex.Pred >= len(b.Preds) {
		return false
	}
	pred := b.Preds[ex.Pred]
	iff, ok := blockTerm(pred).(*ssa.If)
	if !ok || len(pred.Succs) != 2 || pred.Succs[0] == pred.Succs[1] {
		return false
	}
	// a block that occurs twice among the predecessors (both arms of one test) is not told apart by the index
	n := 0
	for _, q := range b.Preds {
		if q == pred {
			n++
		}
	}
	if n != 1 {
		return false
	}
	return condImpliesNonNil(iff.Cond, pred.Succs[0] == b, phi.Edges[ex.Pred])
}

// c07KeyOfObtainedKeySpec: the key of the application is hash(signatureAlgorithm(ks)) where ks is result 0 of a call that
// yields (KeySpec, error) — the key spec asked from the signing key / the plugin — and that call's error is known nil where
// the table is applied. Used for a signing function that is not handed the key spec but obtains it itself (the helper
// that was handed it written out in place): "the key spec the function was given" then reads "the key spec the function
// obtained"; a key spec written down in the function (a literal, a constant hash) does not qualify.
func c07KeyOfObtainedKeySpec(w *World, a *c07TableApp) bool {
	hc, ok := loadOrigin(unwrap(a.Key)).(*ssa.Call)
	if !ok || calleeName(hc) != "(core/internal/algorithm.Algorithm).Hash" || len(hc.Call.Args) != 1 {
		return false
	}
	sc, ok := loadOrigin(hc.Call.Args[0]).(*ssa.Call)
	if !ok || calleeName(sc) != "(core/internal/algorithm.KeySpec).SignatureAlgorithm" || len(sc.Call.Args) != 1 {
		return false
	}
	ex, ok := loadOrigin(sc.Call.Args[0]).(*ssa.Extract)
	if !ok || ex.Index != 0 {
		return false
	}
	src, ok := ex.Tuple.(*ssa.Call)
	if !ok {
		return false
	}
	tup, ok := src.Type().(*types.Tuple)
	if !ok || tup.Len() != 2 || !isErrorType(tup.At(1).Type()) {
		return false
	}
	if t := namedOf(tup.At(0).Type()); t != "core/internal/algorithm.KeySpec" && t != "core/signature.KeySpec" {
		return false
	}
	return labelHas(w.Info(a.In).GuardsOf(a.At), "EQ("+desc(src)+"#err,nil)")
}

// ---- the generator is evaluated at most once ---------------------------------------------------
//
// Clause: "a signature produced by the signing API for a blob verifies; the verified payload equals the signed descriptor
// of the content". A notation.BlobDescriptorGenerator is not a pure function of the digest algorithm: the one the
// wrappers build reads the caller's io.Reader to its end. Whoever evaluates it a second time on the same path is handed
// the descriptor of an exhausted stream (digest of zero bytes, size 0), so either the payload that is signed or the
// descriptor the signature is compared with no longer describes the blob. Hence the necessary condition, for every
// function of the module that holds a generator (as parameter, captured variable, result of a call, function value it
// makes, or inside an object it holds):
//
//	on no path through the function is the generator evaluated twice,
//
// where "evaluated" is decided on SSA values and callee-ward over the call tree: a direct call of the value (or of a
// function value made from it: a closure that captures it and may evaluate it, a bound method of an object holding it),
// handing it to an interface method or to a function outside the module (they are entitled to evaluate it), and handing
// it to a module function that — by the same analysis of that function's parameter — may evaluate it. The value is
// followed through conversions, phis, locals (also captured ones), struct fields of local objects, helper results that
// hand a parameter back, closures and bound methods; where a statement stands or what anything is called plays no part.
// Two evaluations in different branches (one signer delegates, the other branch evaluates itself) are not on one path
// and are accepted; so is any number of helpers between the holder and the single evaluation.

type c07OnceKey struct {
	fn   *ssa.Function
	root ssa.Value
	path string // field path ("2.0.") from the root (dereferenced) to the generator; "" = the root is the generator
}

type c07OnceUse struct {
	at  ssa.Instruction
	how string
}

type c07OnceRes struct {
	busy  bool
	uses  []c07OnceUse    // instructions of fn that may evaluate the generator
	ret   map[int]bool    // results of fn that are the generator (or a function value that may evaluate it)
	esc   []string        // where the generator gets out of sight (its evaluations can no longer be counted)
	twice [][2]c07OnceUse // pairs (first, second) with second reachable from first
	reach map[int][]bool  // block index -> blocks reachable from its successors
}

type c07Once struct {
	w     *World
	memo  map[c07OnceKey]*c07OnceRes
	order []c07OnceKey
}

const c07OnceDepth = 10

// c07GenPaths: the field paths under which a value of type t (pointers dereferenced) holds a BlobDescriptorGenerator.
func c07GenPaths(t types.Type, depth int) []string {
	for {
		p, ok := t.Underlying().(*types.Pointer)
		if !ok {
			break
		}
		t = p.Elem()
	}
	if namedOf(t) == "ngo.BlobDescriptorGenerator" {
		return []string{""}
	}
	st, ok := t.Underlying().(*types.Struct)
	if !ok || depth >= 2 {
		return nil
	}
	var out []string
	for i := 0; i < st.NumFields(); i++ {
		ft := st.Field(i).Type()
		if _, isPtr := ft.Underlying().(*types.Pointer); isPtr && depth >= 1 {
			continue
		}
		for _, sub := range c07GenPaths(ft, depth+1) {
			out = append(out, fmt.Sprintf("%d.", i)+sub)
		}
	}
	return out
}

func (o *c07Once) analyse(fn *ssa.Function, root ssa.Value, path string, depth int) *c07OnceRes {
	key := c07OnceKey{fn, root, path}
	if r := o.memo[key]; r != nil {
		return r
	}
	res := &c07OnceRes{busy: true, ret: map[int]bool{}, reach: map[int][]bool{}}
	o.memo[key] = res
	o.order = append(o.order, key)
	w := o.w
	type item struct {
		v ssa.Value
		p string
	}
	seen := map[item]bool{}
	var work []item
	push := func(v ssa.Value, p string) {
		it := item{v, p}
		if v != nil && !seen[it] {
			seen[it] = true
			work = append(work, it)
		}
	}
	usedAt := map[ssa.Instruction]bool{}
	use := func(in ssa.Instruction, how string) {
		if !usedAt[in] {
			usedAt[in] = true
			res.uses = append(res.uses, c07OnceUse{in, how})
		}
	}
	escape := func(in ssa.Instruction, what string) {
		res.esc = append(res.esc, what+" at "+w.InstrPos(in))
	}
	push(root, path)
	for len(work) > 0 {
		it := work[0]
		work = work[1:]
		v, p := it.v, it.p
		refs := v.Referrers()
		if refs == nil {
			continue
		}
		for _, r := range *refs {
			if r.Parent() != fn {
				continue
			}
			switch x := r.(type) {
			case *ssa.ChangeType:
				push(x, p)
			case *ssa.Convert:
				push(x, p)
			case *ssa.ChangeInterface:
				push(x, p)
			case *ssa.Phi:
				push(x, p)
			case *ssa.UnOp:
				if x.Op == token.MUL && x.X == v {
					push(x, p)
				}
			case *ssa.FieldAddr:
				if pre := fmt.Sprintf("%d.", x.Field); x.X == v && strings.HasPrefix(p, pre) {
					push(x, strings.TrimPrefix(p, pre))
				}
			case *ssa.Field:
				if pre := fmt.Sprintf("%d.", x.Field); x.X == v && strings.HasPrefix(p, pre) {
					push(x, strings.TrimPrefix(p, pre))
				}
			case *ssa.Store:
				if x.Val != v {
					continue // something is written over / into the holder
				}
				// the holder of the value: a local, or a field (of a field ...) of an object
				addr, q := x.Addr, p
				for {
					fa, ok := addr.(*ssa.FieldAddr)
					if !ok {
						break
					}
					q = fmt.Sprintf("%d.", fa.Field) + q
					addr = fa.X
				}
				switch a := addr.(type) {
				case *ssa.Alloc:
					push(a, q)
				case *ssa.UnOp:
					// the object is reached through a local that holds its address
					if al, ok := a.X.(*ssa.Alloc); ok && a.Op == token.MUL {
						push(al, q)
					}
					push(a, q)
				case *ssa.Call, *ssa.Extract, *ssa.Phi:
					// an object some function handed out (a constructor's result): followed inside this function
					push(a, q)
				default:
					escape(x, "the generator is stored into "+desc(x.Addr))
				}
			case *ssa.MapUpdate:
				if x.Value == v {
					escape(x, "the generator is stored into a map")
				}
			case *ssa.Send:
				if x.X == v {
					escape(x, "the generator is sent on a channel")
				}
			case *ssa.Return:
				for k, rv := range x.Results {
					if rv != v {
						continue
					}
					if p == "" {
						res.ret[k] = true
					} else {
						escape(x, "an object holding the generator is returned")
					}
				}
			case *ssa.MakeClosure:
				cl, ok := x.Fn.(*ssa.Function)
				if !ok {
					continue
				}
				for j, b := range x.Bindings {
					if b != v || j >= len(cl.FreeVars) {
						continue
					}
					if depth >= c07OnceDepth {
						escape(x, "the closure capturing the generator is too deep to follow")
						continue
					}
					sub := o.analyse(cl, cl.FreeVars[j], p, depth+1)
					res.esc = append(res.esc, sub.esc...)
					if sub.busy || len(sub.uses) > 0 {
						// a function value that evaluates the generator when it is called
						push(x, "")
					}
				}
			case ssa.CallInstruction:
				cc := x.Common()
				if !cc.IsInvoke() && cc.Value == v && p == "" {
					use(x, "evaluates it")
				}
				for i, a := range cc.Args {
					if a != v {
						continue
					}
					if cc.IsInvoke() {
						use(x, "hands it to "+calleeName(x))
						continue
					}
					if _, isB := cc.Value.(*ssa.Builtin); isB {
						continue
					}
					callee := cc.StaticCallee()
					if callee == nil {
						use(x, "hands it to the function value "+desc(cc.Value))
						continue
					}
					if callee.Blocks == nil || !w.IsProductFn(callee) {
						if p == "" {
							use(x, "hands it to "+fnName(callee))
						}
						continue
					}
					if i >= len(callee.Params) {
						continue
					}
					if depth >= c07OnceDepth {
						use(x, "hands it to "+fnName(callee)+" (too deep to follow)")
						continue
					}
					sub := o.analyse(callee, callee.Params[i], p, depth+1)
					res.esc = append(res.esc, sub.esc...)
					if sub.busy {
						use(x, "hands it to "+fnName(callee)+" (recursive)")
					} else if len(sub.uses) > 0 {
						use(x, "hands it to "+fnName(callee)+", which "+sub.uses[0].how+" ("+w.InstrPos(sub.uses[0].at)+")")
					}
					if call, isCall := x.(*ssa.Call); isCall && len(sub.ret) > 0 {
						if callee.Signature.Results().Len() == 1 {
							push(call, "")
						} else if crefs := call.Referrers(); crefs != nil {
							for _, cr := range *crefs {
								if ex, ok := cr.(*ssa.Extract); ok && sub.ret[ex.Index] {
									push(ex, "")
								}
							}
						}
					}
				}
			}
		}
	}
	res.busy = false
	// no evaluation is reachable from an evaluation (itself included: a loop). A generator the function itself obtains
	// (a call's result, a function value it makes) is a new one each time its definition executes: a path that passes
	// the definition again does not evaluate the same generator twice (one generator per blob inside a loop over blobs).
	var def *ssa.BasicBlock
	if in, ok := root.(ssa.Instruction); ok && in.Parent() == fn {
		def = in.Block()
	}
	sort.Slice(res.uses, func(i, j int) bool {
		a, b := res.uses[i].at, res.uses[j].at
		if a.Block().Index != b.Block().Index {
			return a.Block().Index < b.Block().Index
		}
		return instrIndex(a) < instrIndex(b)
	})
	for _, u1 := range res.uses {
		for _, u2 := range res.uses {
			if c07Follows(res, u1.at, u2.at, def) {
				res.twice = append(res.twice, [2]c07OnceUse{u1, u2})
			}
		}
	}
	return res
}

// c07Follows: instruction b can execute after instruction a on some path of their function (b == a: on a cycle) that does
// not enter the block def (the block that defines the value both instructions use; nil: defined on entry).
func c07Follows(res *c07OnceRes, a, b ssa.Instruction, def *ssa.BasicBlock) bool {
	ba, bb := a.Block(), b.Block()
	if ba == bb && instrIndex(a) < instrIndex(b) {
		return true
	}
	r, ok := res.reach[ba.Index]
	if !ok {
		r = make([]bool, len(ba.Parent().Blocks))
		stack := append([]*ssa.BasicBlock{}, ba.Succs...)
		for len(stack) > 0 {
			n := stack[len(stack)-1]
			stack = stack[:len(stack)-1]
			if r[n.Index] || n == def {
				continue
			}
			r[n.Index] = true
			stack = append(stack, n.Succs...)
		}
		res.reach[ba.Index] = r
	}
	return r[bb.Index]
}

// c07GeneratorOnce: every function of the module that holds a blob descriptor generator evaluates it at most once on
// every path (see the comment at the head of this section for why this is the clause and which shapes are accepted).
func c07GeneratorOnce(c *Ctx) {
	w := c.W
	const prefix = "blob-descriptor/generator-called-once/"
	const rule = "the blob descriptor generator is evaluated at most once on every path (directly, through a function value made from it, or inside a function / interface method it is handed to): " +
		"it reads the caller's one-shot io.Reader to its end, so a second evaluation describes an exhausted stream and the payload that is signed (or the descriptor the signature is compared with) is no longer the descriptor of the blob"
	o := &c07Once{w: w, memo: map[c07OnceKey]*c07OnceRes{}}
	for _, fn := range w.Funcs {
		var roots []ssa.Value
		for _, p := range fn.Params {
			roots = append(roots, p)
		}
		for _, fv := range fn.FreeVars {
			roots = append(roots, fv)
		}
		for _, b := range fn.Blocks {
			for _, in := range b.Instrs {
				switch x := in.(type) {
				case *ssa.Call:
					if _, isTuple := x.Type().(*types.Tuple); !isTuple {
						roots = append(roots, x)
					}
				case *ssa.Extract, *ssa.Lookup, *ssa.TypeAssert, *ssa.Alloc:
					roots = append(roots, x.(ssa.Value))
				case *ssa.UnOp:
					// a generator read from a package-level variable
					if _, isG := x.X.(*ssa.Global); isG && x.Op == token.MUL {
						roots = append(roots, x)
					}
				case *ssa.ChangeType:
					// a function value the function makes into a generator (a literal, a bound method, a declared function)
					if namedOf(x.Type()) == "ngo.BlobDescriptorGenerator" && namedOf(x.X.Type()) != "ngo.BlobDescriptorGenerator" {
						if mc, ok := x.X.(*ssa.MakeClosure); ok {
							roots = append(roots, mc)
						} else {
							roots = append(roots, x)
						}
					}
				}
			}
		}
		for _, r := range roots {
			t := r.Type()
			if _, isMC := r.(*ssa.MakeClosure); isMC {
				o.analyse(fn, r, "", 0)
				continue
			}
			for _, p := range c07GenPaths(t, 0) {
				o.analyse(fn, r, p, 0)
			}
		}
	}
	evaluates := map[*ssa.Function]bool{}
	for _, k := range o.order {
		res := o.memo[k]
		if len(res.uses) == 0 && len(res.esc) == 0 {
			continue
		}
		c.SeenFn(k.fn.String())
		c.Evals += len(res.uses)
		if len(res.uses) > 0 {
			evaluates[k.fn] = true
		}
		key := prefix + fnName(k.fn)
		what := "the generator " + desc(k.root)
		if k.path != "" {
			what = "the generator held by " + desc(k.root)
		}
		switch {
		case len(res.twice) > 0:
			t := res.twice[0]
			detail := fmt.Sprintf("%s may be evaluated twice on one path: %s first %s (%s) and then %s (%s)", what, fnName(k.fn), t[0].how, w.InstrPos(t[0].at), t[1].how, w.InstrPos(t[1].at))
			if t[0].at == t[1].at {
				detail = fmt.Sprintf("%s may be evaluated repeatedly: %s %s inside a loop (%s)", what, fnName(k.fn), t[0].how, w.InstrPos(t[0].at))
			}
			c.Bad(key, rule, w.InstrPos(t[1].at), detail, w.InstrPos(t[0].at), w.InstrPos(t[1].at))
		case len(res.esc) > 0:
			c.Unk(key, rule, w.FnPos(k.fn), "the evaluations of "+what+" cannot be counted: "+res.esc[0])
		default:
			c.OK(key, rule, w.FnPos(k.fn))
		}
	}
	// anchors: the two wrappers that build the generator and every implementation of the signer / verifier interfaces
	// that receive it do evaluate it or hand it on (otherwise the rule above has looked at nothing)
	var anchors []*ssa.Function
	for _, name := range []string{"SignBlob", "VerifyBlob"} {
		if fn := w.Func("", name); fn != nil {
			anchors = append(anchors, fn)
		} else {
			c.Unk(prefix+"ngo."+name, "anchor: notation."+name, "-", "not found")
		}
	}
	anchors = append(anchors, w.implementers("", "BlobSigner", "SignBlob")...)
	anchors = append(anchors, w.implementers("", "BlobVerifier", "VerifyBlob")...)
	for _, fn := range anchors {
		if !evaluates[fn] {
			c.Unk(prefix+fnName(fn), rule, w.FnPos(fn), "anchor: this function is handed (or builds) a blob descriptor generator, but no evaluation of it and no hand-over was found on its call tree")
		}
	}
	c.MinCount(strings.TrimSuffix(prefix, "/"), 4, "functions holding a blob descriptor generator (the two wrappers, a signer, a verifier)")
}

// ---- fallible steps of the signing call tree ----------------------------------------------------------------------
//
// The clause: "what the library signs is the descriptor of the content, and it reports what was signed". Signing is a
// chain of fallible steps — ask for the key spec, evaluate the descriptor generator (read the blob), marshal the payload,
// create / sign / self-verify the envelope, ask the plugin. Each step hands back (values…, error); when the error is not
// nil the values are the zero value or a partial result (the zero descriptor, the byte count of an interrupted read, nil
// payload bytes, an envelope that was never signed). If such a value is consumed — stored into the request, handed to the
// next step, returned — on a path that never passed the nil-error edge of the step, and that path can end in a
// success-capable exit, then Sign / SignBlob report success for a payload that is not the descriptor of the content (or
// return a signature / SignerInfo that does not come from a successful step): the round trip "sign, then verify, and get
// the signed descriptor back" is broken exactly when a step fails. So, as a necessary condition:
//
//	for every call c of the signing call tree whose last result is an error, for every consumption u of a value
//	derived from c's other results: no path leads from c to u and on to a success-capable exit without passing an edge
//	on which c's error is known to be nil.
//
// This is a cut-set statement, decided on the CFG with the engine's path search: remove every edge that establishes
// "error of c == nil" (c07NilEdges), then look for a path c -> u (reachHit) -> success-capable exit (successWitness).
// It does not ask where the test stands, how it is spelled or what follows it. Shapes accepted, because they leave no such
// path: the test right after the call, after other statements, merged with the test of another step through a phi
// (`if err == nil { x, err = g() }; if err != nil`), in a switch, with operands swapped, negated, in a module predicate
// applied to the error (labels composed by the engine), the error kept in a cell; a use ahead of the test when every
// continuation of it is cut by the test; `return f()` and single-exit functions that hand the error of c on as their own
// error (the exit is then as successful as c was: set aside through FnInfo.ignoreTail, by predecessor for a phi in the
// return block). A value is followed through pure derivations (fields, conversions, indexing, arithmetic, builtins,
// ranging) and through phis — a phi carries the value only over the edge of that operand, so the path has to enter the
// phi's block from that predecessor (`if ref, err := parse(s); err == nil { s = ref.X }` is not a use of ref on the failing
// path). Consumptions are: operand of a Return (other than the error), argument / receiver / callee of a call, the value
// of a Store / MapUpdate / Send into memory that is not a local of the function, a closure binding; a value parked in a local
// variable or in a literal under construction is followed to the reads and hand-overs of that local. Uses that only end
// in formatting or logging are cosmetic and ignored.
//
// The signing call tree is found from the exported API (notation.Sign, SignOCI, SignBlob, the implementations of
// notation.Signer.Sign and notation.BlobSigner.SignBlob) by following every module function that is called statically or
// made into a function value (closures, bound methods: the descriptor generator) from there.

// c07SigningTree: the module functions of the signing call tree, in a stable order, and the anchors that must be in it.
func c07SigningTree(w *World) (tree []*ssa.Function, anchors []*ssa.Function, missing []string) {
	var roots []*ssa.Function
	for _, name := range []string{"SignOCI", "SignBlob"} {
		if fn := w.Func("", name); fn != nil {
			roots = append(roots, fn)
			anchors = append(anchors, fn)
		} else {
			missing = append(missing, "notation."+name)
		}
	}
	if fn := w.Func("", "Sign"); fn != nil {
		roots = append(roots, fn)
	}
	sg := w.implementers("", "Signer", "Sign")
	bs := w.implementers("", "BlobSigner", "SignBlob")
	if len(sg) == 0 {
		missing = append(missing, "an implementation of notation.Signer.Sign")
	}
	if len(bs) == 0 {
		missing = append(missing, "an implementation of notation.BlobSigner.SignBlob")
	}
	roots = append(roots, sg...)
	roots = append(roots, bs...)
	anchors = append(anchors, sg...)
	anchors = append(anchors, bs...)
	seen := map[*ssa.Function]bool{}
	var visit func(f *ssa.Function)
	visit = func(f *ssa.Function) {
		if f == nil || seen[f] || f.Blocks == nil {
			return
		}
		if o := f.Origin(); o != nil && !w.IsProductFn(o) {
			return
		}
		if !w.IsProductFn(f) && f.Synthetic == "" {
			return
		}
		if f.Synthetic != "" && f.Pkg != nil && !w.IsProductPkg(f.Pkg.Pkg.Path()) {
			return
		}
		seen[f] = true
		if w.IsProductFn(f) && f.Synthetic == "" {
			tree = append(tree, f)
		}
		for _, b := range f.Blocks {
			for _, in := range b.Instrs {
				for _, op := range in.Operands(nil) {
					if op == nil || *op == nil {
						continue
					}
					if g, ok := (*op).(*ssa.Function); ok {
						visit(g)
					}
				}
			}
		}
	}
	for _, r := range roots {
		visit(r)
	}
	sort.SliceStable(tree, func(i, j int) bool { return tree[i].String() < tree[j].String() })
	return tree, anchors, missing
}

// c07ErrorHolders: the values of the function that can hold the error result errX of a step: the result itself, phis it
// flows into, loads of a local cell it is stored into, interface conversions of these.
func c07ErrorHolders(errX ssa.Value) map[ssa.Value]bool {
	set := map[ssa.Value]bool{}
	var add func(v ssa.Value)
	add = func(v ssa.Value) {
		if v == nil || set[v] {
			return
		}
		set[v] = true
		refs := v.Referrers()
		if refs == nil {
			return
		}
		for _, r := range *refs {
			switch x := r.(type) {
			case *ssa.Phi:
				add(x)
			case *ssa.ChangeInterface:
				add(x)
			case *ssa.ChangeType:
				add(x)
			case *ssa.Store:
				al, ok := x.Addr.(*ssa.Alloc)
				if !ok || x.Val != v || al.Referrers() == nil {
					continue
				}
				for _, lr := range *al.Referrers() {
					if ld, ok := lr.(*ssa.UnOp); ok && ld.Op == token.MUL && ld.X == ssa.Value(al) {
						add(ld)
					}
				}
			}
		}
	}
	add(errX)
	return set
}

// c07NilEdges: the If edges of the function on which the error of the step is known to be nil — a nil comparison of one
// of its holders (either spelling, either operand order, negated), or a condition whose composed facts (module predicate
// applied to the error, success of a helper that tested it) contain "holder == nil".
func c07NilEdges(fi *FnInfo, holders map[ssa.Value]bool) map[edgeKey]bool {
	want := map[string]bool{}
	for h := range holders {
		want["EQ("+desc(h)+",nil)"] = true
	}
	saysNil := func(cond ssa.Value, truth bool) bool {
		for {
			u, ok := cond.(*ssa.UnOp)
			if !ok || u.Op != token.NOT {
				break
			}
			cond, truth = u.X, !truth
		}
		bo, ok := cond.(*ssa.BinOp)
		if !ok || (bo.Op != token.EQL && bo.Op != token.NEQ) {
			return false
		}
		var o ssa.Value
		switch {
		case isNilConst(bo.Y):
			o = bo.X
		case isNilConst(bo.X):
			o = bo.Y
		default:
			return false
		}
		return holders[o] && ((bo.Op == token.EQL) == truth)
	}
	out := map[edgeKey]bool{}
	for _, b := range fi.Fn.Blocks {
		iff, ok := blockTerm(b).(*ssa.If)
		if !ok || len(b.Succs) != 2 {
			continue
		}
		for j := 0; j < 2; j++ {
			truth := j == 0
			if saysNil(iff.Cond, truth) || want[condLabel(iff.Cond, truth)] {
				out[edgeKey{b.Index, j}] = true
				continue
			}
			if comp := fi.composeCond(iff.Cond, truth); comp != nil {
				for l := range comp.Checked {
					if want[l] {
						out[edgeKey{b.Index, j}] = true
						break
					}
				}
			}
		}
	}
	return out
}

// c07LocalRoot: the local variable (Alloc of this function) the address points into, through field / element selection
// only; nil for memory reached through a loaded pointer, a parameter or a global.
func c07LocalRoot(addr ssa.Value) *ssa.Alloc {
	for i := 0; i < 8; i++ {
		switch x := addr.(type) {
		case *ssa.Alloc:
			return x
		case *ssa.FieldAddr:
			addr = x.X
		case *ssa.IndexAddr:
			addr = x.X
		default:
			return nil
		}
	}
	return nil
}

// c07StepLeak: one consumption of a step's result that a success-capable path reaches without the step's nil-error edge.
type c07StepLeak struct {
	Call *ssa.Call
	Use  ssa.Instruction
	Path []string
}

// c07StepLeaks decides the clause for one fallible call of fn. used reports whether a non-error result of the call is
// consumed at all (a step whose values are dropped or only logged is none of this rule's business).
func c07StepLeaks(w *World, fi *FnInfo, call *ssa.Call) (leak *c07StepLeak, used bool) {
	tup, ok := call.Type().(*types.Tuple)
	if !ok || tup.Len() < 2 || !isErrorType(tup.At(tup.Len()-1).Type()) || call.Referrers() == nil {
		return nil, false
	}
	var errX ssa.Value
	var vals []*ssa.Extract
	for _, r := range *call.Referrers() {
		if ex, ok := r.(*ssa.Extract); ok {
			if ex.Index == tup.Len()-1 {
				errX = ex
			} else {
				vals = append(vals, ex)
			}
		}
	}
	if len(vals) == 0 {
		return nil, false
	}
	cut := map[edgeKey]bool{}
	if errX != nil {
		cut = c07NilEdges(fi, c07ErrorHolders(errX))
	}
	type rk struct{ a, b int }
	reachMemo := map[rk]bool{}
	reach := func(a, b *ssa.BasicBlock) bool {
		if a == b {
			return true
		}
		k := rk{a.Index, b.Index}
		if r, ok := reachMemo[k]; ok {
			return r
		}
		r := fi.reachHit([]state{{a.Index, 0, -1}}, cut, map[int]bool{b.Index: true})
		reachMemo[k] = r
		return r
	}
	// tainted values: v carries (something derived from) a result of this very execution of the call on some cut-avoiding
	// path from the call to block b; pred >= 0: v is (derived in b from) a phi of b taken over the edge of that predecessor
	type tv struct {
		v    ssa.Value
		b    *ssa.BasicBlock
		pred int
	}
	type tk struct {
		v    ssa.Value
		pred int
	}
	seen := map[tk]bool{}
	var work []tv
	push := func(t tv) {
		if !seen[tk{t.v, t.pred}] {
			seen[tk{t.v, t.pred}] = true
			work = append(work, t)
		}
	}
	for _, ex := range vals {
		push(tv{ex, call.Block(), -1})
	}
	old := fi.ignoreTail
	fi.ignoreTail = map[*ssa.Call]bool{call: true}
	defer func() { fi.ignoreTail = old }()
	witness := func(t tv, u ssa.Instruction) []string {
		ub := u.Block()
		if !reach(t.b, ub) {
			return nil
		}
		p := -1
		if _, isRet := u.(*ssa.Return); isRet && ub == t.b && fi.phiRet[ub] {
			p = t.pred
		}
		return fi.successWitness(Mode{Kind: mErr}, []state{{ub.Index, 0, p}}, cut)
	}
	for len(work) > 0 {
		t := work[0]
		work = work[1:]
		refs := t.v.Referrers()
		if refs == nil {
			continue
		}
		for _, r := range *refs {
			if onlyFormatted(r, 0) {
				continue
			}
			derivedPred := func(in ssa.Instruction) int {
				if in.Block() == t.b {
					return t.pred
				}
				return -1
			}
			consumed := false
			switch x := r.(type) {
			case *ssa.DebugRef:
			case *ssa.Phi:
				pb := x.Block()
				for i, e := range x.Edges {
					if e != t.v || i >= len(pb.Preds) {
						continue
					}
					p := pb.Preds[i]
					if !reach(t.b, p) {
						continue
					}
					open := false
					for j, s := range p.Succs {
						if s == pb && !cut[edgeKey{p.Index, j}] {
							open = true
						}
					}
					if open {
						push(tv{x, pb, i})
					}
				}
			case *ssa.Return:
				for k, rv := range x.Results {
					if rv == t.v && !isErrorType(x.Parent().Signature.Results().At(k).Type()) {
						consumed = true
					}
				}
			case ssa.CallInstruction:
				com := x.Common()
				if b, isB := com.Value.(*ssa.Builtin); isB {
					// len, cap, append, copy, …: a derivation (append / copy into other storage are stores of what is derived)
					_ = b
					if v, isV := r.(ssa.Value); isV && reach(t.b, r.Block()) {
						push(tv{v, r.Block(), derivedPred(r)})
					}
					continue
				}
				used = true
				consumed = true
			case *ssa.Store:
				if x.Val != t.v {
					break // a write into (a component of) the value, not a use of it
				}
				if al := c07LocalRoot(x.Addr); al != nil {
					// kept in a local variable / literal under construction: what matters is where that is read or handed on
					if reach(t.b, x.Block()) {
						push(tv{al, x.Block(), -1})
					}
					break
				}
				consumed = true
			case *ssa.MapUpdate:
				consumed = x.Key == t.v || x.Value == t.v
			case *ssa.Send:
				consumed = x.X == t.v
			case *ssa.MakeClosure:
				consumed = true
			case *ssa.If, *ssa.Jump, *ssa.Panic, *ssa.RunDefers:
			default:
				// a pure derivation (field, element, conversion, arithmetic, comparison, range / next / extract, type assertion)
				if v, isV := r.(ssa.Value); isV && reach(t.b, r.Block()) {
					push(tv{v, r.Block(), derivedPred(r)})
				}
			}
			if !consumed {
				continue
			}
			used = true
			if leak == nil {
				if path := witness(t, r); path != nil {
					leak = &c07StepLeak{Call: call, Use: r, Path: path}
				}
			}
		}
	}
	return leak, used
}

// c07StepsSucceeded: see the comment at the head of this section.
func c07StepsSucceeded(c *Ctx) {
	w := c.W
	const prefix = "signing/step-succeeded/"
	const rule = "must-check: in the signing call tree, a value handed back by a fallible step (key spec, descriptor generator, payload marshalling, envelope creation / signing / self-verification, plugin answer) " +
		"is consumed — stored, handed to the next step, returned — only on paths that passed the nil-error edge of that step, unless no such path can end in a success-capable exit: " +
		"otherwise signing reports success for a payload built from the zero or partial result of a failed step (the zero descriptor, the digest of an interrupted read, empty payload bytes), which is not the descriptor of the content"
	tree, anchors, missing := c07SigningTree(w)
	for _, m := range missing {
		c.Unk(prefix+"#anchor", "anchor: the signing API ("+m+")", "-", "not found")
	}
	decided := map[*ssa.Function]bool{}
	for _, fn := range tree {
		fi := w.Info(fn)
		nSteps := 0
		var leaks []*c07StepLeak
		for _, ci := range allCalls(fn) {
			call, ok := ci.(*ssa.Call)
			if !ok {
				continue
			}
			leak, used := c07StepLeaks(w, fi, call)
			if !used {
				continue
			}
			nSteps++
			c.Evals++
			if leak != nil {
				leaks = append(leaks, leak)
			}
		}
		if nSteps == 0 {
			continue
		}
		decided[fn] = true
		c.SeenFn(fn.String())
		key := prefix + fnName(fn)
		if len(leaks) == 0 {
			c.OK(key, rule, w.FnPos(fn))
			continue
		}
		l := leaks[0]
		detail := fmt.Sprintf("%s consumes the result of %s at %s on a path that reaches a success-capable exit without having seen that step's error to be nil", fnName(fn), calleeName(l.Call), w.InstrPos(l.Use))
		if len(leaks) > 1 {
			detail += fmt.Sprintf(" (and %d more steps)", len(leaks)-1)
		}
		c.Bad(key, rule, w.InstrPos(l.Call), detail, l.Path...)
	}
	for _, fn := range anchors {
		if !decided[fn] {
			c.Unk(prefix+fnName(fn), rule, w.FnPos(fn), "anchor: this function of the signing API has no fallible step whose result it consumes (not even the signer it delegates to)")
		}
	}
	c.MinCount(strings.TrimSuffix(prefix, "/"), 6, "functions of the signing call tree with fallible steps (the wrappers, the signers' Sign and SignBlob, the descriptor generator)")
}
