package main

import (
	"fmt"
	"go/types"
	"strings"

	"golang.org/x/tools/go/ssa"
)

// Helpers of the C07 rule set that decide obligations on SSA values and across module helpers
// (rather than on the printed form of one function body).

// ---- the marshalled payload: where it is built, whom it reaches -----------------

// c07Sink: a store of the marshalled payload bytes into the Content / Payload field of a request object.
type c07Sink struct {
	Fn    *ssa.Function // the function that fills the request (the signer proper)
	Store *ssa.Store
	// DescParam: the parameter of Fn (an ocispec.Descriptor) the payload was built from, followed hop by hop through
	// the helpers' arguments; nil when the chain is broken somewhere (DescWhy says where).
	DescParam *ssa.Parameter
	DescWhy   string
}

// c07Writer: one json.Marshal(envelope.Payload) site with everything decided about it.
type c07Writer struct {
	Marshal *ssa.Call
	In      *ssa.Function
	// TargetOK: the marshalled value is a local Payload whose TargetArtifact is written only with sanitise(<parameter of In>)
	TargetOK bool
	Target   string // rendering of what TargetArtifact receives (for the detail)
	Sinks    []c07Sink
}

// c07Writers finds the payload writers (all product packages; the caller selects).
//
// Soundness of following the bytes through a helper: result k of a module function g is, at a call site of g, exactly the
// value g's Return hands back as result k. So "the bytes json.Marshal produced are what the request carries" holds in
// the caller when (1) the helper returns result 0 of that Marshal call as its result k and (2) the caller stores result
// k of its call of the helper into the request. Likewise "the payload describes the signer's descriptor parameter" holds
// when the helper builds the payload from its own parameter i and every caller on the way passes its descriptor
// parameter as argument i. Both are decided on SSA values, hop by hop; nothing is assumed about names or file layout.
func c07Writers(w *World, san *ssa.Function) []*c07Writer {
	var out []*c07Writer
	for _, fn := range w.Funcs {
		for _, ci := range allCalls(fn) {
			call, ok := ci.(*ssa.Call)
			if !ok || calleeName(call) != "encoding/json.Marshal" || len(call.Call.Args) != 1 {
				continue
			}
			a := unwrap(call.Call.Args[0])
			if namedOf(a.Type()) != "ngo/internal/envelope.Payload" {
				continue
			}
			wr := &c07Writer{Marshal: call, In: fn}
			var from *ssa.Parameter
			nStore := 0
			wr.TargetOK = true
			if al, isAl := unwrapLoadAlloc(a); isAl && al.Referrers() != nil {
				for _, r := range *al.Referrers() {
					fa, ok := r.(*ssa.FieldAddr)
					if !ok || fieldName(al.Type(), fa.Field) != "TargetArtifact" || fa.Referrers() == nil {
						continue
					}
					for _, rr := range *fa.Referrers() {
						st, ok := rr.(*ssa.Store)
						if !ok || st.Addr != ssa.Value(fa) {
							continue
						}
						nStore++
						wr.Target = desc(st.Val)
						p := c07SanitisedParam(st.Val, san, fn)
						if p == nil || (from != nil && from != p) {
							wr.TargetOK = false
							continue
						}
						from = p
					}
				}
			}
			if nStore == 0 || from == nil {
				wr.TargetOK = false
			}
			var bytes ssa.Value
			if refs := call.Referrers(); refs != nil {
				for _, r := range *refs {
					if ex, ok := r.(*ssa.Extract); ok && ex.Index == 0 {
						bytes = ex
					}
				}
			}
			if bytes != nil {
				if !wr.TargetOK {
					from = nil
				}
				c07FollowBytes(w, fn, bytes, from, "", 0, &wr.Sinks)
			}
			out = append(out, wr)
		}
	}
	return out
}

// c07SanitisedParam: v is san(<p>) with p a parameter of fn of type ocispec.Descriptor (read directly or through the
// parameter's spill cell); returns p.
func c07SanitisedParam(v ssa.Value, san, fn *ssa.Function) *ssa.Parameter {
	call, ok := v.(*ssa.Call)
	if !ok || san == nil || staticCallee(call) != san || len(call.Call.Args) != 1 {
		return nil
	}
	return c07ParamOf(call.Call.Args[0], fn)
}

// c07ParamOf: the value is a parameter of fn (or the load of the cell that holds nothing but that parameter).
func c07ParamOf(v ssa.Value, fn *ssa.Function) *ssa.Parameter {
	p, ok := loadOrigin(v).(*ssa.Parameter)
	if !ok || p.Parent() != fn {
		return nil
	}
	return p
}

func c07ParamIndex(fn *ssa.Function, p *ssa.Parameter) int {
	for i, q := range fn.Params {
		if q == p {
			return i
		}
	}
	return -1
}

// c07FollowBytes: v holds the marshalled payload in f, built from f's parameter `from` (nil: chain already broken, why says
// where). Records the request fields it is stored into, in f or — when f returns it — in f's callers.
func c07FollowBytes(w *World, f *ssa.Function, v ssa.Value, from *ssa.Parameter, why string, depth int, out *[]c07Sink) {
	if depth > 3 || v.Referrers() == nil {
		return
	}
	if from == nil && why == "" {
		why = "the payload marshalled in " + fnName(f) + " is not built from sanitise(<descriptor parameter>)"
	}
	for _, r := range *v.Referrers() {
		switch x := r.(type) {
		case *ssa.Store:
			fa, ok := x.Addr.(*ssa.FieldAddr)
			if !ok || x.Val != v {
				continue
			}
			if fld := fieldName(fa.X.Type(), fa.Field); fld == "Content" || fld == "Payload" {
				*out = append(*out, c07Sink{Fn: f, Store: x, DescParam: from, DescWhy: why})
			}
		case *ssa.Return:
			for k, rv := range x.Results {
				if rv != v {
					continue
				}
				for _, g := range w.Funcs {
					for _, ci := range allCalls(g) {
						call, ok := ci.(*ssa.Call)
						if !ok || staticCallee(call) != f {
							continue
						}
						rk := c07ResultOf(call, k)
						if rk == nil {
							continue
						}
						var from2 *ssa.Parameter
						why2 := why
						if from != nil {
							if i := c07ParamIndex(f, from); i >= 0 && i < len(call.Call.Args) {
								from2 = c07ParamOf(call.Call.Args[i], g)
								if from2 == nil {
									why2 = fnName(g) + " hands " + desc(call.Call.Args[i]) + " (not its descriptor parameter) to " + fnName(f)
								}
							}
						}
						c07FollowBytes(w, g, rk, from2, why2, depth+1, out)
					}
				}
			}
		}
	}
}

// c07ResultOf: the value of result k of a call (the call itself for a single result).
func c07ResultOf(call *ssa.Call, k int) ssa.Value {
	if _, isTuple := call.Type().(*types.Tuple); !isTuple {
		if k == 0 {
			return call
		}
		return nil
	}
	if call.Referrers() == nil {
		return nil
	}
	for _, r := range *call.Referrers() {
		if ex, ok := r.(*ssa.Extract); ok && ex.Index == k {
			return ex
		}
	}
	return nil
}

// c07SinkFns: the distinct functions that put the payload of some writer into a request, in a stable order.
func c07SinkFns(ws []*c07Writer) []*ssa.Function {
	var out []*ssa.Function
	seen := map[*ssa.Function]bool{}
	for _, wr := range ws {
		for _, s := range wr.Sinks {
			if !seen[s.Fn] {
				seen[s.Fn] = true
				out = append(out, s.Fn)
			}
		}
	}
	return out
}

// ---- expiry -----------------------------------------------------------------------

// c07ExpiryValue decides the value stored into <request>.Expiry (st.Addr == fa, fa = &X.Expiry).
//
// The clause: the request's expiry is its own signing time plus the requested duration, and it is left zero (= no expiry)
// when the duration is zero. The value may reach the field directly or through a variable that was computed beforehand
// (a phi): every way the stored value can have been produced must be either
//   - the zero time.Time (no expiry), or
//   - T.Add(<options parameter>.ExpiryDuration) computed under the fact ExpiryDuration != 0, where T is the signing time
//     of the same request: the field X.SigningTime read back, or the very SSA value that is the only thing stored
//     into X.SigningTime (one evaluation of the clock feeds both fields, so Expiry - SigningTime == duration exactly),
//
// and at least one way must be the second one. The guard may dominate the Add (value computed ahead of the request)
// or the store (request patched afterwards): an SSA value is only available on paths through its definition, so a
// guard on the definition is a guard on every use.
func c07ExpiryValue(fi *FnInfo, st *ssa.Store, fa *ssa.FieldAddr, ed string) (bool, string) {
	X := fa.X
	var stTimes []ssa.Value
	if X.Referrers() != nil {
		for _, r := range *X.Referrers() {
			f2, ok := r.(*ssa.FieldAddr)
			if !ok || fieldName(X.Type(), f2.Field) != "SigningTime" || f2.Referrers() == nil {
				continue
			}
			for _, rr := range *f2.Referrers() {
				if s2, ok := rr.(*ssa.Store); ok && s2.Addr == ssa.Value(f2) {
					stTimes = append(stTimes, s2.Val)
				}
			}
		}
	}
	isSigningTime := func(t ssa.Value) bool {
		if desc(t) == desc(X)+".SigningTime" {
			return true
		}
		return len(stTimes) == 1 && loadOrigin(stTimes[0]) == loadOrigin(t)
	}
	want := "NE(" + ed + ",const:0)"
	gStore := fi.GuardsOf(st)
	nAdd := 0
	why := ""
	seen := map[ssa.Value]bool{}
	var walk func(v ssa.Value, depth int) bool
	walk = func(v ssa.Value, depth int) bool {
		v = loadOrigin(v)
		if seen[v] {
			return true
		}
		seen[v] = true
		if depth > 4 {
			why = "value too deep to follow"
			return false
		}
		switch x := v.(type) {
		case *ssa.Phi:
			for _, e := range x.Edges {
				if !walk(e, depth+1) {
					return false
				}
			}
			return true
		case *ssa.Const:
			if x.Value == nil && namedOf(x.Type()) == "time.Time" {
				return true
			}
		case *ssa.Call:
			if calleeName(x) == "(time.Time).Add" && len(x.Call.Args) == 2 {
				if desc(x.Call.Args[1]) != ed {
					why = "the duration added is " + desc(x.Call.Args[1])
					return false
				}
				if !isSigningTime(x.Call.Args[0]) {
					why = "the duration is added to " + desc(x.Call.Args[0]) + ", not to the signing time of the same request"
					return false
				}
				if !labelHas(gStore, want) && !labelHas(fi.GuardsOf(x), want) {
					why = "the sum is computed and stored without the test ExpiryDuration != 0"
					return false
				}
				nAdd++
				return true
			}
		}
		why = "the expiry may be " + desc(v)
		return false
	}
	if !walk(st.Val, 0) {
		return false, why
	}
	if nAdd == 0 {
		return false, "no SigningTime.Add(ExpiryDuration) reaches the field"
	}
	return true, ""
}

// ---- blob descriptor generator ------------------------------------------------------

// c07Generator: a function value the builder creates as the descriptor generator, with the way the builder's parameters
// appear inside its body.
type c07Generator struct {
	Made *ssa.MakeClosure // the function value, in the builder
	Body *ssa.Function    // the code it runs: the literal's body, or the method behind a bound method value
	// Captured renders, in Body's frame, the builder parameter whose type satisfies pred ("free:x" for a closure,
	// "param:recv.field" for a bound method), or "?:…" when there is none.
	Captured func(pred func(types.Type) bool) string
}

// c07Generators returns the generator bodies a builder creates.
//
// Two shapes say the same thing: a function literal that captures the builder's parameters (each call of the builder
// makes a new closure over its own arguments), and a method value bound to a receiver object the builder has just
// allocated and filled from its parameters. In the second shape a read of recv.f inside the method yields the builder's
// parameter provided (1) the receiver object is allocated in the builder and used there only to fill its fields and to
// bind the method, (2) field f is written exactly once in the builder, with that parameter, and (3) no other function of
// the module writes field f of that struct type. All three are checked here.
func c07Generators(w *World, builder *ssa.Function) []c07Generator {
	var out []c07Generator
	for _, b := range builder.Blocks {
		for _, in := range b.Instrs {
			mc, ok := in.(*ssa.MakeClosure)
			if !ok {
				continue
			}
			fn, ok := mc.Fn.(*ssa.Function)
			if !ok {
				continue
			}
			if !strings.HasPrefix(fn.Synthetic, "bound method wrapper") {
				cl := fn
				out = append(out, c07Generator{Made: mc, Body: cl, Captured: func(pred func(types.Type) bool) string {
					return freeVarOfParam(builder, cl, pred)
				}})
				continue
			}
			mobj, _ := fn.Object().(*types.Func)
			if mobj == nil || len(mc.Bindings) != 1 {
				continue
			}
			m := w.Prog.FuncValue(mobj)
			if m == nil || m.Blocks == nil || len(m.Params) == 0 || !w.IsProductFn(m) {
				continue
			}
			recvAlloc, _ := mc.Bindings[0].(*ssa.Alloc)
			recvName := m.Params[0].Name()
			out = append(out, c07Generator{Made: mc, Body: m, Captured: func(pred func(types.Type) bool) string {
				if recvAlloc == nil || recvAlloc.Referrers() == nil {
					return "?:receiver-not-local"
				}
				// (1) the receiver object is only filled and bound
				for _, r := range *recvAlloc.Referrers() {
					switch x := r.(type) {
					case *ssa.FieldAddr, *ssa.DebugRef:
					case *ssa.MakeClosure:
						if x != mc {
							return "?:receiver-shared"
						}
					default:
						return "?:receiver-escapes"
					}
				}
				field := ""
				for _, r := range *recvAlloc.Referrers() {
					fa, ok := r.(*ssa.FieldAddr)
					if !ok || fa.Referrers() == nil {
						continue
					}
					for _, rr := range *fa.Referrers() {
						st, ok := rr.(*ssa.Store)
						if !ok || st.Addr != ssa.Value(fa) {
							return "?:receiver-field-escapes"
						}
						if p := c07ParamOf(st.Val, builder); p != nil && pred(p.Type()) {
							if field != "" {
								return "?:ambiguous"
							}
							field = fieldName(recvAlloc.Type(), fa.Field)
						}
					}
				}
				if field == "" {
					return "?:no-field-holds-the-parameter"
				}
				// (2) written once in the builder, (3) written nowhere else
				n := 0
				st := namedOf(recvAlloc.Type())
				for _, g := range w.Funcs {
					for _, gb := range g.Blocks {
						for _, gi := range gb.Instrs {
							fa, ok := gi.(*ssa.FieldAddr)
							if !ok || namedOf(fa.X.Type()) != st || fieldName(fa.X.Type(), fa.Field) != field {
								continue
							}
							if addrWritten(fa, 0) {
								if g != builder {
									return "?:field-written-in-" + fnName(g)
								}
								n++
							}
						}
					}
				}
				if n != 1 {
					return fmt.Sprintf("?:field-written-%d-times", n)
				}
				return "param:" + recvName + "." + field
			}})
		}
	}
	return out
}
