package main

// Helpers of the C08 rule set: statements of a policy document are followed by role and dataflow (which slice element
// a value denotes, what is known about that element when it is remembered / cloned / returned), through module
// helpers, predicate closures and the standard library's search function, instead of by the position and the printed
// form of one loop shape.

import (
	"go/constant"
	"go/token"
	"go/types"
	"regexp"
	"strconv"
	"strings"

	"golang.org/x/tools/go/ssa"
)

// c08STMT stands for "the statement selected" in facts that were moved out of the frame in which the statement lives.
const c08STMT = "STMT"

const (
	c08OCIStmt  = "ngo/verifier/trustpolicy.OCITrustPolicy"
	c08BlobStmt = "ngo/verifier/trustpolicy.BlobTrustPolicy"
)

// c08IsStmtPtr: *OCITrustPolicy or *BlobTrustPolicy.
func c08IsStmtPtr(t types.Type) bool {
	if _, ok := t.Underlying().(*types.Pointer); !ok {
		return false
	}
	n := namedOf(t)
	return n == c08OCIStmt || n == c08BlobStmt
}

// c08Stmt: a value that denotes element Idx of the slice Slice — the element's address (&x[i]), the element loaded
// (x[i] as a value) or a local variable whose only assignment is a copy of the element (the range variable).
type c08Stmt struct {
	D     string          // rendering of the statement in its frame: facts about it are facts about D.<field>
	Slice ssa.Value       // the slice
	Idx   ssa.Value       // the index
	Birth *ssa.BasicBlock // the block in which this statement comes to life (each execution of it is another statement)
	Local *ssa.Alloc      // the local copy, if the statement is one
	Kept  []c08Kept       // further local variables the copy was copied on to (the value consumed is the last of them)
}

// c08Kept: a local variable (declared anywhere, e.g. before the loop) whose only assignment copies the whole value of
// a local copy of a statement: `selected = policyStatement`.
type c08Kept struct {
	D     string     // its rendering
	Local *ssa.Alloc // the variable
	Copy  *ssa.Store // the assignment
}

func c08StmtOf(fn *ssa.Function, v ssa.Value) *c08Stmt {
	d := desc(v)
	for i := 0; i < 4; i++ {
		switch x := v.(type) {
		case *ssa.UnOp:
			if x.Op != token.MUL {
				return nil
			}
			v = x.X
		case *ssa.Alloc:
			// a local copy: one assignment of the whole value, a loaded slice element; no field is written afterwards
			st := c08WholeStore(x)
			if st == nil {
				return nil
			}
			ld, ok := st.Val.(*ssa.UnOp)
			if !ok || ld.Op != token.MUL {
				return nil
			}
			if src, isLocal := ld.X.(*ssa.Alloc); isLocal && src != x && i < 3 {
				// a copy of a local copy, kept in another variable: the statement the first copy denotes, as long as the
				// copying assignment is executed between the moment that statement comes to life and the moment the
				// variable is consumed (stmtAlt checks it: otherwise the variable may still hold an older statement)
				inner := c08StmtOf(fn, src)
				if inner == nil || inner.Local == nil || len(inner.Kept) > 0 {
					return nil // (a copy of a kept copy is not followed: the order of the two assignments would matter)
				}
				out := *inner
				out.Kept = append(append([]c08Kept(nil), inner.Kept...), c08Kept{D: desc(x), Local: x, Copy: st})
				return &out
			}
			ia, ok := ld.X.(*ssa.IndexAddr)
			if !ok {
				return nil
			}
			return &c08Stmt{D: d, Slice: ia.X, Idx: ia.Index, Birth: st.Block(), Local: x}
		case *ssa.IndexAddr:
			b := fn.Blocks[0]
			if in, ok := x.Index.(ssa.Instruction); ok && in.Block() != nil {
				b = in.Block()
			}
			return &c08Stmt{D: d, Slice: x.X, Idx: x.Index, Birth: b}
		default:
			return nil
		}
	}
	return nil
}

// c08WholeStore: the local variable x is assigned exactly once, as a whole, and no field of it is written: the store.
func c08WholeStore(x *ssa.Alloc) *ssa.Store {
	var st *ssa.Store
	if x.Referrers() == nil {
		return nil
	}
	for _, r := range *x.Referrers() {
		switch y := r.(type) {
		case *ssa.Store:
			if y.Addr != ssa.Value(x) || st != nil {
				return nil
			}
			st = y
		case *ssa.FieldAddr:
			if addrWritten(y, 0) {
				return nil
			}
		}
	}
	return st
}

// c08Facts: the facts that hold whenever control enters block `at` after the most recent execution of block `birth`:
// the labels of the branch edges every path from birth to at passes that does not re-enter birth (facts of one
// iteration when birth lies in a loop). nil if `at` cannot be reached that way.
// On top of what the engine composes (boolean module helpers), a must-pass edge that tests a value against a constant
// — the answer of a module helper that answers with enumeration constants, a variable in which such an answer or a
// flag is held — contributes what is known when the value is that constant (c08EdgeFacts).
func c08Facts(w *World, fn *ssa.Function, birth, at *ssa.BasicBlock) map[string]string {
	return c08FactsD(w, fn, birth, at, 0)
}

func c08FactsD(w *World, fn *ssa.Function, birth, at *ssa.BasicBlock, depth int) map[string]string {
	fi := w.Info(fn)
	out := map[string]string{}
	if birth == at {
		return out
	}
	cut := map[edgeKey]bool{}
	cutInto(fi, birth, cut)
	targets := map[int]bool{at.Index: true}
	l, ok := fi.mustPassBetweenCut([]int{birth.Index}, targets, cut)
	if !ok {
		return nil
	}
	for k, v := range l {
		out[k] = v
	}
	if depth > 2 {
		return out
	}
	ss := []state{{birth.Index, 0, -1}}
	for _, b := range fn.Blocks {
		iff, isIf := blockTerm(b).(*ssa.If)
		if !isIf || len(b.Succs) != 2 {
			continue
		}
		for j := 0; j < 2; j++ {
			if cut[edgeKey{b.Index, j}] || !c08TestsHeldValue(iff.Cond) {
				continue
			}
			c2 := map[edgeKey]bool{{b.Index, j}: true}
			for e := range cut {
				c2[e] = true
			}
			if fi.reachHit(ss, c2, targets) {
				continue // not a must-pass edge
			}
			for k, v := range c08EdgeFacts(w, fn, birth, b, iff.Cond, j == 0, depth) {
				if _, has := out[k]; !has {
					out[k] = v
				}
			}
		}
	}
	return out
}

// c08EnumConst: an integer or string constant (a value of an enumeration type).
func c08EnumConst(k *ssa.Const) bool {
	return k != nil && k.Value != nil && (k.Value.Kind() == constant.Int || k.Value.Kind() == constant.String)
}

// c08HeldTest: cond is a test of a value against a constant: `x == k` / `x != k` with k an enumeration constant, or a
// boolean variable / one of several results of a call x itself (k = true), under any number of negations. The value,
// the constant, and whether cond being true states equality.
func c08HeldTest(cond ssa.Value) (x ssa.Value, k constant.Value, eq bool, ok bool) {
	eq = true
	for {
		u, isNot := cond.(*ssa.UnOp)
		if !isNot || u.Op != token.NOT {
			break
		}
		cond, eq = u.X, !eq
	}
	switch c := cond.(type) {
	case *ssa.Phi, *ssa.Extract:
		if bt, isB := c.Type().Underlying().(*types.Basic); isB && bt.Info()&types.IsBoolean != 0 {
			return c, constant.MakeBool(true), eq, true
		}
	case *ssa.BinOp:
		if c.Op != token.EQL && c.Op != token.NEQ {
			return nil, nil, false, false
		}
		a, b := c.X, c.Y
		if _, isK := a.(*ssa.Const); isK {
			a, b = b, a
		}
		kc, isK := b.(*ssa.Const)
		if !isK || !c08EnumConst(kc) {
			return nil, nil, false, false
		}
		return a, kc.Value, eq == (c.Op == token.EQL), true
	}
	return nil, nil, false, false
}

// c08TestsHeldValue: cond tests the answer of a call or a variable (phi) against a constant (cheap pre-filter).
func c08TestsHeldValue(cond ssa.Value) bool {
	x, _, _, ok := c08HeldTest(cond)
	if !ok {
		return false
	}
	switch x.(type) {
	case *ssa.Call, *ssa.Phi, *ssa.Extract:
		return true
	}
	return false
}

// c08EdgeFacts: what is known on the edge of block b (of fn) on which cond evaluates to truth, beyond the label of the
// edge: cond states `x == k` for the answer x of a module helper that answers with enumeration constants, for a
// variable x that holds such an answer or constants (`m := none; …; m = exact; …; switch m`), or for a flag
// (`found := false; …; found = true; …; if found`). See c08ValueIsFacts.
func c08EdgeFacts(w *World, fn *ssa.Function, birth, b *ssa.BasicBlock, cond ssa.Value, truth bool, depth int) map[string]string {
	x, k, eq, ok := c08HeldTest(cond)
	if !ok {
		return nil
	}
	if eq != truth {
		// the edge states an inequality: it says something for a flag only (not true = false)
		if k.Kind() != constant.Bool {
			return nil
		}
		k = constant.MakeBool(!constant.BoolVal(k))
	}
	facts, _ := c08ValueIsFacts(w, fn, birth, x, b, k, false, depth)
	return facts
}

// c08CallAnswerFacts: the facts that hold (in the caller's frame) when result #idx of the call of a module function — a
// function, a method, a closure made in the caller — was k: an enumeration-kinded result, or one of several results
// that is a flag (a single boolean result is composed by the engine). understood=false if the callee is not such a
// function or cannot be followed; nil facts with understood=true: the callee never answers k.
// The callee's parameters are replaced by the arguments; the variables a closure captures by their only value in the
// caller's frame (c08CapturedValue; a fact about a captured variable that may change is dropped).
func c08CallAnswerFacts(w *World, call *ssa.Call, idx int, k constant.Value, depth int) (facts map[string]string, understood bool) {
	g := staticCallee(call)
	if g == nil || g.Blocks == nil || !w.IsProductFn(g) || idx >= g.Signature.Results().Len() || len(call.Call.Args) != len(g.Params) || depth > 2 {
		return nil, false
	}
	bt, ok := g.Signature.Results().At(idx).Type().Underlying().(*types.Basic)
	if !ok {
		return nil, false
	}
	switch k.Kind() {
	case constant.Int:
		ok = bt.Info()&types.IsInteger != 0
	case constant.String:
		ok = bt.Info()&types.IsString != 0
	case constant.Bool:
		ok = bt.Info()&types.IsBoolean != 0 && g.Signature.Results().Len() > 1
	default:
		ok = false
	}
	if !ok {
		return nil, false
	}
	inG, ok := c08ConstReturnFacts(w, g, idx, k, depth)
	if !ok || inG == nil {
		return nil, ok
	}
	var names, descs []string
	for i, p := range g.Params {
		names = append(names, p.Name())
		descs = append(descs, desc(call.Call.Args[i]))
	}
	var binds []ssa.Value
	if mc, isMC := call.Call.Value.(*ssa.MakeClosure); isMC {
		binds = mc.Bindings
	}
	facts = map[string]string{}
next:
	for l, site := range inG {
		l = substParams(l, names, descs)
		for i, fv := range g.FreeVars {
			tok := "free:" + fv.Name()
			if !strings.Contains(l, tok) {
				continue
			}
			if i >= len(binds) {
				continue next
			}
			if _, byRef := binds[i].(*ssa.Alloc); !byRef {
				l = c08SubstToken(l, tok, desc(binds[i]))
				continue
			}
			d, ok := c08CapturedValue(binds[i])
			if !ok {
				continue next
			}
			l = c08SubstToken(l, tok, d)
		}
		facts[l] = site
		if tw, ok := labelTwin(l); ok {
			facts[tw] = site
		}
	}
	return facts, true
}

// c08RetLeaf: one way in which a value comes about: V (a constant, the answer of a call, a condition) is assigned — to
// the place where it is consumed directly, or to a variable that is consumed later — at the end of block At.
// Direct: the consumer follows at once (V is the operand itself, or an edge of a phi of the consuming block).
type c08RetLeaf struct {
	V      ssa.Value
	At     *ssa.BasicBlock
	Direct bool
}

// c08RetLeaves: the assignments that can give v (consumed in block at) its value, followed through the variables (phis)
// it is held in. A variable carried round a loop keeps the value of the assignment executed last.
// ok=false if a variable on the way may still hold a value from before the most recent execution of block birth: each
// phi must lie in a block strictly dominated by birth (it is then re-evaluated on every way from birth to the
// consumer, from values that are themselves younger than birth or — recursively — such phis), and each assignment
// must lie in a block dominated by birth. (birth = the entry block: everything in the call is younger.)
func c08RetLeaves(v ssa.Value, at, birth *ssa.BasicBlock, direct bool, seen map[*ssa.Phi]bool) ([]c08RetLeaf, bool) {
	p, isPhi := v.(*ssa.Phi)
	if !isPhi {
		if birth.Index != 0 && !birth.Dominates(at) {
			return nil, false
		}
		return []c08RetLeaf{{v, at, direct}}, true
	}
	if seen[p] {
		return nil, true
	}
	seen[p] = true
	if birth.Index != 0 && (p.Block() == birth || !birth.Dominates(p.Block())) {
		return nil, false
	}
	var out []c08RetLeaf
	for i, e := range p.Edges {
		if e == v {
			continue
		}
		sub, ok := c08RetLeaves(e, p.Block().Preds[i], birth, direct && p.Block() == at, seen)
		if !ok {
			return nil, false
		}
		out = append(out, sub...)
	}
	return out, true
}

// c08ReadsOnly: fn writes to nothing that is reached from its parameters (no store through them, nothing reached from
// them handed to a function that writes: c08ParamUnwritten); a closure only reads the variables it captures, and
// these hold values without references (a string, a number: nothing can be written through them).
func c08ReadsOnly(w *World, fn *ssa.Function) bool {
	for _, fv := range fn.FreeVars {
		pt, isPtr := fv.Type().Underlying().(*types.Pointer)
		if !isPtr || hasRefComponents(pt.Elem(), 0) || fv.Referrers() == nil {
			return false
		}
		for _, r := range *fv.Referrers() {
			switch x := r.(type) {
			case *ssa.UnOp:
				if x.Op != token.MUL {
					return false
				}
			case *ssa.DebugRef:
			default:
				return false
			}
		}
	}
	for _, p := range fn.Params {
		if hasRefComponents(p.Type(), 0) && c08ParamUnwritten(w, fn, p, 0, map[*ssa.Function]bool{}) != "" {
			return false
		}
	}
	return true
}

// c08ValueIsFacts: the facts common to every way in which value v, consumed in block `at` of fn, can be the constant k
// — facts that held at some moment after the most recent execution of block birth. nil facts with understood=true: v
// is never k. understood=false if v can come about in a way that is not followed (it might be k on a path the facts
// do not describe).
//
// The value may be a constant on the spot, be held in a result variable until a single return, be accumulated in a
// variable over a loop (`m := none; for … { if … { m = exact } }; return m`), be a flag set on the way, or be the answer
// of a module function that answers with enumeration constants (`return classify(x)`): v is followed through the
// variables that hold it (phis) to the assignments (c08RetLeaves). If v is k, the assignment executed last was one
// that assigns k, so control was at the end of that assignment's block at that moment and had passed every branch edge
// that all paths from birth to that block pass (c08FactsD — which applies the same reasoning to the tests on that way);
// for a boolean assigned from a condition (`found = a == b`), that condition held. These facts are about fn's
// arguments, the statement that came to life in birth and what is reached from them (labels about anything else never
// match a required fact); when the consumer does not follow at once they are still true when v is consumed because fn
// writes to nothing reached from its parameters (c08ReadsOnly) and a local copy of a statement is never written
// (c08WholeStore).
// withLocal: include the facts for reaching the assignment when it sits in the consuming block itself (the caller of
// c08EdgeFacts has them already).
func c08ValueIsFacts(w *World, fn *ssa.Function, birth *ssa.BasicBlock, v ssa.Value, at *ssa.BasicBlock, k constant.Value, withLocal bool, depth int) (facts map[string]string, understood bool) {
	if depth > 3 {
		return nil, false
	}
	leaves, ok := c08RetLeaves(v, at, birth, true, map[*ssa.Phi]bool{})
	if !ok {
		return nil, false
	}
	fi := w.Info(fn)
	meet := func(l map[string]string) {
		if facts == nil {
			facts = map[string]string{}
			for a, b := range l {
				facts[a] = b
			}
			return
		}
		for a := range facts {
			if _, ok := l[a]; !ok {
				delete(facts, a)
			}
		}
	}
	readsOnly := -1
	for _, lf := range leaves {
		extra := map[string]string{}
		switch x := lf.V.(type) {
		case *ssa.Const:
			if x.Value == nil || x.Value.Kind() != k.Kind() {
				return nil, false
			}
			if !constant.Compare(x.Value, token.EQL, k) {
				continue
			}
		case *ssa.Call:
			if k.Kind() == constant.Bool {
				// a flag that holds the answer of a predicate: that answer, with what the engine composes for it
				l := condLabel(x, constant.BoolVal(k))
				extra[l] = w.InstrPos(x)
				if comp := fi.composeCond(x, constant.BoolVal(k)); comp != nil {
					for cl, st := range comp.Checked {
						extra[cl] = st
					}
				}
				break
			}
			// the answer of another classifier, handed on: what that one passes before it answers k
			sub, und := c08CallAnswerFacts(w, x, 0, k, depth+1)
			if !und {
				return nil, false
			}
			if sub == nil {
				continue // that classifier never answers k
			}
			extra = sub
		case *ssa.Extract:
			// one of several results of a classifier (`wildcard, exact := classify(x)`)
			call, isCall := x.Tuple.(*ssa.Call)
			if !isCall {
				return nil, false
			}
			sub, und := c08CallAnswerFacts(w, call, x.Index, k, depth+1)
			if !und {
				return nil, false
			}
			if sub == nil {
				continue
			}
			extra = sub
		case *ssa.BinOp, *ssa.UnOp:
			// a flag assigned from a condition
			if k.Kind() != constant.Bool {
				return nil, false
			}
			if bt, isB := lf.V.Type().Underlying().(*types.Basic); !isB || bt.Info()&types.IsBoolean == 0 {
				return nil, false
			}
			extra[condLabel(lf.V, constant.BoolVal(k))] = fi.blockPos(lf.At)
		default:
			return nil, false
		}
		for l, st := range extra {
			if tw, ok := labelTwin(l); ok {
				if _, has := extra[tw]; !has {
					extra[tw] = st
				}
			}
		}
		if !lf.Direct {
			if readsOnly < 0 {
				readsOnly = 0
				if c08ReadsOnly(w, fn) {
					readsOnly = 1
				}
			}
			if readsOnly == 0 {
				return nil, false
			}
		}
		if withLocal || lf.At != at {
			l := c08FactsD(w, fn, birth, lf.At, depth+1)
			if l == nil {
				continue // the assignment cannot be reached
			}
			for a, s := range l {
				if _, has := extra[a]; !has {
					extra[a] = s
				}
			}
		}
		meet(extra)
	}
	return facts, true
}

// c08ConstReturnFacts: the facts common to every way in which result #idx of g can be the constant k (in g's frame);
// nil if it never is. ok=false if g can answer with a value that is not understood (it might equal k on a path the facts
// do not describe). Every return is judged by c08ValueIsFacts with the whole call as the period of observation.
func c08ConstReturnFacts(w *World, g *ssa.Function, idx int, k constant.Value, depth int) (map[string]string, bool) {
	var out map[string]string
	for _, b := range g.Blocks {
		r, ok := blockTerm(b).(*ssa.Return)
		if !ok {
			continue
		}
		if idx >= len(r.Results) {
			return nil, false
		}
		l, understood := c08ValueIsFacts(w, g, g.Blocks[0], r.Results[idx], b, k, true, depth)
		if !understood {
			return nil, false
		}
		if l == nil {
			continue
		}
		if out == nil {
			out = l
			continue
		}
		for a := range out {
			if _, ok := l[a]; !ok {
				delete(out, a)
			}
		}
	}
	return out, true
}

// c08SubstToken replaces the whole identifier token tok ("free:name") in label by repl.
func c08SubstToken(label, tok, repl string) string {
	var sb strings.Builder
	i := 0
	for i < len(label) {
		j := strings.Index(label[i:], tok)
		if j < 0 {
			sb.WriteString(label[i:])
			break
		}
		e := i + j + len(tok)
		sb.WriteString(label[i : i+j])
		if e < len(label) && (label[e] == '_' || label[e] >= '0' && label[e] <= '9' || label[e] >= 'a' && label[e] <= 'z' || label[e] >= 'A' && label[e] <= 'Z') {
			sb.WriteString(tok) // a longer identifier
		} else {
			sb.WriteString(repl)
		}
		i = e
	}
	return sb.String()
}

// c08CapturedValue: bind is the variable a closure captures. If the variable is assigned exactly once (its
// initialisation) and the closures that capture it only read it, every read yields the value assigned: its rendering
// in the enclosing frame is returned.
func c08CapturedValue(bind ssa.Value) (string, bool) {
	al, ok := bind.(*ssa.Alloc)
	if !ok || al.Referrers() == nil {
		return "", false
	}
	var st *ssa.Store
	var closures []*ssa.MakeClosure
	for _, r := range *al.Referrers() {
		switch x := r.(type) {
		case *ssa.Store:
			if x.Addr != ssa.Value(al) || st != nil {
				return "", false
			}
			st = x
		case *ssa.UnOp:
			if x.Op != token.MUL {
				return "", false
			}
		case *ssa.DebugRef:
		case *ssa.MakeClosure:
			g, ok := x.Fn.(*ssa.Function)
			if !ok {
				return "", false
			}
			closures = append(closures, x)
			for i, b := range x.Bindings {
				if b != ssa.Value(al) || i >= len(g.FreeVars) || g.FreeVars[i].Referrers() == nil {
					continue
				}
				for _, rr := range *g.FreeVars[i].Referrers() {
					switch y := rr.(type) {
					case *ssa.UnOp:
						if y.Op != token.MUL {
							return "", false
						}
					case *ssa.DebugRef:
					default:
						return "", false // written, or handed on
					}
				}
			}
		default:
			return "", false
		}
	}
	if st == nil {
		return "", false
	}
	// the assignment comes before any closure that reads the variable exists (otherwise a call of the closure could
	// still see the zero value)
	for _, mc := range closures {
		before := st.Block() == mc.Block() && instrIndex(st) < instrIndex(mc) || st.Block() != mc.Block() && st.Block().Dominates(mc.Block())
		if !before {
			return "", false
		}
	}
	return desc(st.Val), true
}

// c08ParamForms: the renderings under which the value of parameter p appears in fn: the parameter itself and, when a
// closure captures it, the variable it is spilled to (provided nothing else is ever assigned to that variable).
func c08ParamForms(fn *ssa.Function, p *ssa.Parameter) []string {
	out := []string{"param:" + p.Name()}
	if p.Referrers() == nil {
		return out
	}
	for _, r := range *p.Referrers() {
		if st, ok := r.(*ssa.Store); ok && st.Val == ssa.Value(p) {
			if d, ok := c08CapturedValue(st.Addr); ok && d == "param:"+p.Name() {
				out = append(out, desc(st.Addr))
			}
		}
	}
	return out
}

// c08PredFacts: f is a function value with one parameter (a function literal, a closure made in the enclosing
// function, a named module function). The facts that hold whenever f answers `truth`, with f's argument rendered
// STMT and captured variables replaced by their (only) value in the enclosing frame.
func c08PredFacts(w *World, f ssa.Value, truth bool) (map[string]string, bool) {
	var g *ssa.Function
	var binds []ssa.Value
	switch x := f.(type) {
	case *ssa.MakeClosure:
		g, _ = x.Fn.(*ssa.Function)
		binds = x.Bindings
	case *ssa.Function:
		g = x
	}
	if g == nil || g.Blocks == nil || !w.IsProductFn(g) || len(g.Params) != 1 || g.Signature.Results().Len() != 1 {
		return nil, false
	}
	s := w.Summarize(g, Mode{Kind: mBool, Want: truth})
	if s == nil || !s.Complete || len(s.Exits) == 0 {
		return nil, false
	}
	out := map[string]string{}
next:
	for l, site := range s.Checked {
		l = substParams(l, []string{g.Params[0].Name()}, []string{c08STMT})
		for i, fv := range g.FreeVars {
			tok := "free:" + fv.Name()
			if !strings.Contains(l, tok) {
				continue
			}
			if i >= len(binds) {
				continue next
			}
			if _, byRef := binds[i].(*ssa.Alloc); !byRef {
				// bound by value (the receiver of a method value `state.method`): a snapshot taken when the closure is
				// made. A struct literal built on the spot is rendered field by field with the values it was given.
				if fields, isLit := c08LitFields(binds[i]); isLit {
					for f, d := range fields {
						l = c08SubstToken(l, tok+"."+f, d)
					}
					if strings.Contains(l, tok) {
						continue next
					}
					continue
				}
				l = c08SubstToken(l, tok, desc(binds[i]))
				continue
			}
			d, ok := c08CapturedValue(binds[i])
			if !ok {
				continue next // the captured variable may change: nothing is known about this fact's operand
			}
			l = c08SubstToken(l, tok, d)
		}
		out[l] = site
		if tw, ok := labelTwin(l); ok {
			out[tw] = site
		}
	}
	return out, true
}

// ---- which statement does a value hand out? ---------------------------------------------------------------------

// c08Alt: one alternative for a value of statement-pointer type.
type c08Alt struct {
	Param  *ssa.Parameter    // the value of a parameter of the frame (with Other set): resolved at the call site
	Nil    bool              // the nil pointer ("nothing selected")
	Other  string            // not understood (rendering / reason)
	Cloned bool              // the result of a clone
	Doc    string            // the slice the statement is an element of, rendered in the current frame
	Facts  map[string]string // what is known about the statement (rendered STMT) when it was cloned / remembered
	Dyn    []c08Dyn          // facts still pending: answers of a function-typed parameter of the current frame
	Site   string
	S      *c08Stmt      // the statement itself and the frame it lives in (set by stmtAlt; nil once moved out of that frame)
	SFn    *ssa.Function //
}

// c08Dyn: parameter #Param (a predicate) of the current frame, applied to the statement, answered Truth.
type c08Dyn struct {
	Param int
	Truth bool
}

type c08Resolver struct {
	w      *World
	frames map[*ssa.Function]bool // the functions in which statements were found (the search lives there)
}

func newC08Resolver(w *World) *c08Resolver {
	return &c08Resolver{w: w, frames: map[*ssa.Function]bool{}}
}

// stmtAlt: statement S of fn, with what is known about it when control enters `at`.
func (r *c08Resolver) stmtAlt(fn *ssa.Function, S *c08Stmt, at *ssa.BasicBlock) c08Alt {
	w := r.w
	r.frames[fn] = true
	alt := c08Alt{Doc: desc(S.Slice), Facts: map[string]string{}, Site: w.Info(fn).blockPos(at), S: S, SFn: fn}
	// facts are matched by the rendering of the statement: a second local variable that renders alike (a shadowing
	// variable of the same name and type) would make a fact about one pass for a fact about the other
	names := []string{S.D}
	locals := []*ssa.Alloc{S.Local}
	for _, k := range S.Kept {
		names = append(names, k.D)
		locals = append(locals, k.Local)
	}
	if S.Local != nil {
		for _, b := range fn.Blocks {
			for _, in := range b.Instrs {
				al, ok := in.(*ssa.Alloc)
				if !ok {
					continue
				}
				for i, d := range names {
					if al != locals[i] && desc(al) == d {
						alt.Other = "two local statements render alike (" + d + "): facts cannot be attributed"
						return alt
					}
				}
			}
		}
	}
	// A variable the copy was copied on to holds this very statement when it is consumed in `at` only if the copying
	// assignment was executed since the statement came to life: its block lies on every way from Birth to `at` that does
	// not re-enter Birth (then, both variables being assigned nowhere else, the variable holds what the first copy held
	// in this iteration, and facts about either are facts about the statement). Otherwise it may hold the statement of
	// an earlier iteration, about which the facts of this iteration say nothing.
	fi := w.Info(fn)
	for _, k := range S.Kept {
		cb := k.Copy.Block()
		if cb == S.Birth || cb == at {
			continue // (same block as the consumer: the consumer checks the order, see resolveCall)
		}
		cut := map[edgeKey]bool{}
		cutInto(fi, S.Birth, cut)
		cutInto(fi, cb, cut)
		if S.Birth == at || fi.reachHit([]state{{S.Birth.Index, 0, -1}}, cut, map[int]bool{at.Index: true}) {
			alt.Other = "the variable " + k.D + " may hold a statement copied in an earlier iteration (the copy at " + w.InstrPos(k.Copy) + " is not on every way to " + alt.Site + ")"
			return alt
		}
	}
	for l, site := range c08Facts(w, fn, S.Birth, at) {
		for _, d := range names {
			l = strings.ReplaceAll(l, d, c08STMT)
		}
		alt.Facts[l] = site
	}
	// the answers of predicates the frame was handed
	for i, p := range fn.Params {
		if !isFuncType(p.Type()) {
			continue
		}
		if _, ok := alt.Facts["T(call:dyn:param:"+p.Name()+"("+c08STMT+"))"]; ok {
			alt.Dyn = append(alt.Dyn, c08Dyn{i, true})
		}
		if _, ok := alt.Facts["F(call:dyn:param:"+p.Name()+"("+c08STMT+"))"]; ok {
			alt.Dyn = append(alt.Dyn, c08Dyn{i, false})
		}
	}
	// the element at the index slices.IndexFunc(slice, pred) found: IndexFunc returns the first index i with
	// pred(slice[i]) true, or -1 (contract of the standard library). Under i >= 0 the predicate holds for slice[i].
	if call, ok := S.Idx.(*ssa.Call); ok && calleeName(call) == "slices.IndexFunc" && len(call.Call.Args) == 2 {
		di := desc(call)
		_, f1 := alt.Facts["GE("+di+",const:0)"]
		_, f2 := alt.Facts["GT("+di+",const:-1)"]
		_, f3 := alt.Facts["NE("+di+",const:-1)"]
		switch {
		case desc(call.Call.Args[0]) != desc(S.Slice):
			alt.Other = "index found in " + desc(call.Call.Args[0]) + " applied to " + desc(S.Slice)
		case !f1 && !f2 && !f3:
			alt.Other = "element at a search result that is not known to be >= 0"
		default:
			r.applyPred(fn, &alt, call.Call.Args[1], true)
		}
	}
	return alt
}

// ---- a statement remembered by its index ----------------------------------------------------------------------------

// c08IsInduction: p is a loop counter (one of its edges is p plus or minus something): it is not a variable in which
// an index is remembered.
func c08IsInduction(p *ssa.Phi) bool {
	for _, e := range p.Edges {
		if bo, ok := e.(*ssa.BinOp); ok && (bo.Op == token.ADD || bo.Op == token.SUB) && (bo.X == ssa.Value(p) || bo.Y == ssa.Value(p)) {
			return true
		}
	}
	return false
}

// c08IdxEdge: one assignment to an index variable: the value and the block at the end of which it is assigned.
type c08IdxEdge struct {
	V    ssa.Value
	Pred *ssa.BasicBlock
}

// c08IndexEdges: the assignments that can give the index variable p (a phi that is not a loop counter) its value,
// followed through phis that merge such variables.
func c08IndexEdges(p *ssa.Phi, seen map[*ssa.Phi]bool) []c08IdxEdge {
	if seen[p] {
		return nil
	}
	seen[p] = true
	var out []c08IdxEdge
	for i, e := range p.Edges {
		if e == ssa.Value(p) {
			continue
		}
		if q, ok := e.(*ssa.Phi); ok && !c08IsInduction(q) {
			out = append(out, c08IndexEdges(q, seen)...)
			continue
		}
		out = append(out, c08IdxEdge{e, p.Block().Preds[i]})
	}
	return out
}

// c08NegConst: a negative integer constant ("no index": indexing with it panics).
func c08NegConst(v ssa.Value) bool {
	k, ok := v.(*ssa.Const)
	if !ok || k.Value == nil || k.Value.Kind() != constant.Int {
		return false
	}
	n, exact := constant.Int64Val(k.Value)
	return exact && n < 0
}

// c08StmtAtIndex: element idx of slice, as a statement that comes to life where idx does.
func c08StmtAtIndex(fn *ssa.Function, slice, idx ssa.Value) *c08Stmt {
	b := fn.Blocks[0]
	if in, ok := idx.(ssa.Instruction); ok && in.Block() != nil {
		b = in.Block()
	}
	return &c08Stmt{D: desc(slice) + "[" + descIndex(idx) + "]", Slice: slice, Idx: idx, Birth: b}
}

// stmtAlts: the statements S can denote. When the index is held in a variable (a phi that is not a loop counter: the
// position of a candidate remembered during the scan), S is, for each assignment `variable = e`, element e of the
// slice with what was known about that element when it was remembered (the facts of that iteration, judged at the end
// of the assigning block) — the element is the same one later on because the slice is not written in between
// (c08DocUnwritten). An assignment of a negative constant ("nothing remembered") yields no statement: indexing with it
// panics, nothing is handed out.
func (r *c08Resolver) stmtAlts(fn *ssa.Function, S *c08Stmt, at *ssa.BasicBlock, depth int, seen map[*ssa.Phi]bool) []c08Alt {
	// the position was found by a module helper (it returns one or several positions): see posFromCall
	if call, k := c08CallResult(S.Idx); call != nil {
		if g := staticCallee(call); g != nil && g.Blocks != nil && r.w.IsProductFn(g) && depth < 5 {
			return r.posFromCall(fn, S, call, k)
		}
	}
	p, ok := S.Idx.(*ssa.Phi)
	if !ok || c08IsInduction(p) {
		return []c08Alt{r.stmtAlt(fn, S, at)}
	}
	if why := c08DocUnwritten(r.w, fn, S.Slice); why != "" {
		return []c08Alt{{Other: "statement at a remembered index of " + desc(S.Slice) + ", but " + why}}
	}
	var out []c08Alt
	for _, e := range c08IndexEdges(p, map[*ssa.Phi]bool{}) {
		if c08NegConst(e.V) {
			continue
		}
		out = append(out, r.stmtAlt(fn, c08StmtAtIndex(fn, S.Slice, e.V), e.Pred))
	}
	return out
}

// c08CallResult: v is the k-th result of a call.
func c08CallResult(v ssa.Value) (*ssa.Call, int) {
	switch x := v.(type) {
	case *ssa.Call:
		if _, isTuple := x.Type().(*types.Tuple); !isTuple {
			return x, 0
		}
	case *ssa.Extract:
		if call, ok := x.Tuple.(*ssa.Call); ok {
			return call, x.Index
		}
	}
	return nil, 0
}

// posFromCall: statement S = slice[idx] of frame fn where idx is the k-th result of a call of module helper g. For every
// value e the helper can return there (followed through its position variables; a negative constant is "none": indexing
// with it panics), the statement is element e of the list the HELPER indexed with e — which must be the caller's slice
// once the helper's parameters are replaced by the arguments — with the facts the helper had about that element when it
// remembered the position, moved into the caller's frame. Neither frame writes the document (c08DocUnwritten, which
// follows the document into the helper), so the position still denotes the same statement when the caller uses it.
func (r *c08Resolver) posFromCall(fn *ssa.Function, S *c08Stmt, call *ssa.Call, k int) []c08Alt {
	g := staticCallee(call)
	if k >= g.Signature.Results().Len() || len(call.Call.Args) != len(g.Params) {
		return []c08Alt{{Other: desc(S.Idx)}}
	}
	if why := c08DocUnwritten(r.w, fn, S.Slice); why != "" {
		return []c08Alt{{Other: "statement at a position found by " + fnName(g) + ", but " + why}}
	}
	var names, descs []string
	for i, p := range g.Params {
		names = append(names, p.Name())
		descs = append(descs, desc(call.Call.Args[i]))
	}
	want := desc(S.Slice)
	var out []c08Alt
	for _, b := range g.Blocks {
		ret, ok := blockTerm(b).(*ssa.Return)
		if !ok || k >= len(ret.Results) {
			continue
		}
		edges := []c08IdxEdge{{ret.Results[k], b}}
		if q, isPhi := ret.Results[k].(*ssa.Phi); isPhi && !c08IsInduction(q) {
			edges = c08IndexEdges(q, map[*ssa.Phi]bool{})
		}
		for _, e := range edges {
			if c08NegConst(e.V) {
				continue
			}
			// the list the helper indexed with this value
			var list ssa.Value
			if e.V.Referrers() != nil {
				for _, ref := range *e.V.Referrers() {
					if ia, isIA := ref.(*ssa.IndexAddr); isIA && ia.Index == e.V && substParams(desc(ia.X), names, descs) == want {
						list = ia.X
					}
				}
			}
			if list == nil {
				out = append(out, c08Alt{Other: "position " + desc(e.V) + " returned by " + fnName(g) + " is not a position in " + want})
				continue
			}
			alt := r.stmtAlt(g, c08StmtAtIndex(g, list, e.V), e.Pred)
			if alt.Other != "" || len(alt.Dyn) > 0 {
				out = append(out, c08Alt{Other: "position returned by " + fnName(g) + ": " + alt.Other})
				continue
			}
			lifted := c08Alt{Doc: substParams(alt.Doc, names, descs), Facts: map[string]string{}, Site: alt.Site}
			for l, site := range alt.Facts {
				lifted.Facts[substParams(l, names, descs)] = site
			}
			out = append(out, lifted)
		}
	}
	return out
}

// c08Root: the value an address / element / sub-slice expression is derived from.
func c08Root(v ssa.Value) ssa.Value {
	for i := 0; i < 12; i++ {
		switch x := v.(type) {
		case *ssa.UnOp:
			if x.Op != token.MUL {
				return v
			}
			v = x.X
		case *ssa.FieldAddr:
			v = x.X
		case *ssa.Field:
			v = x.X
		case *ssa.IndexAddr:
			v = x.X
		case *ssa.Index:
			v = x.X
		case *ssa.Slice:
			v = x.X
		case *ssa.ChangeType:
			v = x.X
		default:
			return v
		}
	}
	return v
}

// c08DocUnwritten: the slice (a field reached from a parameter of fn: the document) and its elements are not written
// while fn runs: no store through an address derived from that parameter, and everything derived from it that can be
// written through (pointers, slices, maps) is handed only to module functions for which the same holds, to len/cap, or
// to the searching functions of the standard library. "" if so, else the reason.
func c08DocUnwritten(w *World, fn *ssa.Function, slice ssa.Value) string {
	root, ok := c08Root(slice).(*ssa.Parameter)
	if !ok {
		return "the slice is not reached from a parameter"
	}
	return c08ParamUnwritten(w, fn, root, 0, map[*ssa.Function]bool{})
}

func c08ParamUnwritten(w *World, fn *ssa.Function, root *ssa.Parameter, depth int, busy map[*ssa.Function]bool) string {
	if depth > 4 {
		return "call chain too deep below " + fnName(fn)
	}
	if busy[fn] {
		return ""
	}
	busy[fn] = true
	defer delete(busy, fn)
	for _, b := range fn.Blocks {
		for _, in := range b.Instrs {
			switch x := in.(type) {
			case *ssa.Store:
				if c08Root(x.Addr) == ssa.Value(root) {
					return fnName(fn) + " writes to " + desc(x.Addr)
				}
				if c08Root(x.Val) == ssa.Value(root) && hasRefComponents(x.Val.Type(), 0) {
					if _, local := x.Addr.(*ssa.Alloc); !local {
						return fnName(fn) + " stores " + desc(x.Val) + " away"
					}
				}
			case *ssa.MapUpdate:
				if c08Root(x.Map) == ssa.Value(root) {
					return fnName(fn) + " writes to " + desc(x.Map)
				}
			case ssa.CallInstruction:
				com := x.Common()
				for i, a := range com.Args {
					if c08Root(a) != ssa.Value(root) || !hasRefComponents(a.Type(), 0) {
						continue
					}
					if bi, ok := com.Value.(*ssa.Builtin); ok {
						if bi.Name() == "len" || bi.Name() == "cap" || ((bi.Name() == "append" || bi.Name() == "copy") && i > 0) {
							continue // read only (append and copy write through their first operand only)
						}
						return fnName(fn) + " hands " + desc(a) + " to " + bi.Name()
					}
					g := staticCallee(x)
					if g == nil {
						return fnName(fn) + " hands " + desc(a) + " to a dynamic call"
					}
					if g.Blocks != nil && w.IsProductFn(g) && len(com.Args) == len(g.Params) {
						if why := c08ParamUnwritten(w, g, g.Params[i], depth+1, busy); why != "" {
							return why
						}
						continue
					}
					switch fnName(g) {
					case "slices.Contains", "slices.ContainsFunc", "slices.Index", "slices.IndexFunc":
						continue
					}
					return fnName(fn) + " hands " + desc(a) + " to " + fnName(g)
				}
			}
		}
	}
	return ""
}

// applyPred adds what the predicate value pred (of frame fn) answering truth says about the statement.
func (r *c08Resolver) applyPred(fn *ssa.Function, alt *c08Alt, pred ssa.Value, truth bool) {
	switch x := pred.(type) {
	case *ssa.MakeClosure, *ssa.Function:
		pf, ok := c08PredFacts(r.w, pred, truth)
		if !ok {
			alt.Other = "predicate " + desc(pred) + " not summarised"
			return
		}
		for l, site := range pf {
			if _, has := alt.Facts[l]; !has {
				alt.Facts[l] = site
			}
		}
	case *ssa.Parameter:
		for i, p := range fn.Params {
			if p == x {
				alt.Dyn = append(alt.Dyn, c08Dyn{i, truth})
				return
			}
		}
		alt.Other = "predicate " + desc(pred) + " not resolved"
	case *ssa.Call:
		// the predicate is built by a module function (a constructor of the closure: `hasName(name)`): the facts of the
		// closure it returns — its single return — with the constructor's parameters replaced by the arguments
		g := staticCallee(x)
		var made ssa.Value
		n := 0
		if g != nil && g.Blocks != nil && r.w.IsProductFn(g) && g.Signature.Results().Len() == 1 && len(x.Call.Args) == len(g.Params) {
			for _, b := range g.Blocks {
				if ret, ok := blockTerm(b).(*ssa.Return); ok && len(ret.Results) == 1 {
					made = ret.Results[0]
					n++
				}
			}
		}
		if n != 1 {
			alt.Other = "predicate " + desc(pred) + " not resolved"
			return
		}
		pf, ok := c08PredFacts(r.w, made, truth)
		if !ok {
			alt.Other = "predicate made by " + fnName(g) + " not summarised"
			return
		}
		var names, descs []string
		for i, p := range g.Params {
			names = append(names, p.Name())
			descs = append(descs, desc(x.Call.Args[i]))
		}
		for l, site := range pf {
			l = substParams(l, names, descs)
			if _, has := alt.Facts[l]; !has {
				alt.Facts[l] = site
			}
		}
	default:
		alt.Other = "predicate " + desc(pred) + " not resolved"
	}
}

// resolve: the alternatives of value v (a statement pointer) consumed in block `at` of fn.
//   - nil; the result of a clone of a statement (or of a remembered candidate); a pointer to a statement itself;
//   - the result of a module function: the alternatives of its returns, moved into this frame (parameters replaced by
//     the arguments, predicate parameters resolved with the closure / function passed);
//   - a phi: the alternatives of its edges, each judged where it is assigned (the predecessor block).
func (r *c08Resolver) resolve(fn *ssa.Function, v ssa.Value, at *ssa.BasicBlock, depth int, seen map[*ssa.Phi]bool) []c08Alt {
	if depth > 6 {
		return []c08Alt{{Other: "too deep: " + desc(v)}}
	}
	switch x := v.(type) {
	case *ssa.Const:
		if x.IsNil() {
			return []c08Alt{{Nil: true}}
		}
	case *ssa.ChangeType:
		return r.resolve(fn, x.X, at, depth+1, seen)
	case *ssa.Parameter:
		return []c08Alt{{Param: x, Other: desc(v)}}
	case *ssa.Phi:
		if seen[x] {
			return nil // loop-carried: its other edges are judged where first met
		}
		seen[x] = true
		var out []c08Alt
		for i, e := range x.Edges {
			if e == v {
				continue
			}
			out = append(out, r.resolve(fn, e, x.Block().Preds[i], depth+1, seen)...)
		}
		return out
	case *ssa.Extract:
		if call, ok := x.Tuple.(*ssa.Call); ok {
			return r.resolveCall(fn, call, x.Index, at, depth, seen)
		}
	case *ssa.Call:
		return r.resolveCall(fn, x, 0, at, depth, seen)
	}
	if S := c08StmtOf(fn, v); S != nil {
		for _, k := range S.Kept {
			if k.Copy.Block() == at {
				return []c08Alt{{Other: "the variable " + k.D + " is assigned in the block in which it is consumed"}}
			}
		}
		return r.stmtAlts(fn, S, at, depth, seen)
	}
	return []c08Alt{{Other: desc(v)}}
}

func (r *c08Resolver) resolveCall(fn *ssa.Function, call *ssa.Call, k int, at *ssa.BasicBlock, depth int, seen map[*ssa.Phi]bool) []c08Alt {
	w := r.w
	g := staticCallee(call)
	if g == nil || g.Blocks == nil || !w.IsProductFn(g) {
		return []c08Alt{{Other: desc(call)}}
	}
	if isCloneMethod(g) {
		arg := call.Call.Args[0]
		if S := c08StmtOf(fn, arg); S != nil {
			for _, k := range S.Kept {
				if k.Copy.Block() == call.Block() && instrIndex(k.Copy) > instrIndex(call) {
					return []c08Alt{{Other: "the variable " + k.D + " is cloned before it is assigned", Cloned: true}}
				}
			}
			alts := r.stmtAlts(fn, S, call.Block(), depth, seen)
			for i := range alts {
				alts[i].Cloned = true
			}
			if len(alts) == 0 {
				return []c08Alt{{Other: "clone of " + desc(arg), Cloned: true}}
			}
			return alts
		}
		// the clone of a remembered candidate: the candidate's alternatives, each one cloned
		if u, ok := arg.(*ssa.UnOp); ok && u.Op == token.MUL {
			arg = u.X
		}
		// (a nil candidate does not come out of the clone as a nil statement: the clone dereferences it)
		var sub []c08Alt
		for _, a := range r.resolve(fn, arg, call.Block(), depth+1, seen) {
			if !a.Nil {
				a.Cloned = true
				sub = append(sub, a)
			}
		}
		if len(sub) == 0 {
			return []c08Alt{{Other: "clone of " + desc(arg), Cloned: true}}
		}
		return sub
	}
	res := g.Signature.Results()
	if k >= res.Len() || !c08IsStmtPtr(res.At(k).Type()) || len(call.Call.Args) != len(g.Params) {
		return []c08Alt{{Other: desc(call)}}
	}
	// failing exits of g hand out no statement; they matter only if this frame can go on after g failed
	errChecked := false
	if n := res.Len(); n > 1 && isErrorType(res.At(n-1).Type()) {
		fi := w.Info(fn)
		guards := map[string]string{}
		if at.Index != 0 {
			guards, _ = fi.mustPassBetween([]int{0}, map[int]bool{at.Index: true})
		}
		if _, ok := guards["EQ("+descTailErr(call)+",nil)"]; ok {
			errChecked = true
		}
		if ret, ok := blockTerm(at).(*ssa.Return); ok && len(ret.Results) > 0 {
			if ex, ok := ret.Results[len(ret.Results)-1].(*ssa.Extract); ok && ex.Tuple == ssa.Value(call) && ex.Index == n-1 {
				errChecked = true // the frame fails exactly when g fails
			}
		}
	}
	var names, descs []string
	for i, p := range g.Params {
		names = append(names, p.Name())
		descs = append(descs, desc(call.Call.Args[i]))
	}
	gi := w.Info(g)
	var out []c08Alt
	for _, b := range g.Blocks {
		ret, ok := blockTerm(b).(*ssa.Return)
		if !ok || k >= len(ret.Results) {
			continue
		}
		if errChecked {
			if cl, _, _, _ := gi.classify(ret, state{b.Index, 0, -1}, Mode{Kind: mErr}); cl == clFail {
				continue
			}
		}
		for _, alt := range r.resolve(g, ret.Results[k], b, depth+1, map[*ssa.Phi]bool{}) {
			if alt.Param != nil {
				// the helper hands one of its arguments back (it picks among candidates): that argument, as the caller
				// has it when it makes the call
				for i, p := range g.Params {
					if p == alt.Param {
						out = append(out, r.resolve(fn, call.Call.Args[i], call.Block(), depth+1, seen)...)
					}
				}
				continue
			}
			if alt.Nil || (alt.Other != "" && alt.Facts == nil) {
				out = append(out, alt)
				continue
			}
			lifted := c08Alt{Cloned: alt.Cloned, Other: alt.Other, Doc: substParams(alt.Doc, names, descs), Facts: map[string]string{}, Site: alt.Site}
			for l, site := range alt.Facts {
				lifted.Facts[substParams(l, names, descs)] = site
			}
			for _, d := range alt.Dyn {
				r.applyPred(fn, &lifted, call.Call.Args[d.Param], d.Truth)
			}
			out = append(out, lifted)
		}
	}
	if len(out) == 0 {
		return []c08Alt{{Other: "no statement-delivering exit in " + fnName(g)}}
	}
	return out
}

// c08NonNilAt: v is known to be non-nil when control is in block b: by the engine's analysis, or because b lies behind
// the non-nil edge of a dominating test of this very SSA value (the engine applies that refinement to non-phi values
// only; a candidate is a phi with a nil edge, tested before it is returned).
func c08NonNilAt(fi *FnInfo, v ssa.Value, b *ssa.BasicBlock) bool {
	if fi.nonNil(v, b) {
		return true
	}
	for d := b; d != nil; d = d.Idom() {
		id := d.Idom()
		if id == nil {
			break
		}
		iff, ok := blockTerm(id).(*ssa.If)
		if !ok {
			continue
		}
		for si, s := range id.Succs {
			if s == d && len(d.Preds) == 1 && condImpliesNonNil(iff.Cond, si == 0, v) {
				return true
			}
		}
	}
	return false
}

// c08AfterSearchFails: once the loop sl of g has run out of elements — control takes the edge from the loop header to
// the loop exit; a `break` out of the body may lead to the same block but is not that edge — g fails (error result) or
// hands out no statement (no error result: every reachable return yields nil, where a result variable merged at the
// loop exit counts with the value it has on the exhausted edge).
func c08AfterSearchFails(w *World, g *ssa.Function, sl sliceLoop) (bool, []string) {
	fi := w.Info(g)
	res := g.Signature.Results()
	starts := []state{{sl.Header.Index, 0, -1}}
	cut := map[edgeKey]bool{}
	for j, sc := range sl.Header.Succs {
		if sc != sl.Exit {
			cut[edgeKey{sl.Header.Index, j}] = true
		}
	}
	exhausted := -1
	for pi, pb := range sl.Exit.Preds {
		if pb == sl.Header {
			exhausted = pi
		}
	}
	// A position variable merged at the loop exit (`found := -1; for … { if … { found = i; break } }`) holds, on the
	// exhausted edge, the constant it was given before the loop: branches that test this very variable (SSA identity)
	// against a constant are decided for the paths that start on that edge — as long as the exit block cannot be
	// entered a second time (then the variable could have another value).
	if exhausted >= 0 && !fi.reachHit([]state{{sl.Exit.Index, 0, -1}}, nil, map[int]bool{sl.Exit.Index: true}) {
		for _, p := range headerPhis(sl.Exit) {
			k, ok := c08ConstOnEdge(p.Edges[exhausted])
			if !ok {
				continue
			}
			for _, b := range g.Blocks {
				iff, isIf := blockTerm(b).(*ssa.If)
				if !isIf || len(b.Succs) != 2 {
					continue
				}
				cond, neg := iff.Cond, false
				for {
					u, isNot := cond.(*ssa.UnOp)
					if !isNot || u.Op != token.NOT {
						break
					}
					cond, neg = u.X, !neg
				}
				bo, isBin := cond.(*ssa.BinOp)
				if !isBin {
					continue
				}
				op := bo.Op
				var other ssa.Value
				switch {
				case bo.X == ssa.Value(p):
					other = bo.Y
				case bo.Y == ssa.Value(p):
					other, op = bo.X, c08FlipOp(op)
				default:
					continue
				}
				c, isK := c08ConstOnEdge(other)
				if _, direct := other.(*ssa.Const); !isK || !direct {
					continue
				}
				truth, decided := cmpInt(op, k, c)
				if !decided {
					continue
				}
				if truth != neg {
					cut[edgeKey{b.Index, 1}] = true // the condition holds: the false branch is not taken
				} else {
					cut[edgeKey{b.Index, 0}] = true
				}
			}
		}
	}
	if n := res.Len(); n > 0 && isErrorType(res.At(n-1).Type()) {
		wit := fi.successWitness(Mode{Kind: mErr}, starts, cut)
		return wit == nil, wit
	}
	var isNone func(v ssa.Value, depth int) bool
	isNone = func(v ssa.Value, depth int) bool {
		if isNilConst(v) {
			return true
		}
		p, ok := v.(*ssa.Phi)
		if !ok || depth > 3 {
			return false
		}
		if p.Block() == sl.Exit && exhausted >= 0 {
			return isNone(p.Edges[exhausted], depth+1)
		}
		if p.Block() == sl.Header {
			// a variable carried round the loop: nil unless assigned in the loop — and an assignment followed by another
			// round would show as a non-nil edge here
			for _, e := range p.Edges {
				if e != v && !isNone(e, depth+1) {
					return false
				}
			}
			return true
		}
		return false
	}
	for st := range fi.reach(starts, cut) {
		if ret, ok := blockTerm(g.Blocks[st.b]).(*ssa.Return); ok {
			if len(ret.Results) == 0 || !isNone(ret.Results[0], 0) {
				return false, []string{"b" + strconv.Itoa(st.b) + " " + fi.blockPos(g.Blocks[st.b])}
			}
		}
	}
	return true, nil
}

// c08PathForms: the spellings of "the text of ref before its last '@'" and of the index they cut at.
// strings.LastIndexByte(s, '@') and strings.LastIndex(s, "@") are the same function of s: the separator is a single
// byte, and both search bytes.
type c08PathForm struct{ Idx, Path string }

func c08PathForms(ref string) []c08PathForm {
	var out []c08PathForm
	for _, idx := range []string{
		"call:strings.LastIndex(" + ref + `,const:"@")`,
		"call:strings.LastIndexByte(" + ref + ",const:64)",
	} {
		out = append(out, c08PathForm{Idx: idx, Path: ref + "[:" + idx + "]"})
	}
	return out
}

// c08HelperFresh: v is the (single) result of a call of a module function with a body. handled=false if it is not.
// The value shares nothing with anything that existed before the call if every return of the helper yields a value
// that is freshly made in the helper (append to a nil / made slice, make, maps.Clone, nil, or again such a helper).
func (w *World) c08HelperFresh(v ssa.Value, t types.Type, depth int) (handled, ok bool, why string) {
	call, isCall := v.(*ssa.Call)
	if !isCall {
		return false, false, ""
	}
	g := staticCallee(call)
	if g == nil || g.Blocks == nil || !w.IsProductFn(g) || g.Signature.Results().Len() != 1 {
		return false, false, ""
	}
	n := 0
	for _, b := range g.Blocks {
		r, isRet := blockTerm(b).(*ssa.Return)
		if !isRet {
			continue
		}
		n++
		if len(r.Results) != 1 {
			return true, false, fnName(g) + ": unexpected result arity"
		}
		if ok, why := w.sharesNothing(g, r.Results[0], r.Results[0].Type(), r, depth+1); !ok {
			return true, false, fnName(g) + ": " + why
		}
	}
	return true, n > 0, fnName(g) + ": no return"
}

// ---- selection calls in the verifier, directly or through helpers ------------------------------------------------------

// c08SelSet: the selection methods of the two document types, the verifier's selection helpers — functions that
// return a statement pointer and an error and contain a selection call (directly or through another helper): their
// statement is a selected statement and their failure is what their callers see of a failed selection — and, per
// verifier function, its calls of either kind.
type c08SelSet struct {
	sel     map[*ssa.Function]bool
	helper  map[*ssa.Function]bool
	calls   map[*ssa.Function][]*ssa.Call
	callers map[*ssa.Function][]*ssa.Function
}

func c08SelLike(w *World) *c08SelSet {
	S := &c08SelSet{sel: map[*ssa.Function]bool{}, helper: map[*ssa.Function]bool{}, calls: map[*ssa.Function][]*ssa.Call{}, callers: map[*ssa.Function][]*ssa.Function{}}
	for _, f := range selectionFns(w) {
		S.sel[f] = true
	}
	handsOn := func(fn *ssa.Function) bool {
		res := fn.Signature.Results()
		if fn.Parent() != nil || res.Len() < 2 || !isErrorType(res.At(res.Len()-1).Type()) {
			return false
		}
		for i := 0; i < res.Len()-1; i++ {
			if c08IsStmtPtr(res.At(i).Type()) {
				return true
			}
		}
		return false
	}
	fns := w.FuncsOfPkg("verifier")
	for round := 0; round < 4; round++ {
		changed := false
		for _, fn := range fns {
			if S.helper[fn] || !handsOn(fn) {
				continue
			}
			for _, ci := range allCalls(fn) {
				if call, ok := ci.(*ssa.Call); ok {
					if g := staticCallee(call); g != nil && (S.sel[g] || S.helper[g]) {
						S.helper[fn] = true
						changed = true
					}
				}
			}
		}
		if !changed {
			break
		}
	}
	for _, fn := range fns {
		seen := map[*ssa.Function]bool{}
		for _, ci := range allCalls(fn) {
			call, ok := ci.(*ssa.Call)
			if !ok {
				continue
			}
			g := staticCallee(call)
			if g == nil || !(S.sel[g] || S.helper[g]) {
				continue
			}
			S.calls[fn] = append(S.calls[fn], call)
			if S.helper[g] && !seen[g] {
				seen[g] = true
				S.callers[g] = append(S.callers[g], fn)
			}
		}
	}
	return S
}

// converts: g is a selection helper every failing exit of which returns ErrorNoApplicableTrustPolicy.
func (S *c08SelSet) converts(w *World, g *ssa.Function) bool {
	if g == nil || !S.helper[g] {
		return false
	}
	n := 0
	for _, b := range g.Blocks {
		r, ok := blockTerm(b).(*ssa.Return)
		if !ok || len(r.Results) == 0 {
			continue
		}
		ev := r.Results[len(r.Results)-1]
		if isNilConst(ev) {
			continue
		}
		if !c08IsNoApplicable(w, ev, 0) {
			return false
		}
		n++
	}
	return n > 0
}

// c08Leaf: a call of a selection method reached from a verifier function through helpers, with the facts that guard
// it and its arguments, both rendered in the frame of that verifier function. Fn == nil: not followed.
type c08Leaf struct {
	Fn     *ssa.Function
	Guards map[string]string
	Args   []string
}

func (S *c08SelSet) leaves(w *World, fn *ssa.Function, call *ssa.Call, depth int) []c08Leaf {
	g := staticCallee(call)
	guards := w.Info(fn).GuardsOf(call)
	if guards == nil {
		guards = map[string]string{}
	}
	var args []string
	for _, a := range call.Call.Args {
		args = append(args, desc(a))
	}
	if S.sel[g] {
		return []c08Leaf{{Fn: g, Guards: guards, Args: args}}
	}
	if !S.helper[g] || depth >= 3 || len(call.Call.Args) != len(g.Params) {
		return []c08Leaf{{}}
	}
	var names []string
	for _, p := range g.Params {
		names = append(names, p.Name())
	}
	var out []c08Leaf
	for _, inner := range S.calls[g] {
		for _, lf := range S.leaves(w, g, inner, depth+1) {
			if lf.Fn == nil {
				out = append(out, lf)
				continue
			}
			l2 := c08Leaf{Fn: lf.Fn, Guards: map[string]string{}}
			for l, site := range guards {
				l2.Guards[l] = site
			}
			for l, site := range lf.Guards {
				l = substParams(l, names, args)
				l2.Guards[l] = site
				if tw, ok := labelTwin(l); ok {
					l2.Guards[tw] = site
				}
			}
			for _, a := range lf.Args {
				l2.Args = append(l2.Args, substParams(a, names, args))
			}
			out = append(out, l2)
		}
	}
	return out
}

// c08ErrLabel: label l states `X op nil` where X is the error of one of the given calls (errDescs: their renderings),
// or a variable that holds the error of one or the other of them (a phi all of whose edges are such errors).
func c08ErrLabel(l, op string, errDescs []string) bool {
	if !strings.HasPrefix(l, op+"(") || !strings.HasSuffix(l, ",nil)") {
		return false
	}
	x := strings.TrimSuffix(strings.TrimPrefix(l, op+"("), ",nil)")
	is := func(s string) bool {
		for _, d := range errDescs {
			if s == d {
				return true
			}
		}
		return false
	}
	if is(x) {
		return true
	}
	if !strings.HasPrefix(x, "phi(") || !strings.HasSuffix(x, ")") {
		return false
	}
	x = x[len("phi(") : len(x)-1]
	depth, start, n := 0, 0, 0
	for i := 0; i <= len(x); i++ {
		if i < len(x) {
			switch x[i] {
			case '(', '[', '{':
				depth++
			case ')', ']', '}':
				depth--
			}
		}
		if i == len(x) || (x[i] == '|' && depth == 0) {
			if !is(x[start:i]) {
				return false
			}
			n++
			start = i + 1
		}
	}
	return n > 0
}

// c08IsIndexVar: p is an integer variable (a phi, not a loop counter) whose value is used — possibly after being merged
// into another such variable — as the index of a slice element in fn, or is returned by fn: a remembered position.
func c08IsIndexVar(fn *ssa.Function, p *ssa.Phi) bool {
	bt, ok := p.Type().Underlying().(*types.Basic)
	if !ok || bt.Info()&types.IsInteger == 0 || c08IsInduction(p) {
		return false
	}
	seen := map[ssa.Value]bool{}
	var used func(v ssa.Value, depth int) bool
	used = func(v ssa.Value, depth int) bool {
		if seen[v] || depth > 4 || v.Referrers() == nil {
			return false
		}
		seen[v] = true
		for _, r := range *v.Referrers() {
			switch x := r.(type) {
			case *ssa.IndexAddr:
				if x.Index == v {
					return true
				}
			case *ssa.Index:
				if x.Index == v {
					return true
				}
			case *ssa.Phi:
				if !c08IsInduction(x) && used(x, depth+1) {
					return true
				}
			case *ssa.Return:
				return true // handed to the caller, which indexes with it (posFromCall)
			}
		}
		return false
	}
	return used(p, 0)
}

// ---- precedence: abstract interpretation with tagged candidates -----------------------------------------------------------

// Abstract values used by c08Prec, on top of the interpreter's own:
//   - a remembered statement: {aNonNil, Str: "exact" | "wildcard"} — the pointer candidate, the clone of it, the element
//     of the list at a remembered position; the tag travels with the value through phis, results and parameters;
//   - a remembered position: {aNonNil, Str: tag, Int: c08IdxNonNeg | c08IdxAny}: an index >= 0 (every assignment in the
//     loop is of a value with which a slice was indexed just before, so it was in range), resp. of unknown sign;
//   - nothing remembered: {aNil} for a pointer, {aInt, Int: k, Str: "none"} for a position variable that starts as the
//     negative constant k.
const (
	c08IdxNonNeg = 1
	c08IdxAny    = 2
)

type c08Prec struct {
	w     *World
	fixed map[ssa.Value]bool // values whose entry in the environment is an input of the run (not to be re-evaluated)
	steps int
}

func newC08Prec(w *World) *c08Prec { return &c08Prec{w: w, fixed: map[ssa.Value]bool{}} }

func c08Some(some bool) string {
	if some {
		return "remembered"
	}
	return "none"
}

// candidate: the abstract value of candidate p (a phi of the loop header) when the loop is left with / without a
// statement remembered in it. ok=false if p does not start as "nothing" (nil, resp. a negative constant).
func (P *c08Prec) candidate(fn *ssa.Function, loop *sliceLoop, p *ssa.Phi, some bool, tag string) (AVal, bool) {
	lb := loopBlocks(loop.Header)
	var init ssa.Value
	for i, e := range p.Edges {
		if lb[loop.Header.Preds[i].Index] {
			continue
		}
		if init != nil && init != e {
			return AVal{}, false
		}
		init = e
	}
	if init == nil {
		return AVal{}, false
	}
	if c08IsStmtPtr(p.Type()) {
		if !isNilConst(init) {
			return AVal{}, false
		}
		if !some {
			return AVal{Kind: aNil}, true
		}
		return AVal{Kind: aNonNil, Str: tag}, true
	}
	if !c08NegConst(init) {
		return AVal{}, false
	}
	if !some {
		n, _ := constant.Int64Val(init.(*ssa.Const).Value)
		return AVal{Kind: aInt, Int: n, Str: "none"}, true
	}
	sign := int64(c08IdxNonNeg)
	for i, e := range p.Edges {
		pred := loop.Header.Preds[i]
		if !lb[pred.Index] || e == ssa.Value(p) {
			continue
		}
		edges := []c08IdxEdge{{e, pred}}
		if q, isPhi := e.(*ssa.Phi); isPhi && !c08IsInduction(q) {
			edges = c08IndexEdges(q, map[*ssa.Phi]bool{p: true})
		}
		for _, ie := range edges {
			if !c08InRangeAt(ie.V, ie.Pred) {
				sign = c08IdxAny
			}
		}
	}
	return AVal{Kind: aNonNil, Str: tag, Int: sign}, true
}

// c08InRangeAt: when control is in block b, a slice has been indexed with v (in b or in a block that dominates it):
// had v been negative, that access would have panicked.
func c08InRangeAt(v ssa.Value, b *ssa.BasicBlock) bool {
	if k, ok := v.(*ssa.Const); ok {
		return k.Value != nil && k.Value.Kind() == constant.Int && !c08NegConst(v)
	}
	if v.Referrers() == nil {
		return false
	}
	for _, r := range *v.Referrers() {
		var at *ssa.BasicBlock
		switch x := r.(type) {
		case *ssa.IndexAddr:
			if x.Index == v {
				at = x.Block()
			}
		case *ssa.Index:
			if x.Index == v {
				at = x.Block()
			}
		}
		if at != nil && (at == b || at.Dominates(b)) {
			return true
		}
	}
	return false
}

// c08CmpNonNeg: the truth of `x op k` for every x >= 0, if it is the same for all of them.
func c08CmpNonNeg(op token.Token, k int64) (bool, bool) {
	switch op {
	case token.EQL:
		if k < 0 {
			return false, true
		}
	case token.NEQ:
		if k < 0 {
			return true, true
		}
	case token.LSS:
		if k <= 0 {
			return false, true
		}
	case token.LEQ:
		if k < 0 {
			return false, true
		}
	case token.GTR:
		if k < 0 {
			return true, true
		}
	case token.GEQ:
		if k <= 0 {
			return true, true
		}
	}
	return false, false
}

func c08FlipOp(op token.Token) token.Token {
	switch op {
	case token.LSS:
		return token.GTR
	case token.GTR:
		return token.LSS
	case token.LEQ:
		return token.GEQ
	case token.GEQ:
		return token.LEQ
	}
	return op
}

// ptrVal: the abstract value of a statement operand: the value itself, what the pointer it is loaded through points
// to (value-receiver clone), or what a local copy was copied from.
func (P *c08Prec) ptrVal(ip *Interp, v ssa.Value, env map[ssa.Value]AVal, depth int) AVal {
	a := ip.val(v, env)
	if a.Str != "" || a.Kind == aNil || depth > 4 {
		return a
	}
	switch x := v.(type) {
	case *ssa.UnOp:
		if x.Op == token.MUL {
			if b := P.ptrVal(ip, x.X, env, depth+1); b.Str != "" || b.Kind == aNil {
				return b
			}
		}
	case *ssa.Alloc:
		if st := c08WholeStore(x); st != nil {
			if b := P.ptrVal(ip, st.Val, env, depth+1); b.Str != "" {
				return b
			}
		}
	}
	return a
}

func (P *c08Prec) interp(fn *ssa.Function, depth int) *Interp {
	fi := P.w.Info(fn)
	ip := &Interp{Fn: fn, IntTypes: map[string]bool{"*": true}}
	ip.Hook = func(in ssa.Instruction, env map[ssa.Value]AVal) (AVal, bool) {
		if v, isVal := in.(ssa.Value); isVal && P.fixed[v] {
			if a, ok := env[v]; ok {
				return a, true
			}
		}
		switch x := in.(type) {
		case *ssa.BinOp:
			// a remembered position compared with a constant
			a, b, op := ip.val(x.X, env), ip.val(x.Y, env), x.Op
			if b.Kind == aNonNil && b.Int != 0 && a.Kind == aInt {
				a, b, op = b, a, c08FlipOp(op)
			}
			if a.Kind == aNonNil && a.Int != 0 && b.Kind == aInt {
				if a.Int == c08IdxNonNeg {
					if r, ok := c08CmpNonNeg(op, b.Int); ok {
						return AVal{Kind: aBool, B: r}, true
					}
				}
				return top, true
			}
		case *ssa.IndexAddr:
			// the element at a remembered position is the remembered statement
			if a := ip.val(x.Index, env); a.Kind == aNonNil && a.Int != 0 && a.Str != "" {
				return AVal{Kind: aNonNil, Str: a.Str}, true
			}
		case *ssa.Call:
			g := staticCallee(x)
			if g != nil && isCloneMethod(g) && len(x.Call.Args) == 1 {
				// the clone of a remembered statement stands for that statement (a nil operand would panic)
				if a := P.ptrVal(ip, x.Call.Args[0], env, 0); a.Kind == aNonNil && a.Int == 0 && a.Str != "" {
					return a, true
				}
				return top, true
			}
			if g != nil && g.Blocks != nil && P.w.IsProductFn(g) && depth < 3 && len(x.Call.Args) == len(g.Params) {
				// a module helper that is handed candidates (it picks among them): interpreted with its parameters
				// bound; its result is known when all its abstract paths agree
				tracked := false
				sub := map[ssa.Value]AVal{}
				for i, a := range x.Call.Args {
					av := P.ptrVal(ip, a, env, 0)
					sub[g.Params[i]] = av
					if av.Str != "" || (c08IsStmtPtr(a.Type()) && (av.Kind == aNil || av.Kind == aNonNil)) {
						tracked = true
					}
				}
				if tracked {
					for _, p := range g.Params {
						P.fixed[p] = true
					}
					ip2 := P.interp(g, depth+1)
					outs := ip2.Run(g.Blocks[0], nil, sub, nil, nil)
					P.steps += ip2.Steps
					var agreed []AVal
					ok := len(outs) > 0 && !ip2.Overflow
					for _, o := range outs {
						if o.Panic {
							continue
						}
						if o.Ret == nil {
							ok = false
							break
						}
						t := P.retVals(g, ip2, o)
						if agreed == nil {
							agreed = t
						} else if c08TupleKey(agreed) != c08TupleKey(t) {
							ok = false
						}
					}
					if agreed == nil {
						ok = false
					}
					if _, isTuple := x.Type().(*types.Tuple); isTuple {
						if x.Referrers() != nil {
							for _, r := range *x.Referrers() {
								if e, isEx := r.(*ssa.Extract); isEx {
									P.fixed[e] = true
									env[e] = top
									if ok && e.Index < len(agreed) {
										env[e] = agreed[e.Index]
									}
								}
							}
						}
						return top, true
					}
					if ok && len(agreed) == 1 {
						return agreed[0], true
					}
					return top, true
				}
			}
			if fi.nonNil(x, x.Block()) {
				return AVal{Kind: aNonNil}, true
			}
		}
		return AVal{}, false
	}
	return ip
}

// retVals: the abstract results of a return.
func (P *c08Prec) retVals(fn *ssa.Function, ip *Interp, o Outcome) []AVal {
	fi := P.w.Info(fn)
	t := []AVal{}
	for _, rv := range o.Ret.Results {
		a := P.ptrVal(ip, rv, o.Env, 3)
		if a.Kind == aTop && fi.nonNil(rv, o.Ret.Block()) {
			a = AVal{Kind: aNonNil}
		}
		t = append(t, a)
	}
	return t
}

// run interprets fn from block start (entered from `from`) with the given inputs and returns the distinct result
// tuples of the returns reached; nil stands for a path that does not return.
func (P *c08Prec) run(fn *ssa.Function, start, from *ssa.BasicBlock, env map[ssa.Value]AVal) [][]AVal {
	if env == nil {
		return [][]AVal{nil}
	}
	for v := range env {
		P.fixed[v] = true
	}
	ip := P.interp(fn, 0)
	outs := ip.Run(start, from, env, nil, nil)
	P.steps += ip.Steps
	var res [][]AVal
	if ip.Overflow {
		res = append(res, nil)
	}
	for _, o := range outs {
		if o.Ret == nil || len(o.Ret.Results) == 0 {
			res = append(res, nil)
			continue
		}
		res = append(res, P.retVals(fn, ip, o))
	}
	return c08DedupTuples(res)
}

// bindCall: the inputs of the calling frame: the results of the helper call bound to the tuple the helper returned.
func (P *c08Prec) bindCall(call *ssa.Call, t []AVal) map[ssa.Value]AVal {
	if t == nil {
		return nil
	}
	env := map[ssa.Value]AVal{}
	if tt, isTuple := call.Type().(*types.Tuple); isTuple {
		if tt.Len() != len(t) || call.Referrers() == nil {
			return nil
		}
		env[call] = top
		for _, r := range *call.Referrers() {
			if e, ok := r.(*ssa.Extract); ok {
				env[e] = t[e.Index]
			}
		}
		return env
	}
	if len(t) != 1 {
		return nil
	}
	env[call] = t[0]
	return env
}

func c08TupleKey(t []AVal) string {
	if t == nil {
		return "-"
	}
	var sb strings.Builder
	for _, a := range t {
		sb.WriteString(strconv.Itoa(a.Kind) + ":" + strconv.FormatInt(a.Int, 10) + ":" + a.Str + ":" + strconv.FormatBool(a.B) + "|")
	}
	return sb.String()
}

func c08DedupTuples(ts [][]AVal) [][]AVal {
	seen := map[string]bool{}
	var out [][]AVal
	for _, t := range ts {
		k := c08TupleKey(t)
		if !seen[k] {
			seen[k] = true
			out = append(out, t)
		}
	}
	return out
}

// c08Judge: what a result tuple (statement, error) of the selection method amounts to.
func c08Judge(t []AVal) string {
	if t == nil {
		return "other:no return"
	}
	if len(t) != 2 {
		return "other:unexpected result arity"
	}
	s, e := t[0], t[1]
	switch {
	case s.Kind == aNonNil && s.Int == 0 && (s.Str == "exact" || s.Str == "wildcard") && e.Kind == aNil:
		return s.Str
	case s.Kind == aNil && e.Kind == aNonNil:
		return "error"
	case s.Kind == aNil && e.Kind == aNil:
		return "other:nil statement without error"
	case s.Kind == aNonNil && e.Kind == aNonNil:
		return "other:statement together with an error"
	}
	return "other:statement " + s.String() + " " + s.Str + ", error " + e.String()
}

// c08ExitValue: the k-th result of a success exit and the block in which it is judged. When the exit was reached
// through a known predecessor edge (single return with result locals: the results are phis of the return block) the
// result is the value assigned on that edge, judged at the end of that predecessor.
func c08ExitValue(ex *ExitSum, k int) (ssa.Value, *ssa.BasicBlock) {
	v, b := ex.Ret.Results[k], ex.Ret.Block()
	if p, ok := v.(*ssa.Phi); ok && p.Block() == b && ex.Pred >= 0 && ex.Pred < len(p.Edges) {
		return p.Edges[ex.Pred], b.Preds[ex.Pred]
	}
	return v, b
}

// c08IsNoApplicable: the error value is an ErrorNoApplicableTrustPolicy: built in place, by a module function every
// return of which yields one (a constructor), or one of several such values.
func c08IsNoApplicable(w *World, v ssa.Value, depth int) bool {
	if depth > 3 {
		return false
	}
	switch x := v.(type) {
	case *ssa.MakeInterface:
		return strings.Contains(namedOf(x.X.Type()), "NoApplicableTrustPolicy") // ErrorNoApplicableTrustPolicy is an alias of NoApplicableTrustPolicyError
	case *ssa.Phi:
		for _, e := range x.Edges {
			if e != v && !c08IsNoApplicable(w, e, depth+1) {
				return false
			}
		}
		return len(x.Edges) > 0
	case *ssa.Call:
		g := staticCallee(x)
		if g == nil || g.Blocks == nil || !w.IsProductFn(g) || g.Signature.Results().Len() != 1 {
			return false
		}
		n := 0
		for _, b := range g.Blocks {
			if r, ok := blockTerm(b).(*ssa.Return); ok {
				if len(r.Results) != 1 || !c08IsNoApplicable(w, r.Results[0], depth+1) {
					return false
				}
				n++
			}
		}
		return n > 0
	}
	return false
}

var (
	c08ElemEqL = regexp.MustCompile(`^EQ\(` + c08STMT + `\.RegistryScopes\[[^\]]*\],(.*)\)$`)
	c08ElemEqR = regexp.MustCompile(`^EQ\((.*),` + c08STMT + `\.RegistryScopes\[[^\]]*\]\)$`)
)

// c08Membership: the distinct values x for which the facts say "x is an element of STMT.RegistryScopes" under string
// equality: slices.Contains(scopes, x) answered true; an element of scopes compared equal to x with == (what a
// hand-written search or the module's own Contains passes before it answers true — the engine composes the helper's
// facts); slices.Index(scopes, x) found (>= 0, > -1, != -1). All of these are whole-string ==: no prefix, substring or
// case folding can produce them.
func c08Membership(facts map[string]string) []string {
	set := map[string]bool{}
	scopes := c08STMT + ".RegistryScopes"
	for l := range facts {
		if pre := "T(call:slices.Contains(" + scopes + ","; strings.HasPrefix(l, pre) && strings.HasSuffix(l, "))") {
			set[strings.TrimSuffix(strings.TrimPrefix(l, pre), "))")] = true
			continue
		}
		if m := c08ElemEqL.FindStringSubmatch(l); m != nil {
			set[m[1]] = true
			continue
		}
		if m := c08ElemEqR.FindStringSubmatch(l); m != nil {
			set[m[1]] = true
			continue
		}
		if pre := "(call:slices.Index(" + scopes + ","; len(l) > 2 && strings.HasPrefix(l[2:], pre) {
			rest := l[2+len(pre):]
			for _, suf := range []string{"),const:0)", "),const:-1)"} {
				if !strings.HasSuffix(rest, suf) {
					continue
				}
				op := l[:2]
				if (suf == "),const:0)" && op == "GE") || (suf == "),const:-1)" && (op == "GT" || op == "NE")) {
					set[strings.TrimSuffix(rest, suf)] = true
				}
			}
		}
	}
	return sortedKeys(set)
}

// c08ConstOnEdge: v is an integer constant, or a variable carried round a loop that is never assigned in it (a phi
// whose edges other than itself are all that one constant).
func c08ConstOnEdge(v ssa.Value) (int64, bool) {
	switch x := v.(type) {
	case *ssa.Const:
		if x.Value != nil && x.Value.Kind() == constant.Int {
			return constant.Int64Val(x.Value)
		}
	case *ssa.Phi:
		var k int64
		n := 0
		for _, e := range x.Edges {
			if e == v {
				continue
			}
			c, ok := e.(*ssa.Const)
			if !ok || c.Value == nil || c.Value.Kind() != constant.Int {
				return 0, false
			}
			ck, exact := constant.Int64Val(c.Value)
			if !exact || (n > 0 && ck != k) {
				return 0, false
			}
			k = ck
			n++
		}
		return k, n > 0
	}
	return 0, false
}

// c08LitFields: v is the value of a struct literal built in place (`T{f: x, …}`): a load of a local that is written only
// by one store per field, all of them before the load, and read only by that load. The rendering of each stored field.
func c08LitFields(v ssa.Value) (map[string]string, bool) {
	ld, ok := v.(*ssa.UnOp)
	if !ok || ld.Op != token.MUL {
		return nil, false
	}
	al, ok := ld.X.(*ssa.Alloc)
	if !ok || al.Referrers() == nil {
		return nil, false
	}
	st, ok := al.Type().Underlying().(*types.Pointer).Elem().Underlying().(*types.Struct)
	if !ok {
		return nil, false
	}
	out := map[string]string{}
	for _, r := range *al.Referrers() {
		switch x := r.(type) {
		case *ssa.UnOp:
			if x != ld {
				return nil, false
			}
		case *ssa.DebugRef:
		case *ssa.FieldAddr:
			if x.Referrers() == nil || len(*x.Referrers()) != 1 {
				return nil, false
			}
			s, isStore := (*x.Referrers())[0].(*ssa.Store)
			if !isStore || s.Addr != ssa.Value(x) {
				return nil, false
			}
			before := s.Block() == ld.Block() && instrIndex(s) < instrIndex(ld) || s.Block() != ld.Block() && s.Block().Dominates(ld.Block())
			name := st.Field(x.Field).Name()
			if _, dup := out[name]; dup || !before {
				return nil, false
			}
			out[name] = desc(s.Val)
		default:
			return nil, false
		}
	}
	return out, true
}

// ---- completeness of the exact selection ----------------------------------------------------------------------------------
//
// oci/selection-predicate says under which test a statement may become the exact candidate ("only if"); it is satisfied
// as well by a test that got an extra conjunct (`len(st.RegistryScopes) > 1 && slices.Contains(...)`,
// `wildcard == nil && slices.Contains(...)`, `false && ...`): the statement that lists the repository is then passed
// over, and — the search having found no exact statement — the WILDCARD statement is applied to an artifact that has a
// statement of its own. That is not a refusal but the wrong statement (the property: "the statement applied is the
// unique statement whose registry scopes contain exactly that registry/repository string; failing that, the unique
// wildcard statement"). c08SelectionComplete states the other direction ("if") as a cut set over one iteration of the
// statement loop:
//
//	remove (a) the edges on which a value is assigned to the exact candidate (followed through the variables — phis —
//	that merge it inside the iteration), and (b) the branch edges that are decided by the statement's registryScopes
//	against it: the repository path is not a member, '*' is a member (a statement with '*' lists nothing else: it is
//	the wildcard statement), or the candidate is already set (the scopes of a valid document are unique, so "first
//	match" and "last match" are the same statement); then the next iteration must be unreachable from the start of the
//	iteration.
//
// Which edges are of kind (b) is decided on values, not on spelling: for a condition tested directly, by the facts the
// engine composes for the edge (slices.Contains, slices.Index, a boolean module helper) — the edge behind which the
// path IS a member is never one — and otherwise by what the condition is computed from (c08Pure): nothing but
// comparisons of the statement's registryScopes / their elements with the repository path and '*', directly, in a
// module function or closure handed exactly these, or accumulated in a flag / an enumeration answer; and the
// repository path must take part. For a value tested against a constant (the answer of a classifier, a flag) the edge
// `x == k` / `x != k` is of kind (b) if every answer that remains possible behind it is one (the declared constants
// of the answer's type; what is known when x is k': c08ValueIsFacts). `len(scopes)` (other than against 0), a constant
// condition, another field of the statement, another variable are not such decisions: an iteration that can pass
// them without assigning is reported.
type c08Cls int

const (
	c08Foreign c08Cls = iota
	c08KConst
	c08KWild
	c08KPath
	c08KStmt
	c08KScopes
	c08KElem
)

// c08Env: a frame in which values are classified: the scanning function (root: by what the value denotes there) or a
// module function / closure called from it (parameters and captured variables by what was handed in).
type c08Env struct {
	fn     *ssa.Function
	root   *c08Complete
	params map[*ssa.Parameter]c08Cls
	free   map[*ssa.FreeVar]c08Cls
}

type c08Complete struct {
	w        *World
	scan     *c08Scan
	S        *c08Stmt
	p        *ssa.Phi
	exactArg string
	wild     string
	lb       map[int]bool
	busy     map[*ssa.Function]bool
}

func (e *c08Env) classify(v ssa.Value, depth int) c08Cls {
	if depth > 8 {
		return c08Foreign
	}
	K := e.root
	if k, ok := v.(*ssa.Const); ok {
		if desc(k) == K.wild {
			return c08KWild
		}
		return c08KConst
	}
	if e.params == nil {
		// the scanning frame
		if K.scan.lift(desc(v)) == K.exactArg {
			return c08KPath
		}
		if S := c08StmtOf(e.fn, v); S != nil && S.Slice != nil && desc(S.Slice) == desc(K.scan.Loop.X) {
			return c08KStmt
		}
	}
	switch x := v.(type) {
	case *ssa.Parameter:
		if e.params != nil {
			return e.params[x]
		}
	case *ssa.FreeVar:
		return e.free[x]
	case *ssa.ChangeType:
		return e.classify(x.X, depth+1)
	case *ssa.Alloc:
		// a local variable assigned once: what it holds (pointer and value are not told apart)
		if st := c08WholeStore(x); st != nil {
			return e.classify(st.Val, depth+1)
		}
	case *ssa.FieldAddr:
		if e.classify(x.X, depth+1) == c08KStmt && fieldName(x.X.Type(), x.Field) == "RegistryScopes" {
			return c08KScopes
		}
	case *ssa.Field:
		if e.classify(x.X, depth+1) == c08KStmt && fieldName(x.X.Type(), x.Field) == "RegistryScopes" {
			return c08KScopes
		}
	case *ssa.IndexAddr:
		switch e.classify(x.X, depth+1) {
		case c08KScopes:
			return c08KElem
		}
	case *ssa.UnOp:
		if x.Op == token.MUL {
			return e.classify(x.X, depth+1)
		}
	case *ssa.Phi:
		cls := c08Foreign
		for i, ed := range x.Edges {
			if ed == ssa.Value(x) {
				continue
			}
			c := e.classify(ed, depth+1)
			if i > 0 && c != cls && cls != c08Foreign {
				return c08Foreign
			}
			cls = c
		}
		if cls == c08KConst || cls == c08KWild {
			return c08Foreign // a variable that holds constants: what matters is what decides between them (pure)
		}
		return cls
	}
	return c08Foreign
}

func c08IsLen(v ssa.Value) (ssa.Value, bool) {
	call, ok := v.(*ssa.Call)
	if !ok {
		return nil, false
	}
	if b, isB := call.Call.Value.(*ssa.Builtin); isB && b.Name() == "len" && len(call.Call.Args) == 1 {
		return call.Call.Args[0], true
	}
	return nil, false
}

// pure: v is computed from nothing but comparisons of the statement's registryScopes (or their elements) with the
// repository path and '*' (and constants); path: the repository path takes part.
func (e *c08Env) pure(v ssa.Value, depth int, seen map[ssa.Value]bool) (ok, path bool) {
	if depth > 10 {
		return false, false
	}
	switch e.classify(v, 0) {
	case c08KPath:
		return true, true
	case c08KConst, c08KWild, c08KStmt, c08KScopes, c08KElem:
		return true, false
	}
	if seen[v] {
		return true, false
	}
	seen[v] = true
	switch x := v.(type) {
	case *ssa.UnOp:
		if x.Op == token.NOT {
			return e.pure(x.X, depth+1, seen)
		}
	case *ssa.ChangeType:
		return e.pure(x.X, depth+1, seen)
	case *ssa.BinOp:
		switch x.Op {
		case token.EQL, token.NEQ, token.LSS, token.LEQ, token.GTR, token.GEQ:
		default:
			return false, false
		}
		for _, pair := range [][2]ssa.Value{{x.X, x.Y}, {x.Y, x.X}} {
			if arg, isLen := c08IsLen(pair[0]); isLen {
				// emptiness of the scopes (nothing is a member of an empty list); the bound of a loop over them
				if e.classify(arg, 0) != c08KScopes {
					return false, false
				}
				if k, isK := pair[1].(*ssa.Const); isK && k.Value != nil && k.Value.Kind() == constant.Int {
					if n, exact := constant.Int64Val(k.Value); exact && n == 0 {
						return true, false
					}
					return false, false
				}
				if c08LoopCounter(pair[1]) {
					return true, false
				}
				return false, false
			}
		}
		ok1, p1 := e.pure(x.X, depth+1, seen)
		ok2, p2 := e.pure(x.Y, depth+1, seen)
		return ok1 && ok2, p1 || p2
	case *ssa.Extract:
		return e.pure(x.Tuple, depth+1, seen)
	case *ssa.Phi:
		okAll, anyPath := true, false
		for _, ed := range x.Edges {
			o, p := e.pure(ed, depth+1, seen)
			okAll = okAll && o
			anyPath = anyPath || p
		}
		if !okAll {
			return false, false
		}
		// what decides which assignment was executed last: in a called frame every test is examined anyway (callPure);
		// in the scanning frame, the tests of this iteration from which the variable's block is reached
		if e.params == nil {
			o, p := e.controllersPure(x.Block(), depth+1, seen)
			if !o {
				return false, false
			}
			anyPath = anyPath || p
		}
		return true, anyPath
	case *ssa.Call:
		return e.callPure(x, depth+1, seen)
	}
	return false, false
}

// c08LoopCounter: v is a loop counter or a value derived from one by adding a constant (the range loop's index).
func c08LoopCounter(v ssa.Value) bool {
	for i := 0; i < 3; i++ {
		switch x := v.(type) {
		case *ssa.Phi:
			return c08IsInduction(x)
		case *ssa.BinOp:
			if x.Op != token.ADD && x.Op != token.SUB {
				return false
			}
			v = x.X
		default:
			return false
		}
	}
	return false
}

// controllersPure (scanning frame): every test of the iteration from which block `at` can be reached without starting
// another iteration is pure (tests of the candidates themselves and of loop bounds aside).
func (e *c08Env) controllersPure(at *ssa.BasicBlock, depth int, seen map[ssa.Value]bool) (ok, path bool) {
	K := e.root
	hdr := K.scan.Loop.Header
	// blocks of the loop body from which `at` is reached without passing the header
	reach := map[int]bool{at.Index: true}
	work := []*ssa.BasicBlock{at}
	for len(work) > 0 {
		b := work[len(work)-1]
		work = work[:len(work)-1]
		for _, p := range b.Preds {
			if p == hdr || !K.lb[p.Index] || reach[p.Index] {
				continue
			}
			reach[p.Index] = true
			work = append(work, p)
		}
	}
	ok = true
	for bi := range reach {
		b := e.fn.Blocks[bi]
		iff, isIf := blockTerm(b).(*ssa.If)
		if !isIf {
			continue
		}
		o, p := e.pure(iff.Cond, depth+1, seen)
		if !o {
			return false, false
		}
		path = path || p
	}
	return ok, path
}

// callPure: the answer of slices.Contains / slices.Index over pure arguments, or of a module function / closure that is
// handed nothing but the statement, its scopes, the repository path, '*' and constants, and in which every test and
// every value returned is pure in turn.
func (e *c08Env) callPure(call *ssa.Call, depth int, seen map[ssa.Value]bool) (ok, path bool) {
	K := e.root
	if depth > 10 {
		return false, false
	}
	name := calleeName(call)
	if call.Call.IsInvoke() {
		return false, false
	}
	argsOK := true
	var classes []c08Cls
	for _, a := range call.Call.Args {
		cl := e.classify(a, 0)
		if cl == c08Foreign {
			argsOK = false
		}
		if cl == c08KPath {
			path = true
		}
		classes = append(classes, cl)
	}
	if name == "slices.Contains" || name == "slices.Index" {
		return argsOK && len(classes) == 2 && (classes[0] == c08KScopes) && (classes[1] == c08KPath || classes[1] == c08KWild), path
	}
	g := staticCallee(call)
	if g == nil || g.Blocks == nil || !K.w.IsProductFn(g) || !argsOK || len(classes) != len(g.Params) || K.busy[g] {
		return false, false
	}
	child := &c08Env{fn: g, root: K, params: map[*ssa.Parameter]c08Cls{}, free: map[*ssa.FreeVar]c08Cls{}}
	for i, p := range g.Params {
		child.params[p] = classes[i]
	}
	if mc, isClosure := call.Call.Value.(*ssa.MakeClosure); isClosure {
		for i, b := range mc.Bindings {
			if i >= len(g.FreeVars) {
				return false, false
			}
			cl := e.classify(b, 0)
			if cl == c08Foreign {
				return false, false
			}
			if cl == c08KPath {
				path = true
			}
			child.free[g.FreeVars[i]] = cl
		}
	} else if len(g.FreeVars) > 0 {
		return false, false
	}
	K.busy[g] = true
	defer delete(K.busy, g)
	cseen := map[ssa.Value]bool{}
	for _, b := range g.Blocks {
		switch t := blockTerm(b).(type) {
		case *ssa.If:
			if o, _ := child.pure(t.Cond, depth+1, cseen); !o {
				return false, false
			}
		case *ssa.Return:
			for _, r := range t.Results {
				if o, _ := child.pure(r, depth+1, cseen); !o {
					return false, false
				}
			}
		case *ssa.Panic:
			return false, false
		}
	}
	return true, path
}

// c08Enumerable: the answers of this type can be enumerated (a value of another type compared with a constant — the
// position slices.Index answers with — is judged as a condition tested directly).
func c08Enumerable(t types.Type) bool {
	_, ok := c08DeclaredConsts(t)
	return ok
}

// c08DeclaredConsts: the constants an answer of type t can be: true / false, or the constants declared with a named
// type in its package. ok=false: not enumerable.
func c08DeclaredConsts(t types.Type) ([]constant.Value, bool) {
	if bt, isB := t.Underlying().(*types.Basic); isB && bt.Info()&types.IsBoolean != 0 {
		return []constant.Value{constant.MakeBool(true), constant.MakeBool(false)}, true
	}
	nt, isNamed := t.(*types.Named)
	if !isNamed || nt.Obj() == nil || nt.Obj().Pkg() == nil {
		return nil, false
	}
	var out []constant.Value
	sc := nt.Obj().Pkg().Scope()
	for _, n := range sc.Names() {
		if k, isK := sc.Lookup(n).(*types.Const); isK && types.Identical(k.Type(), t) {
			dup := false
			for _, o := range out {
				if constant.Compare(o, token.EQL, k.Val()) {
					dup = true
				}
			}
			if !dup {
				out = append(out, k.Val())
			}
		}
	}
	return out, len(out) > 0
}

// judge: what a set of facts about the statement says: "accept" (the repository path is a member), "reject" ('*' is a
// member), "" (nothing of the kind).
func (K *c08Complete) judge(facts map[string]string) string {
	ren := map[string]string{}
	names := []string{K.S.D}
	for _, k := range K.S.Kept {
		names = append(names, k.D)
	}
	for l, s := range facts {
		for _, d := range names {
			l = strings.ReplaceAll(l, d, c08STMT)
		}
		ren[l] = s
	}
	verdict := ""
	for _, a := range c08Membership(ren) {
		switch K.scan.lift(a) {
		case K.exactArg:
			return "accept"
		case K.wild:
			verdict = "reject"
		}
	}
	return verdict
}

// rejecting: the edge of block b on which its condition evaluates to truth is decided by the statement's registryScopes
// against the statement (kind (b) above).
func (K *c08Complete) rejecting(env *c08Env, b *ssa.BasicBlock, iff *ssa.If, truth bool) bool {
	w := K.w
	LF := K.scan.Fn
	cond := iff.Cond
	// the candidate is already set
	{
		c, eq := cond, true
		for {
			u, isNot := c.(*ssa.UnOp)
			if !isNot || u.Op != token.NOT {
				break
			}
			c, eq = u.X, !eq
		}
		if bo, isB := c.(*ssa.BinOp); isB && (bo.Op == token.EQL || bo.Op == token.NEQ) {
			x, y := bo.X, bo.Y
			if _, isK := x.(*ssa.Const); isK {
				x, y = y, x
			}
			if _, isK := y.(*ssa.Const); isK && x == ssa.Value(K.p) {
				return (eq == (bo.Op == token.EQL)) != truth
			}
		}
	}
	// the scopes are empty: nothing is a member
	if emptyOn, isEmptiness := env.emptinessTest(cond); isEmptiness {
		return emptyOn == truth
	}
	if hx, _, _, _ := c08HeldTest(cond); c08TestsHeldValue(cond) && c08Enumerable(hx.Type()) {
		x, k, eq, _ := c08HeldTest(cond)
		var remain []constant.Value
		if eq == truth {
			remain = []constant.Value{k}
		} else {
			all, ok := c08DeclaredConsts(x.Type())
			if !ok {
				return false
			}
			for _, k2 := range all {
				if !constant.Compare(k2, token.EQL, k) {
					remain = append(remain, k2)
				}
			}
		}
		// what each answer says; an answer about which nothing is known counts as "the path is not a member" only if the
		// value decides about the path at all (another of its answers is "the path is a member") and is computed from
		// nothing but such comparisons
		all, enumerable := c08DeclaredConsts(x.Type())
		decidesPath := false
		if enumerable {
			for _, k2 := range all {
				if facts, understood := c08ValueIsFacts(w, LF, K.S.Birth, x, b, k2, false, 0); !(understood && facts == nil) && K.judge(facts) == "accept" {
					decidesPath = true
				}
			}
		}
		pureKnown, pureOK := false, false
		for _, k2 := range remain {
			facts, understood := c08ValueIsFacts(w, LF, K.S.Birth, x, b, k2, false, 0)
			if understood && facts == nil {
				continue // never this answer
			}
			switch K.judge(facts) {
			case "accept":
				return false
			case "reject":
				continue
			}
			if !decidesPath {
				return false
			}
			if !pureKnown {
				o, _ := env.pure(x, 0, map[ssa.Value]bool{})
				pureKnown, pureOK = true, o
			}
			if !pureOK {
				return false
			}
		}
		return true
	}
	switch K.judge(K.edgeFacts(cond, truth)) {
	case "accept":
		return false
	case "reject":
		return true
	}
	// nothing known on this edge: it says "the path is not a member" if the other edge says that it is, and the
	// condition is computed from nothing but such comparisons
	if K.judge(K.edgeFacts(cond, !truth)) != "accept" {
		return false
	}
	o, _ := env.pure(cond, 0, map[ssa.Value]bool{})
	return o
}

// edgeFacts: the label of the edge on which cond evaluates to truth and what the engine composes for it.
func (K *c08Complete) edgeFacts(cond ssa.Value, truth bool) map[string]string {
	fi := K.w.Info(K.scan.Fn)
	facts := map[string]string{}
	l := condLabel(cond, truth)
	facts[l] = ""
	if tw, ok := labelTwin(l); ok {
		facts[tw] = ""
	}
	if comp := fi.composeCond(cond, truth); comp != nil {
		for l2 := range comp.Checked {
			facts[l2] = ""
		}
	}
	return facts
}

// emptinessTest: cond compares len(the statement's registryScopes) with 0; emptyOn: the truth value of cond for which
// the scopes are empty.
func (e *c08Env) emptinessTest(cond ssa.Value) (emptyOn, ok bool) {
	neg := false
	for {
		u, isNot := cond.(*ssa.UnOp)
		if !isNot || u.Op != token.NOT {
			break
		}
		cond, neg = u.X, !neg
	}
	bo, isB := cond.(*ssa.BinOp)
	if !isB {
		return false, false
	}
	op, x, y := bo.Op, bo.X, bo.Y
	if _, isLen := c08IsLen(y); isLen {
		x, y = y, x
		switch op {
		case token.LSS:
			op = token.GTR
		case token.GTR:
			op = token.LSS
		case token.LEQ:
			op = token.GEQ
		case token.GEQ:
			op = token.LEQ
		}
	}
	arg, isLen := c08IsLen(x)
	k, isK := y.(*ssa.Const)
	if !isLen || !isK || k.Value == nil || k.Value.Kind() != constant.Int || e.classify(arg, 0) != c08KScopes {
		return false, false
	}
	if n, exact := constant.Int64Val(k.Value); !exact || n != 0 {
		return false, false
	}
	switch op {
	case token.EQL, token.LEQ:
		return !neg, true
	case token.NEQ, token.GTR:
		return neg, true
	}
	return false, false
}

func c08SelectionComplete(c *Ctx, scan *c08Scan, exactPhi *ssa.Phi, S *c08Stmt, exactArg, wild string) {
	w := c.W
	rule := "must-pass (cut set): an iteration of the statement loop leaves the exact candidate as it was only past a branch decided by that statement's own registryScopes — the repository path is not a member, or '*' is (or the candidate is already set: the scopes of a valid document are unique); a statement that lists the repository path is never passed over in favour of the wildcard statement"
	LF, loop := scan.Fn, &scan.Loop
	site := w.InstrPos(blockTerm(loop.Header))
	if exactPhi == nil || S == nil || exactArg == "" {
		c.Unk("oci/selection-complete", rule, site, "the exact candidate and the statement it is assigned from were not identified in the scanning function")
		return
	}
	K := &c08Complete{w: w, scan: scan, S: S, p: exactPhi, exactArg: exactArg, wild: wild, lb: loopBlocks(loop.Header), busy: map[*ssa.Function]bool{}}
	env := &c08Env{fn: LF, root: K}
	cut := map[edgeKey]bool{}
	succIdx := func(from, to *ssa.BasicBlock) []int {
		var out []int
		for j, s := range from.Succs {
			if s == to {
				out = append(out, j)
			}
		}
		return out
	}
	// (a) the edges on which the candidate is assigned
	nAssign := 0
	web := map[*ssa.Phi]bool{}
	var follow func(q *ssa.Phi)
	follow = func(q *ssa.Phi) {
		if web[q] {
			return
		}
		web[q] = true
		for i, ed := range q.Edges {
			pred := q.Block().Preds[i]
			if !K.lb[pred.Index] {
				continue // the initial value (the header's edge from before the loop)
			}
			if ed == ssa.Value(exactPhi) {
				continue
			}
			if q2, isPhi := ed.(*ssa.Phi); isPhi && K.lb[q2.Block().Index] && q2.Block() != loop.Header {
				follow(q2)
				continue
			}
			nAssign++
			for _, j := range succIdx(pred, q.Block()) {
				cut[edgeKey{pred.Index, j}] = true
			}
		}
	}
	follow(exactPhi)
	// (b) the edges decided by the registryScopes against the statement
	nReject := 0
	for bi := range K.lb {
		b := LF.Blocks[bi]
		iff, isIf := blockTerm(b).(*ssa.If)
		if !isIf || b == loop.Header || len(b.Succs) != 2 {
			continue
		}
		for j := 0; j < 2; j++ {
			c.Evals++
			if !cut[edgeKey{b.Index, j}] && K.rejecting(env, b, iff, j == 0) {
				cut[edgeKey{b.Index, j}] = true
				nReject++
			}
		}
	}
	// the next iteration must be unreachable
	prev := map[int]int{loop.Body.Index: -1}
	work := []*ssa.BasicBlock{loop.Body}
	found := false
	for len(work) > 0 && !found {
		b := work[0]
		work = work[1:]
		for j, s := range b.Succs {
			if cut[edgeKey{b.Index, j}] || !K.lb[s.Index] {
				continue
			}
			if s == loop.Header {
				prev[-1] = b.Index
				found = true
				break
			}
			if _, seen := prev[s.Index]; !seen {
				prev[s.Index] = b.Index
				work = append(work, s)
			}
		}
	}
	detail := ""
	if found {
		var tests []string
		fi := w.Info(LF)
		for at, nxt := prev[-1], loop.Header.Index; at >= 0; at, nxt = prev[at], at {
			b := LF.Blocks[at]
			if iff, isIf := blockTerm(b).(*ssa.If); isIf && len(b.Succs) == 2 {
				tests = append([]string{trunc(condLabel(iff.Cond, b.Succs[0].Index == nxt), 120) + " at " + fi.blockPos(b)}, tests...)
			}
		}
		detail = "an iteration can leave the exact candidate unchanged although nothing on its way says that the repository path is not among the statement's registryScopes; tests passed: " + strings.Join(tests, "; ")
	}
	c.Check(!found && nAssign > 0 && nReject > 0, "oci/selection-complete", rule, site, detail+" (assignments="+strconv.Itoa(nAssign)+", deciding edges="+strconv.Itoa(nReject)+")")
}
