package main

// Helpers of the C08 rule set: statements of a policy document are followed by role and dataflow (which slice element
// a value denotes, what is known about that element when it is remembered / cloned / returned), through module
// helpers, predicate closures and the standard library's search function, instead of by the position and the printed
// form of one loop shape.

import (
	"go/constant"
	"go/token"
	"go/types"
	"strconv"
	"strings"

	"golang.org/x/tools/go/ssa"
)

// c08STMT stands for "the statement selected" in facts that were moved out of the frame in which the statement lives.
const c08STMT = "STMT"

const (
	c08OCIStmt  = "ngo/verifier/trustpolicy.OCITrustPolicy"
	c08BlobStmt = "ngo/verifier/trustpolicy.BlobTrustPolicy"
)

// c08IsStmtPtr: *OCITrustPolicy or *BlobTrustPolicy.
func c08IsStmtPtr(t types.Type) bool {
	if _, ok := t.Underlying().(*types.Pointer); !ok {
		return false
	}
	n := namedOf(t)
	return n == c08OCIStmt || n == c08BlobStmt
}

// c08Stmt: a value that denotes element Idx of the slice Slice — the element's address (&x[i]), the element loaded
// (x[i] as a value) or a local variable whose only assignment is a copy of the element (the range variable).
type c08Stmt struct {
	D     string          // rendering of the statement in its frame: facts about it are facts about D.<field>
	Slice ssa.Value       // the slice
	Idx   ssa.Value       // the index
	Birth *ssa.BasicBlock // the block in which this statement comes to life (each execution of it is another statement)
	Local *ssa.Alloc      // the local copy, if the statement is one
}

func c08StmtOf(fn *ssa.Function, v ssa.Value) *c08Stmt {
	d := desc(v)
	for i := 0; i < 4; i++ {
		switch x := v.(type) {
		case *ssa.UnOp:
			if x.Op != token.MUL {
				return nil
			}
			v = x.X
		case *ssa.Alloc:
			// a local copy: one assignment of the whole value, a loaded slice element; no field is written afterwards
			var st *ssa.Store
			if x.Referrers() == nil {
				return nil
			}
			for _, r := range *x.Referrers() {
				switch y := r.(type) {
				case *ssa.Store:
					if y.Addr != ssa.Value(x) || st != nil {
						return nil
					}
					st = y
				case *ssa.FieldAddr:
					if addrWritten(y, 0) {
						return nil
					}
				}
			}
			if st == nil {
				return nil
			}
			ld, ok := st.Val.(*ssa.UnOp)
			if !ok || ld.Op != token.MUL {
				return nil
			}
			ia, ok := ld.X.(*ssa.IndexAddr)
			if !ok {
				return nil
			}
			return &c08Stmt{D: d, Slice: ia.X, Idx: ia.Index, Birth: st.Block(), Local: x}
		case *ssa.IndexAddr:
			b := fn.Blocks[0]
			if in, ok := x.Index.(ssa.Instruction); ok && in.Block() != nil {
				b = in.Block()
			}
			return &c08Stmt{D: d, Slice: x.X, Idx: x.Index, Birth: b}
		default:
			return nil
		}
	}
	return nil
}

// c08Facts: the facts that hold whenever control enters block `at` after the most recent execution of block `birth`:
// the labels of the branch edges every path from birth to at passes that does not re-enter birth (facts of one
// iteration when birth lies in a loop). nil if `at` cannot be reached that way.
// On top of what the engine composes (boolean module helpers) a test `helper(args) == k` of a module helper that
// answers with enumeration constants contributes the facts of the helper's `return k` exits (c08EnumFacts).
func c08Facts(w *World, fn *ssa.Function, birth, at *ssa.BasicBlock) map[string]string {
	fi := w.Info(fn)
	out := map[string]string{}
	if birth == at {
		return out
	}
	cut := map[edgeKey]bool{}
	cutInto(fi, birth, cut)
	targets := map[int]bool{at.Index: true}
	l, ok := fi.mustPassBetweenCut([]int{birth.Index}, targets, cut)
	if !ok {
		return nil
	}
	for k, v := range l {
		out[k] = v
	}
	ss := []state{{birth.Index, 0, -1}}
	for _, b := range fn.Blocks {
		iff, isIf := blockTerm(b).(*ssa.If)
		if !isIf || len(b.Succs) != 2 {
			continue
		}
		for j := 0; j < 2; j++ {
			if cut[edgeKey{b.Index, j}] {
				continue
			}
			ef := c08EnumFacts(w, iff.Cond, j == 0)
			if len(ef) == 0 {
				continue
			}
			c2 := map[edgeKey]bool{{b.Index, j}: true}
			for e := range cut {
				c2[e] = true
			}
			if fi.reachHit(ss, c2, targets) {
				continue // not a must-pass edge
			}
			for k, v := range ef {
				if _, has := out[k]; !has {
					out[k] = v
				}
			}
		}
	}
	return out
}

// c08EnumFacts: cond evaluating to truth states `g(args) == k` for a module function g with one integer-kinded
// result that returns constants only. Then g left through one of its `return k` exits, so the facts common to those
// exits hold, with g's parameters replaced by the arguments (the same substitution the engine applies to boolean helpers).
func c08EnumFacts(w *World, cond ssa.Value, truth bool) map[string]string {
	for {
		u, ok := cond.(*ssa.UnOp)
		if !ok || u.Op != token.NOT {
			break
		}
		cond, truth = u.X, !truth
	}
	bo, ok := cond.(*ssa.BinOp)
	if !ok || (bo.Op != token.EQL && bo.Op != token.NEQ) {
		return nil
	}
	if (bo.Op == token.EQL) != truth {
		return nil // the edge states an inequality
	}
	a, b := bo.X, bo.Y
	if _, isK := a.(*ssa.Const); isK {
		a, b = b, a
	}
	call, ok1 := a.(*ssa.Call)
	kc, ok2 := b.(*ssa.Const)
	if !ok1 || !ok2 || kc.Value == nil || kc.Value.Kind() != constant.Int {
		return nil
	}
	g := staticCallee(call)
	if g == nil || g.Blocks == nil || !w.IsProductFn(g) || g.Signature.Results().Len() != 1 || len(call.Call.Args) != len(g.Params) {
		return nil
	}
	if bt, ok := g.Signature.Results().At(0).Type().Underlying().(*types.Basic); !ok || bt.Info()&types.IsInteger == 0 {
		return nil
	}
	k, exact := constant.Int64Val(kc.Value)
	if !exact {
		return nil
	}
	facts, ok := c08ConstReturnFacts(w, g, k)
	if !ok {
		return nil
	}
	var names, descs []string
	for i, p := range g.Params {
		names = append(names, p.Name())
		descs = append(descs, desc(call.Call.Args[i]))
	}
	out := map[string]string{}
	for l, site := range facts {
		out[substParams(l, names, descs)] = site
	}
	return out
}

// c08ConstReturnFacts: the facts common to every exit of g that returns the constant k (in g's frame). ok=false if
// some exit returns a value that is not a constant (it might equal k on a path the facts do not describe).
func c08ConstReturnFacts(w *World, g *ssa.Function, k int64) (map[string]string, bool) {
	fi := w.Info(g)
	var out map[string]string
	meet := func(l map[string]string) {
		if out == nil {
			out = map[string]string{}
			for a, b := range l {
				out[a] = b
			}
			return
		}
		for a := range out {
			if _, ok := l[a]; !ok {
				delete(out, a)
			}
		}
	}
	factsAt := func(b *ssa.BasicBlock) (map[string]string, bool) {
		if b.Index == 0 {
			return map[string]string{}, true
		}
		return fi.mustPassBetween([]int{0}, map[int]bool{b.Index: true})
	}
	isK := func(v ssa.Value) (bool, bool) { // (is the constant k, is a constant)
		c, ok := v.(*ssa.Const)
		if !ok || c.Value == nil || c.Value.Kind() != constant.Int {
			return false, false
		}
		n, exact := constant.Int64Val(c.Value)
		return exact && n == k, exact
	}
	for _, b := range g.Blocks {
		r, ok := blockTerm(b).(*ssa.Return)
		if !ok {
			continue
		}
		if len(r.Results) != 1 {
			return nil, false
		}
		if p, isPhi := r.Results[0].(*ssa.Phi); isPhi && p.Block() == b {
			for i, e := range p.Edges {
				same, konst := isK(e)
				if !konst {
					return nil, false
				}
				if !same {
					continue
				}
				if l, reachable := factsAt(b.Preds[i]); reachable {
					meet(l)
				}
			}
			continue
		}
		same, konst := isK(r.Results[0])
		if !konst {
			return nil, false
		}
		if !same {
			continue
		}
		if l, reachable := factsAt(b); reachable {
			meet(l)
		}
	}
	return out, out != nil
}

// c08SubstToken replaces the whole identifier token tok ("free:name") in label by repl.
func c08SubstToken(label, tok, repl string) string {
	var sb strings.Builder
	i := 0
	for i < len(label) {
		j := strings.Index(label[i:], tok)
		if j < 0 {
			sb.WriteString(label[i:])
			break
		}
		e := i + j + len(tok)
		sb.WriteString(label[i : i+j])
		if e < len(label) && (label[e] == '_' || label[e] >= '0' && label[e] <= '9' || label[e] >= 'a' && label[e] <= 'z' || label[e] >= 'A' && label[e] <= 'Z') {
			sb.WriteString(tok) // a longer identifier
		} else {
			sb.WriteString(repl)
		}
		i = e
	}
	return sb.String()
}

// c08CapturedValue: bind is the variable a closure captures. If the variable is assigned exactly once (its
// initialisation) and the closures that capture it only read it, every read yields the value assigned: its rendering
// in the enclosing frame is returned.
func c08CapturedValue(bind ssa.Value) (string, bool) {
	al, ok := bind.(*ssa.Alloc)
	if !ok || al.Referrers() == nil {
		return "", false
	}
	var st *ssa.Store
	var closures []*ssa.MakeClosure
	for _, r := range *al.Referrers() {
		switch x := r.(type) {
		case *ssa.Store:
			if x.Addr != ssa.Value(al) || st != nil {
				return "", false
			}
			st = x
		case *ssa.UnOp:
			if x.Op != token.MUL {
				return "", false
			}
		case *ssa.DebugRef:
		case *ssa.MakeClosure:
			g, ok := x.Fn.(*ssa.Function)
			if !ok {
				return "", false
			}
			closures = append(closures, x)
			for i, b := range x.Bindings {
				if b != ssa.Value(al) || i >= len(g.FreeVars) || g.FreeVars[i].Referrers() == nil {
					continue
				}
				for _, rr := range *g.FreeVars[i].Referrers() {
					switch y := rr.(type) {
					case *ssa.UnOp:
						if y.Op != token.MUL {
							return "", false
						}
					case *ssa.DebugRef:
					default:
						return "", false // written, or handed on
					}
				}
			}
		default:
			return "", false
		}
	}
	if st == nil {
		return "", false
	}
	// the assignment comes before any closure that reads the variable exists (otherwise a call of the closure could
	// still see the zero value)
	for _, mc := range closures {
		before := st.Block() == mc.Block() && instrIndex(st) < instrIndex(mc) || st.Block() != mc.Block() && st.Block().Dominates(mc.Block())
		if !before {
			return "", false
		}
	}
	return desc(st.Val), true
}

// c08ParamForms: the renderings under which the value of parameter p appears in fn: the parameter itself and, when a
// closure captures it, the variable it is spilled to (provided nothing else is ever assigned to that variable).
func c08ParamForms(fn *ssa.Function, p *ssa.Parameter) []string {
	out := []string{"param:" + p.Name()}
	if p.Referrers() == nil {
		return out
	}
	for _, r := range *p.Referrers() {
		if st, ok := r.(*ssa.Store); ok && st.Val == ssa.Value(p) {
			if d, ok := c08CapturedValue(st.Addr); ok && d == "param:"+p.Name() {
				out = append(out, desc(st.Addr))
			}
		}
	}
	return out
}

// c08PredFacts: f is a function value with one parameter (a function literal, a closure made in the enclosing
// function, a named module function). The facts that hold whenever f answers `truth`, with f's argument rendered
// STMT and captured variables replaced by their (only) value in the enclosing frame.
func c08PredFacts(w *World, f ssa.Value, truth bool) (map[string]string, bool) {
	var g *ssa.Function
	var binds []ssa.Value
	switch x := f.(type) {
	case *ssa.MakeClosure:
		g, _ = x.Fn.(*ssa.Function)
		binds = x.Bindings
	case *ssa.Function:
		g = x
	}
	if g == nil || g.Blocks == nil || !w.IsProductFn(g) || len(g.Params) != 1 || g.Signature.Results().Len() != 1 {
		return nil, false
	}
	s := w.Summarize(g, Mode{Kind: mBool, Want: truth})
	if s == nil || !s.Complete || len(s.Exits) == 0 {
		return nil, false
	}
	out := map[string]string{}
next:
	for l, site := range s.Checked {
		l = substParams(l, []string{g.Params[0].Name()}, []string{c08STMT})
		for i, fv := range g.FreeVars {
			tok := "free:" + fv.Name()
			if !strings.Contains(l, tok) {
				continue
			}
			if i >= len(binds) {
				continue next
			}
			d, ok := c08CapturedValue(binds[i])
			if !ok {
				continue next // the captured variable may change: nothing is known about this fact's operand
			}
			l = c08SubstToken(l, tok, d)
		}
		out[l] = site
		if tw, ok := labelTwin(l); ok {
			out[tw] = site
		}
	}
	return out, true
}

// ---- which statement does a value hand out? ---------------------------------------------------------------------

// c08Alt: one alternative for a value of statement-pointer type.
type c08Alt struct {
	Nil    bool              // the nil pointer ("nothing selected")
	Other  string            // not understood (rendering / reason)
	Cloned bool              // the result of a clone
	Doc    string            // the slice the statement is an element of, rendered in the current frame
	Facts  map[string]string // what is known about the statement (rendered STMT) when it was cloned / remembered
	Dyn    []c08Dyn          // facts still pending: answers of a function-typed parameter of the current frame
	Site   string
}

// c08Dyn: parameter #Param (a predicate) of the current frame, applied to the statement, answered Truth.
type c08Dyn struct {
	Param int
	Truth bool
}

type c08Resolver struct {
	w      *World
	frames map[*ssa.Function]bool // the functions in which statements were found (the search lives there)
}

func newC08Resolver(w *World) *c08Resolver {
	return &c08Resolver{w: w, frames: map[*ssa.Function]bool{}}
}

// stmtAlt: statement S of fn, with what is known about it when control enters `at`.
func (r *c08Resolver) stmtAlt(fn *ssa.Function, S *c08Stmt, at *ssa.BasicBlock) c08Alt {
	w := r.w
	r.frames[fn] = true
	alt := c08Alt{Doc: desc(S.Slice), Facts: map[string]string{}, Site: w.Info(fn).blockPos(at)}
	// facts are matched by the rendering of the statement: a second local variable that renders alike (a shadowing
	// variable of the same name and type) would make a fact about one pass for a fact about the other
	if S.Local != nil {
		for _, b := range fn.Blocks {
			for _, in := range b.Instrs {
				if al, ok := in.(*ssa.Alloc); ok && al != S.Local && desc(al) == S.D {
					alt.Other = "two local statements render alike (" + S.D + "): facts cannot be attributed"
					return alt
				}
			}
		}
	}
	for l, site := range c08Facts(w, fn, S.Birth, at) {
		alt.Facts[strings.ReplaceAll(l, S.D, c08STMT)] = site
	}
	// the answers of predicates the frame was handed
	for i, p := range fn.Params {
		if !isFuncType(p.Type()) {
			continue
		}
		if _, ok := alt.Facts["T(call:dyn:param:"+p.Name()+"("+c08STMT+"))"]; ok {
			alt.Dyn = append(alt.Dyn, c08Dyn{i, true})
		}
		if _, ok := alt.Facts["F(call:dyn:param:"+p.Name()+"("+c08STMT+"))"]; ok {
			alt.Dyn = append(alt.Dyn, c08Dyn{i, false})
		}
	}
	// the element at the index slices.IndexFunc(slice, pred) found: IndexFunc returns the first index i with
	// pred(slice[i]) true, or -1 (contract of the standard library). Under i >= 0 the predicate holds for slice[i].
	if call, ok := S.Idx.(*ssa.Call); ok && calleeName(call) == "slices.IndexFunc" && len(call.Call.Args) == 2 {
		di := desc(call)
		_, f1 := alt.Facts["GE("+di+",const:0)"]
		_, f2 := alt.Facts["GT("+di+",const:-1)"]
		_, f3 := alt.Facts["NE("+di+",const:-1)"]
		switch {
		case desc(call.Call.Args[0]) != desc(S.Slice):
			alt.Other = "index found in " + desc(call.Call.Args[0]) + " applied to " + desc(S.Slice)
		case !f1 && !f2 && !f3:
			alt.Other = "element at a search result that is not known to be >= 0"
		default:
			r.applyPred(fn, &alt, call.Call.Args[1], true)
		}
	}
	return alt
}

// applyPred adds what the predicate value pred (of frame fn) answering truth says about the statement.
func (r *c08Resolver) applyPred(fn *ssa.Function, alt *c08Alt, pred ssa.Value, truth bool) {
	switch x := pred.(type) {
	case *ssa.MakeClosure, *ssa.Function:
		pf, ok := c08PredFacts(r.w, pred, truth)
		if !ok {
			alt.Other = "predicate " + desc(pred) + " not summarised"
			return
		}
		for l, site := range pf {
			if _, has := alt.Facts[l]; !has {
				alt.Facts[l] = site
			}
		}
	case *ssa.Parameter:
		for i, p := range fn.Params {
			if p == x {
				alt.Dyn = append(alt.Dyn, c08Dyn{i, truth})
				return
			}
		}
		alt.Other = "predicate " + desc(pred) + " not resolved"
	default:
		alt.Other = "predicate " + desc(pred) + " not resolved"
	}
}

// resolve: the alternatives of value v (a statement pointer) consumed in block `at` of fn.
//   - nil; the result of a clone of a statement (or of a remembered candidate); a pointer to a statement itself;
//   - the result of a module function: the alternatives of its returns, moved into this frame (parameters replaced by
//     the arguments, predicate parameters resolved with the closure / function passed);
//   - a phi: the alternatives of its edges, each judged where it is assigned (the predecessor block).
func (r *c08Resolver) resolve(fn *ssa.Function, v ssa.Value, at *ssa.BasicBlock, depth int, seen map[*ssa.Phi]bool) []c08Alt {
	if depth > 6 {
		return []c08Alt{{Other: "too deep: " + desc(v)}}
	}
	switch x := v.(type) {
	case *ssa.Const:
		if x.IsNil() {
			return []c08Alt{{Nil: true}}
		}
	case *ssa.ChangeType:
		return r.resolve(fn, x.X, at, depth+1, seen)
	case *ssa.Phi:
		if seen[x] {
			return nil // loop-carried: its other edges are judged where first met
		}
		seen[x] = true
		var out []c08Alt
		for i, e := range x.Edges {
			if e == v {
				continue
			}
			out = append(out, r.resolve(fn, e, x.Block().Preds[i], depth+1, seen)...)
		}
		return out
	case *ssa.Extract:
		if call, ok := x.Tuple.(*ssa.Call); ok {
			return r.resolveCall(fn, call, x.Index, at, depth, seen)
		}
	case *ssa.Call:
		return r.resolveCall(fn, x, 0, at, depth, seen)
	}
	if S := c08StmtOf(fn, v); S != nil {
		return []c08Alt{r.stmtAlt(fn, S, at)}
	}
	return []c08Alt{{Other: desc(v)}}
}

func (r *c08Resolver) resolveCall(fn *ssa.Function, call *ssa.Call, k int, at *ssa.BasicBlock, depth int, seen map[*ssa.Phi]bool) []c08Alt {
	w := r.w
	g := staticCallee(call)
	if g == nil || g.Blocks == nil || !w.IsProductFn(g) {
		return []c08Alt{{Other: desc(call)}}
	}
	if isCloneMethod(g) {
		arg := call.Call.Args[0]
		if S := c08StmtOf(fn, arg); S != nil {
			alt := r.stmtAlt(fn, S, call.Block())
			alt.Cloned = true
			return []c08Alt{alt}
		}
		// the clone of a remembered candidate: the candidate's alternatives, each one cloned
		if u, ok := arg.(*ssa.UnOp); ok && u.Op == token.MUL {
			arg = u.X
		}
		// (a nil candidate does not come out of the clone as a nil statement: the clone dereferences it)
		var sub []c08Alt
		for _, a := range r.resolve(fn, arg, call.Block(), depth+1, seen) {
			if !a.Nil {
				a.Cloned = true
				sub = append(sub, a)
			}
		}
		if len(sub) == 0 {
			return []c08Alt{{Other: "clone of " + desc(arg), Cloned: true}}
		}
		return sub
	}
	res := g.Signature.Results()
	if k >= res.Len() || !c08IsStmtPtr(res.At(k).Type()) || len(call.Call.Args) != len(g.Params) {
		return []c08Alt{{Other: desc(call)}}
	}
	// failing exits of g hand out no statement; they matter only if this frame can go on after g failed
	errChecked := false
	if n := res.Len(); n > 1 && isErrorType(res.At(n-1).Type()) {
		fi := w.Info(fn)
		guards := map[string]string{}
		if at.Index != 0 {
			guards, _ = fi.mustPassBetween([]int{0}, map[int]bool{at.Index: true})
		}
		if _, ok := guards["EQ("+descTailErr(call)+",nil)"]; ok {
			errChecked = true
		}
		if ret, ok := blockTerm(at).(*ssa.Return); ok && len(ret.Results) > 0 {
			if ex, ok := ret.Results[len(ret.Results)-1].(*ssa.Extract); ok && ex.Tuple == ssa.Value(call) && ex.Index == n-1 {
				errChecked = true // the frame fails exactly when g fails
			}
		}
	}
	var names, descs []string
	for i, p := range g.Params {
		names = append(names, p.Name())
		descs = append(descs, desc(call.Call.Args[i]))
	}
	gi := w.Info(g)
	var out []c08Alt
	for _, b := range g.Blocks {
		ret, ok := blockTerm(b).(*ssa.Return)
		if !ok || k >= len(ret.Results) {
			continue
		}
		if errChecked {
			if cl, _, _, _ := gi.classify(ret, state{b.Index, 0, -1}, Mode{Kind: mErr}); cl == clFail {
				continue
			}
		}
		for _, alt := range r.resolve(g, ret.Results[k], b, depth+1, map[*ssa.Phi]bool{}) {
			if alt.Nil || (alt.Other != "" && alt.Facts == nil) {
				out = append(out, alt)
				continue
			}
			lifted := c08Alt{Cloned: alt.Cloned, Other: alt.Other, Doc: substParams(alt.Doc, names, descs), Facts: map[string]string{}, Site: alt.Site}
			for l, site := range alt.Facts {
				lifted.Facts[substParams(l, names, descs)] = site
			}
			for _, d := range alt.Dyn {
				r.applyPred(fn, &lifted, call.Call.Args[d.Param], d.Truth)
			}
			out = append(out, lifted)
		}
	}
	if len(out) == 0 {
		return []c08Alt{{Other: "no statement-delivering exit in " + fnName(g)}}
	}
	return out
}

// c08NonNilAt: v is known to be non-nil when control is in block b: by the engine's analysis, or because b lies behind
// the non-nil edge of a dominating test of this very SSA value (the engine applies that refinement to non-phi values
// only; a candidate is a phi with a nil edge, tested before it is returned).
func c08NonNilAt(fi *FnInfo, v ssa.Value, b *ssa.BasicBlock) bool {
	if fi.nonNil(v, b) {
		return true
	}
	for d := b; d != nil; d = d.Idom() {
		id := d.Idom()
		if id == nil {
			break
		}
		iff, ok := blockTerm(id).(*ssa.If)
		if !ok {
			continue
		}
		for si, s := range id.Succs {
			if s == d && len(d.Preds) == 1 && condImpliesNonNil(iff.Cond, si == 0, v) {
				return true
			}
		}
	}
	return false
}

// c08AfterSearchFails: once the loop sl of g has run out of elements, g fails (error result) or hands out no
// statement (no error result: every reachable return yields nil).
func c08AfterSearchFails(w *World, g *ssa.Function, sl sliceLoop) (bool, []string) {
	fi := w.Info(g)
	res := g.Signature.Results()
	if n := res.Len(); n > 0 && isErrorType(res.At(n-1).Type()) {
		wit := fi.successWitness(Mode{Kind: mErr}, []state{{sl.Exit.Index, 0, -1}}, nil)
		return wit == nil, wit
	}
	for st := range fi.reach([]state{{sl.Exit.Index, 0, -1}}, nil) {
		if ret, ok := blockTerm(g.Blocks[st.b]).(*ssa.Return); ok {
			if len(ret.Results) == 0 || !isNilConst(ret.Results[0]) {
				return false, []string{"b" + strconv.Itoa(st.b) + " " + fi.blockPos(g.Blocks[st.b])}
			}
		}
	}
	return true, nil
}

// c08PathForms: the spellings of "the text of ref before its last '@'" and of the index they cut at.
// strings.LastIndexByte(s, '@') and strings.LastIndex(s, "@") are the same function of s: the separator is a single
// byte, and both search bytes.
type c08PathForm struct{ Idx, Path string }

func c08PathForms(ref string) []c08PathForm {
	var out []c08PathForm
	for _, idx := range []string{
		"call:strings.LastIndex(" + ref + `,const:"@")`,
		"call:strings.LastIndexByte(" + ref + ",const:64)",
	} {
		out = append(out, c08PathForm{Idx: idx, Path: ref + "[:" + idx + "]"})
	}
	return out
}
